import json,sys
r=json.load(open(sys.argv[1]))
if r.get('error'): print('ERROR',r['error'])
for h in r['harnesses'] or []:
    print(h['harness'],'paths',h['paths'],'ok',h['paths_ok'],'pruned',h['pruned'],'panics',h['panics'],'complete',h['complete'],h.get('incomplete_reason'),h.get('unsupported'),'wall %.1f solver %.1f'%(h['wall_s'],h['solver_s']),'sat',h['q_sat'],'unsat',h['q_unsat'],'viol',len(h['violations'] or []))
    for v in (h['violations'] or [])[:int(sys.argv[2]) if len(sys.argv)>2 else 4]: print('   VIOL',v['assert'],v['kind'],v.get('detail'),{k:(x.get('text') or x.get('v')) for k,x in v['model'].items()}, v.get('notes'))
    for b in (h.get('engine_bugs') or [])[:1]: print(b[:2500])
    print('   asserts',h['asserts'])
