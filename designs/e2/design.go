package design

import . "goa.design/goa/v3/dsl"

var _ = API("e2", func() {})

var CustomErr = Type("CustomErr", func() {
	ErrorName("name", String)
	Attribute("code", Int)
	Attribute("detail", String)
	Required("name", "code")
})

var _ = Service("svc", func() {
	Error("upstream")
	HTTP(func() {
		// status set inside the response function, at service level
		Response("upstream", func() { Code(StatusBadGateway) })
	})
	Method("act", func() {
		Error("conflict", CustomErr)
		Error("gone", CustomErr)
		Error("stale")
		Error("dup")
		HTTP(func() {
			POST("/act")
			// two errors of one type on one status, different mappings
			Response("conflict", StatusConflict)
			Response("gone", StatusConflict, func() { Header("detail:X-Detail") })
			// status set inside the response function
			Response("stale", func() { Code(StatusPreconditionFailed) })
			Response("dup", StatusPreconditionFailed, func() { Header("message:X-Msg") })
		})
	})
})
