//go:build verif

package vh

import (
	"context"
	"errors"
	"io"
	"net/http"
	"strings"

	goahttp "goa.design/goa/v3/http"
	goa "goa.design/goa/v3/pkg"
	client "vdesign/gen/http/svc/client"
	server "vdesign/gen/http/svc/server"
	svc "vdesign/gen/svc"
)

// VerifC05_e2_act: errors sharing a status code and a type but not a mapping;
// status codes set with Code() inside the response function.
func VerifC05_e2_act() {
	msg := nondetStringUpTo("msg", deep(2))
	verifAssume(visible(msg))
	code := nondetInt("code")
	var detail *string
	if nondetBool("detail-set") {
		d := nondetStringUpTo("detail", deep(1))
		verifAssume(visible(d))
		detail = &d
	}
	kind := nondetChoice("error-kind", 5)
	var ret error
	wantStatus, wantName := 0, ""
	switch kind {
	case 0:
		ret, wantStatus, wantName = &svc.CustomErr{Name: "conflict", Code: code, Detail: detail}, http.StatusConflict, "conflict"
	case 1:
		ret, wantStatus, wantName = &svc.CustomErr{Name: "gone", Code: code, Detail: detail}, http.StatusConflict, "gone"
	case 2:
		ret, wantStatus, wantName = svc.MakeStale(errors.New(msg)), http.StatusPreconditionFailed, "stale"
	case 3:
		// an empty header value is not distinguishable from an absent (required) header
		verifAssume(msg != "")
		ret, wantStatus, wantName = svc.MakeDup(errors.New(msg)), http.StatusPreconditionFailed, "dup"
	case 4:
		ret, wantStatus, wantName = svc.MakeUpstream(errors.New(msg)), http.StatusBadGateway, "upstream"
	}
	eps := &svc.Endpoints{Act: func(ctx context.Context, v any) (any, error) { return nil, ret }}
	srv := server.New(eps, &stubMux{}, func(*http.Request) goahttp.Decoder { return stubDecoder{func(any) error { return nil }} }, recEncoder(), nil, nil)
	w := newRecWriter()
	srv.Act.ServeHTTP(w, newRequest("POST", nil))
	verifAssert("exactly-one-response", w.nHeaders == 1 && len(w.encoded) == 1)
	if w.nHeaders != 1 || len(w.encoded) != 1 {
		return
	}
	verifAssert("status-as-designed", w.status == wantStatus)
	conforms := verifSchemaAccepts(openapiDoc, "POST /act", map[string]any{"response:" + itoa(w.status): w.encoded[0]})
	if kind == 3 {
		// known: one documented response per status code; "dup" (message in a
		// header) shares 412 with "stale" (message in the body)
		verifAssert("openapi:response-conforms[errors-sharing-a-status-code-with-different-bodies]", conforms)
	} else {
		verifAssert("openapi:response-conforms", conforms)
	}
	verifAssert("goa-error-header-names-the-error", w.h.Get("goa-error") == wantName)
	if kind == 1 {
		verifAssert("gone:detail-carried-in-its-header", (detail == nil && w.h.Get("X-Detail") == "") || (detail != nil && w.h.Get("X-Detail") == *detail))
	}
	if kind == 3 {
		verifAssert("dup:message-carried-in-its-header", w.h.Get("X-Msg") == msg)
	}
	resp := &http.Response{StatusCode: w.status, Header: w.h, Body: io.NopCloser(strings.NewReader(""))}
	out, cerr := client.DecodeActResponse(func(*http.Response) goahttp.Decoder {
		return stubDecoder{func(v any) error { return verifJSONCopy(v, w.encoded[0]) }}
	}, false)(resp)
	verifAssert("client-returns-an-error-and-no-result", out == nil && cerr != nil)
	if cerr == nil {
		return
	}
	switch kind {
	case 0, 1:
		ce, ok := cerr.(*svc.CustomErr)
		verifAssert("client:custom-error-type", ok)
		if ok {
			verifAssert("client:custom-error-name", ce.Name == wantName)
			verifAssert("client:custom-error-code", ce.Code == code)
			if kind == 1 && detail != nil && *detail == "" {
				// an empty header value is not distinguishable from an absent header
				return
			}
			verifAssert("client:custom-error-detail", (ce.Detail == nil) == (detail == nil) && (ce.Detail == nil || *ce.Detail == *detail))
		}
	default:
		se, ok := cerr.(*goa.ServiceError)
		verifAssert("client:service-error-type", ok)
		if ok {
			verifAssert("client:service-error-name", se.Name == wantName)
			verifAssert("client:service-error-message", se.Message == msg)
		}
	}
}
