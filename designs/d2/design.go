package design

import . "goa.design/goa/v3/dsl"

var _ = API("d2", func() {})

// attributes whose generated examples come from less common branches of the
// example generator: maps keyed by Int32 (a JSON-typed CLI flag), uuid / date
// / date-time / rfc1123 / regexp formatted strings, nested arrays
var _ = Service("svc", func() {
	Method("find", func() {
		Payload(func() {
			Attribute("weights", MapOf(Int32, String), func() { MinLength(3) })
			Attribute("id", String, func() { Format(FormatUUID) })
			Attribute("since", String, func() { Format(FormatDateTime) })
			Attribute("day", String, func() { Format(FormatDate) })
			Attribute("stamp", String, func() { Format(FormatRFC1123) })
			Attribute("re", String, func() { Format(FormatRegexp) })
			Attribute("host", String, func() { Format(FormatHostname) })
			Attribute("grid", ArrayOf(ArrayOf(Float32)))
			Required("weights", "id")
		})
		Result(func() {
			Attribute("ids", ArrayOf(String, func() { Format(FormatUUID) }))
			Attribute("by_day", MapOf(String, Int64))
		})
		HTTP(func() {
			POST("/find/{id}")
			Param("weights")
			Param("since")
			Header("day:X-Day")
		})
	})
})
