package design

import . "goa.design/goa/v3/dsl"

var _ = API("p1", func() {})

var Item = Type("Item", func() {
	Field(1, "n", Int)
	Field(2, "s", String)
	Required("n")
})

// validated user types nested two levels deep, used on the request and on the response side
var Geo = Type("Geo", func() {
	Field(1, "lat", Float64, func() {
		Minimum(-90)
		Maximum(90)
	})
	Required("lat")
})
var Address = Type("Address", func() {
	Field(1, "street", String, func() { MinLength(1) })
	Field(2, "geo", Geo)
	Required("street", "geo")
})
var Owner = Type("Owner", func() {
	Field(1, "name", String)
	Field(2, "addr", Address)
	Required("name", "addr")
})

var _ = Service("svc", func() {
	Method("move", func() {
		Payload(Owner)
		Result(Owner)
		GRPC(func() {})
	})
	Method("put", func() {
		Payload(func() {
			Field(1, "id", String)
			Field(2, "cnt", Int32, func() { Minimum(1) })
			Field(3, "big", Int64)
			Field(4, "ok", Boolean)
			Field(5, "f", Float64)
			Field(6, "tags", ArrayOf(String))
			Field(7, "item", Item)
			Field(8, "m", MapOf(String, Int32))
			Field(9, "tenant", String)
			Field(10, "u", UInt32)
			Field(11, "mode", String, func() { Enum("ro", "rw") })
			Field(12, "ids", ArrayOf(UInt64))
			Field(13, "big_id", UInt64)
			Required("id", "tenant")
		})
		Result(func() {
			Field(1, "rid", String)
			Field(2, "item", Item)
			Field(3, "etag", String)
			Required("rid", "item")
		})
		GRPC(func() {
			Metadata(func() {
				Attribute("tenant")
				Attribute("mode")
				Attribute("ids")
				Attribute("big_id")
			})
			// explicit response message listing required result attributes
			Response(CodeOK, func() {
				Message(func() {
					Attribute("item")
					Attribute("rid")
				})
			})
		})
	})
})
