//go:build verif

package vh

import (
	"context"

	goagrpc "goa.design/goa/v3/grpc"
	"google.golang.org/grpc"
	"google.golang.org/grpc/metadata"
	client "vdesign/gen/grpc/svc/client"
	svcpb "vdesign/gen/grpc/svc/pb"
	server "vdesign/gen/grpc/svc/server"
	svc "vdesign/gen/svc"
)

func symPutPayload() *svc.PutPayload {
	p := &svc.PutPayload{ID: nondetStringUpTo("id", deep(2)), Tenant: nondetString("tenant", 1)}
	switch nondetChoice("focus", 7) {
	case 6:
		// unsigned 64-bit scalar carried in metadata
		v := nondetUint64("big-id")
		p.BigID = &v
	case 5:
		// array of unsigned 64-bit integers carried in metadata
		switch nondetChoice("ids-len", 3) {
		case 1:
			p.Ids = []uint64{nondetUint64("id0")}
		case 2:
			p.Ids = []uint64{nondetUint64("id0"), nondetUint64("id1")}
		}
	case 4:
		// optional string carried in metadata, with an enum validation
		v := nondetStringUpTo("mode", deep(2))
		p.Mode = &v
	case 0:
		if nondetBool("cnt-set") {
			v := nondetInt32("cnt")
			p.Cnt = &v
		}
		if nondetBool("big-set") {
			v := nondetInt64("big")
			p.Big = &v
		}
		if nondetBool("u-set") {
			v := nondetUint32("u")
			p.U = &v
		}
	case 1:
		if nondetBool("ok-set") {
			v := nondetBool("ok")
			p.OK = &v
		}
		if nondetBool("f-set") {
			v := nondetFloat64("f")
			verifAssume(v == v)
			p.F = &v
		}
	case 2:
		switch nondetChoice("tags-len", 3) {
		case 1:
			p.Tags = []string{nondetStringUpTo("t0", deep(1))}
		case 2:
			p.Tags = []string{nondetStringUpTo("t0", deep(1)), nondetStringUpTo("t1", deep(1))}
		}
		if nondetBool("m-set") {
			p.M = map[string]int32{nondetStringUpTo("mk", deep(1)): nondetInt32("mv")}
		}
	case 3:
		if nondetBool("item-set") {
			p.Item = &svc.Item{N: nondetInt("item-n")}
			if nondetBool("item-s-set") {
				v := nondetStringUpTo("item-s", deep(1))
				p.Item.S = &v
			}
		}
	}
	return p
}

// VerifC10_p1_put: payload -> generated client message+metadata -> generated
// server handler -> payload; invalid messages are refused before user code.
func VerifC10_p1_put() {
	p := symPutPayload()
	want := *p
	md := metadata.MD{}
	msg, err := client.EncodePutRequest(context.Background(), p, &md)
	verifAssert("client-encodes", err == nil && msg != nil)
	if err != nil {
		return
	}
	if nondetBool("drop-required-metadata") {
		md = metadata.MD{}
	}
	// the wire: the protobuf message arrives equal, outgoing metadata becomes incoming
	ctx := metadata.NewIncomingContext(context.Background(), md.Copy())
	calls := 0
	var got *svc.PutPayload
	eps := &svc.Endpoints{Put: func(ctx context.Context, v any) (any, error) {
		calls++
		got = v.(*svc.PutPayload)
		return &svc.PutResult{Rid: "r", Item: &svc.Item{N: 1}}, nil
	}}
	srv := server.New(eps, nil)
	resp, herr := srv.Put(ctx, msg.(*svcpb.PutRequest))
	valid := (want.Cnt == nil || *want.Cnt >= 1) && len(md) > 0 && (want.Mode == nil || *want.Mode == "ro" || *want.Mode == "rw")
	verifAssert("user-code-runs-iff-message-valid", (calls == 1) == valid)
	if !valid {
		verifAssert("invalid-message-refused-with-error", herr != nil && resp == nil)
		return
	}
	verifAssert("valid-message-served", herr == nil && resp != nil && got != nil)
	if got == nil {
		return
	}
	verifAssert("field:id", got.ID == want.ID)
	verifAssert("metadata:tenant", got.Tenant == want.Tenant)
	verifAssert("metadata:mode", (got.Mode == nil) == (want.Mode == nil) && (got.Mode == nil || *got.Mode == *want.Mode))
	verifAssert("field:cnt", (got.Cnt == nil) == (want.Cnt == nil) && (got.Cnt == nil || *got.Cnt == *want.Cnt))
	verifAssert("field:big", (got.Big == nil) == (want.Big == nil) && (got.Big == nil || *got.Big == *want.Big))
	verifAssert("field:u", (got.U == nil) == (want.U == nil) && (got.U == nil || *got.U == *want.U))
	verifAssert("field:ok", (got.OK == nil) == (want.OK == nil) && (got.OK == nil || *got.OK == *want.OK))
	verifAssert("field:f", (got.F == nil) == (want.F == nil) && (got.F == nil || *got.F == *want.F))
	verifAssert("metadata:big-id", (got.BigID == nil) == (want.BigID == nil) && (got.BigID == nil || *got.BigID == *want.BigID))
	verifAssert("metadata:ids", len(got.Ids) == len(want.Ids))
	for i := range want.Ids {
		if i < len(got.Ids) {
			verifAssert("metadata:ids-elem", got.Ids[i] == want.Ids[i])
		}
	}
	verifAssert("field:tags", len(got.Tags) == len(want.Tags))
	for i := range want.Tags {
		if i < len(got.Tags) {
			verifAssert("field:tags-elem", got.Tags[i] == want.Tags[i])
		}
	}
	verifAssert("field:m", len(got.M) == len(want.M))
	for k, v := range want.M {
		gv, ok := got.M[k]
		verifAssert("field:m-entry", ok && gv == v)
	}
	verifAssert("field:item", (got.Item == nil) == (want.Item == nil))
	if got.Item != nil && want.Item != nil {
		if int(int32(want.Item.N)) != want.Item.N {
			verifAssert("field:item.n[int-wider-than-sint32]", got.Item.N == want.Item.N)
		} else {
			verifAssert("field:item.n", got.Item.N == want.Item.N)
		}
		verifAssert("field:item.s", (got.Item.S == nil) == (want.Item.S == nil) && (got.Item.S == nil || *got.Item.S == *want.Item.S))
	}
}

// VerifC10_p1_result: result -> generated server message -> generated client result.
func VerifC10_p1_result() {
	res := &svc.PutResult{Rid: nondetStringUpTo("rid", deep(2))}
	res.Item = &svc.Item{N: int(nondetInt32("item-n"))}
	if nondetBool("item-s-set") {
		v := nondetStringUpTo("item-s", deep(1))
		res.Item.S = &v
	}
	want := *res
	hdr, trlr := metadata.MD{}, metadata.MD{}
	msg, err := server.EncodePutResponse(context.Background(), res, &hdr, &trlr)
	verifAssert("server-encodes-result", err == nil && msg != nil)
	if err != nil {
		return
	}
	if nondetBool("foreign-server-omits-required-item") {
		// a message that lacks a required member is refused by the generated client
		m := msg.(*svcpb.PutResponse)
		m.Item = nil
		bad, berr := client.DecodePutResponse(context.Background(), m, hdr, trlr)
		verifAssert("client-refuses-message-missing-a-required-member", berr != nil && bad == nil)
		return
	}
	out, derr := client.DecodePutResponse(context.Background(), msg, hdr, trlr)
	verifAssert("client-decodes-result", derr == nil)
	r, ok := out.(*svc.PutResult)
	verifAssert("result-type", ok && r != nil)
	if !ok || r == nil {
		return
	}
	verifAssert("result:rid", r.Rid == want.Rid)
	verifAssert("result:item", (r.Item == nil) == (want.Item == nil))
	if r.Item != nil && want.Item != nil {
		verifAssert("result:item.n", r.Item.N == want.Item.N)
		verifAssert("result:item.s", (r.Item.S == nil) == (want.Item.S == nil) && (r.Item.S == nil || *r.Item.S == *want.Item.S))
	}
}

// loopClient is the protoc-generated client interface wired straight to the
// generated server: what the caller's context carries as outgoing metadata is
// what the server finds as incoming metadata.
type loopClient struct {
	srv   svcpb.SvcServer
	calls int
}

func (c *loopClient) Put(ctx context.Context, in *svcpb.PutRequest, opts ...grpc.CallOption) (*svcpb.PutResponse, error) {
	c.calls++
	md, _ := metadata.FromOutgoingContext(ctx)
	return c.srv.Put(metadata.NewIncomingContext(context.Background(), md.Copy()), in)
}

func (c *loopClient) Move(ctx context.Context, in *svcpb.MoveRequest, opts ...grpc.CallOption) (*svcpb.MoveResponse, error) {
	md, _ := metadata.FromOutgoingContext(ctx)
	return c.srv.Move(metadata.NewIncomingContext(context.Background(), md.Copy()), in)
}

// VerifC10_p1_invoker: the full client path (goa's invoker + generated
// BuildPutFunc/EncodePutRequest/DecodePutResponse) against the generated
// server, with and without metadata already attached to the caller's context.
func VerifC10_p1_invoker() {
	p := &svc.PutPayload{ID: nondetStringUpTo("id", deep(1)), Tenant: nondetString("tenant", 1)}
	want := *p
	var got *svc.PutPayload
	eps := &svc.Endpoints{Put: func(ctx context.Context, v any) (any, error) {
		got = v.(*svc.PutPayload)
		return &svc.PutResult{Rid: "r" + got.Tenant, Item: &svc.Item{N: 1}}, nil
	}}
	lc := &loopClient{srv: server.New(eps, nil)}
	ctx := context.Background()
	switch nondetChoice("caller-metadata", 3) {
	case 1:
		ctx = metadata.AppendToOutgoingContext(ctx, "x-request-id", "r1")
	case 2:
		ctx = metadata.NewOutgoingContext(ctx, metadata.Pairs("x-trace", "t1", "x-other", "o"))
	}
	inv := goagrpc.NewInvoker(client.BuildPutFunc(lc), client.EncodePutRequest, client.DecodePutResponse)
	res, err := inv.Invoke(ctx, p)
	verifAssert("invoker:one-remote-call", lc.calls == 1)
	verifAssert("invoker:call-succeeds", err == nil && res != nil)
	verifAssert("invoker:server-got-the-payload", got != nil && got.ID == want.ID && got.Tenant == want.Tenant)
	if r, ok := res.(*svc.PutResult); ok {
		verifAssert("invoker:result", r.Rid == "r"+want.Tenant)
	} else {
		verifAssert("invoker:result-type", err != nil)
	}
}

// VerifC10_p1_move: validated user types nested two levels deep on both sides:
// the server refuses an invalid request message, the client an invalid response.
func VerifC10_p1_move() {
	lat := nondetFloat64("lat")
	verifAssume(lat == lat)
	street := nondetStringUpTo("street", 1)
	o := &svc.Owner{Name: "n", Addr: &svc.Address{Street: street, Geo: &svc.Geo{Lat: lat}}}
	valid := lat >= -90 && lat <= 90 && len(street) >= 1
	md := metadata.MD{}
	msg, err := client.EncodeMoveRequest(context.Background(), o, &md)
	verifAssert("move:client-encodes", err == nil && msg != nil)
	if err != nil {
		return
	}
	calls := 0
	var got *svc.Owner
	eps := &svc.Endpoints{Move: func(ctx context.Context, v any) (any, error) {
		calls++
		got = v.(*svc.Owner)
		return got, nil
	}}
	srv := server.New(eps, nil)
	resp, herr := srv.Move(metadata.NewIncomingContext(context.Background(), md.Copy()), msg.(*svcpb.MoveRequest))
	verifAssert("move:user-code-runs-iff-message-valid", (calls == 1) == valid)
	if !valid {
		verifAssert("move:invalid-message-refused", herr != nil && resp == nil)
		// the same document sent back by a foreign server is refused by the generated client
		hdr, trlr := metadata.MD{}, metadata.MD{}
		bad, _ := server.EncodeMoveResponse(context.Background(), o, &hdr, &trlr)
		out, derr := client.DecodeMoveResponse(context.Background(), bad, hdr, trlr)
		verifAssert("move:client-refuses-invalid-response", derr != nil && out == nil)
		return
	}
	verifAssert("move:served", herr == nil && resp != nil && got != nil && got.Addr != nil && got.Addr.Geo != nil && got.Addr.Geo.Lat == lat && got.Addr.Street == street)
	out, derr := client.DecodeMoveResponse(context.Background(), resp, metadata.MD{}, metadata.MD{})
	r, ok := out.(*svc.Owner)
	verifAssert("move:client-result", derr == nil && ok && r != nil && r.Addr != nil && r.Addr.Geo != nil && r.Addr.Geo.Lat == lat)
}
