package design

import . "goa.design/goa/v3/dsl"

var _ = API("v7", func() {})

// primitive aliases that carry validations, used as array elements, map keys
// and values, query parameter; inline object; required attribute with default
var CodeT = Type("Code", String, func() { Pattern("^[A-Z]{2}$") })
var Qty = Type("Qty", Int, func() {
	Minimum(1)
	Maximum(9)
})

// a user type whose only validation sits on the elements of a primitive array
var TagBag = Type("TagBag", func() {
	Attribute("tags", ArrayOf(String, func() { MaxLength(3) }))
})

var CellT = Type("Cell", func() {
	Attribute("label", String)
	Attribute("w", Int)
	Required("label")
})

var _ = Service("svc", func() {
	Method("aliases", func() {
		Payload(func() {
			Attribute("codes", ArrayOf(CodeT))
			Attribute("by_code", MapOf(CodeT, Qty))
			Attribute("qty", Qty)
			// alias validations plus validations of the attribute itself; a
			// sibling of the same alias type without any
			Attribute("base", CodeT, func() { Enum("AB", "CD", "ab") })
			Attribute("quote", CodeT)
			Attribute("bag", TagBag)
			Attribute("bags", ArrayOf(TagBag))
			// path parameters typed by validating aliases, no validation of their own
			Attribute("slug", CodeT)
			Attribute("rev", Qty)
			Attribute("dims", func() {
				Attribute("w", Int, func() { Minimum(0) })
				Attribute("h", Int)
				Required("w")
			})
			Attribute("lvl", Int, func() {
				Default(3)
				Minimum(2)
			})
			Required("lvl", "slug", "rev")
		})
		HTTP(func() {
			POST("/aliases/{slug}/{rev}")
			Param("qty")
		})
	})
	// body = array of arrays of a user type whose only validation is Required
	Method("grid", func() {
		Payload(ArrayOf(ArrayOf(CellT)))
		HTTP(func() { POST("/grid") })
	})
	// two methods validating a body attribute of the same name with different patterns
	Method("zip", func() {
		Payload(func() {
			Attribute("code", String, func() { Pattern("^[0-9]{2}$") })
			Attribute("city", String)
		})
		HTTP(func() { POST("/zip") })
	})
	Method("country", func() {
		Payload(func() {
			Attribute("code", String, func() { Pattern("^[A-Z]{2}$") })
			Attribute("n", Int)
		})
		HTTP(func() { POST("/country") })
	})
})
