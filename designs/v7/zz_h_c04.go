//go:build verif

package vh

import (
	"context"
	"net/http"
	"net/url"
	"regexp"

	goahttp "goa.design/goa/v3/http"
	server "vdesign/gen/http/svc/server"
	svc "vdesign/gen/svc"
)

var verifCodePat = regexp.MustCompile("^[A-Z]{2}$")

// design v7, method aliases: Code = String matching ^[A-Z]{2}$, Qty = Int in
// 1..9; array of Code, map Code->Qty, Qty query parameter, inline object dims
// {w >= 0 required, h}, lvl required with default 3 and minimum 2.
func VerifC04_v7_aliases() {
	body := &server.AliasesRequestBody{}
	rules := map[string]bool{}
	three := 3
	body.Lvl = &three
	var q wireInt
	qAbsent, keyInvalid := true, false
	slug, rev := "OK", wireInt{kind: wNumber, v: 2, raw: "2"}
	switch nondetChoice("focus", 10) {
	case 7: // nested user type whose only validation is on primitive array elements
		t := nondetStringUpTo("tag", deep(4))
		for j := 0; j < len(t); j++ {
			verifAssume(t[j] < 0x80)
		}
		bag := &server.TagBagRequestBody{Tags: []string{t}}
		if nondetBool("in-array") {
			body.Bags = []*server.TagBagRequestBody{bag}
		} else {
			body.Bag = bag
		}
		if len(t) > 3 {
			rules["invalid_length"] = true
		}
	case 8: // path parameter typed by a string alias with a pattern
		slug = nondetString("slug", 2)
		for j := 0; j < len(slug); j++ {
			verifAssume(slug[j] < 0x80 && slug[j] != '/')
		}
		verifMode("ascii-input")
		if !verifCodePat.MatchString(slug) {
			rules["invalid_pattern"] = true
		}
	case 9: // path parameter typed by an integer alias with a range
		rev = newWireInt("rev", false)
		if rev.kind == wJunk {
			rules["invalid_field_type"] = true
		} else if rev.v < 1 || rev.v > 9 {
			rules["invalid_range"] = true
		}
	case 6: // alias attribute with validations of its own, and a plain sibling
		if nondetBool("base-set") {
			bases := []string{"AB", "CD", "ab", "EF", "A"}
			b := bases[nondetChoice("base", len(bases))]
			body.Base = &b
			if !verifCodePat.MatchString(b) {
				rules["invalid_pattern"] = true
			}
			if b != "AB" && b != "CD" && b != "ab" {
				rules["invalid_enum_value"] = true
			}
		}
		if nondetBool("quote-set") {
			quotes := []string{"GB", "AB", "gb", "GBP"}
			q := quotes[nondetChoice("quote", len(quotes))]
			body.Quote = &q
			if !verifCodePat.MatchString(q) {
				rules["invalid_pattern"] = true
			}
		}
	case 0: // array of alias
		n := nondetChoice("codes-len", 3)
		for i := 0; i < n; i++ {
			c := nondetStringUpTo("code", deep(3))
			verifMode("ascii-input")
			for j := 0; j < len(c); j++ {
				verifAssume(c[j] < 0x80)
			}
			body.Codes = append(body.Codes, c)
			if !verifCodePat.MatchString(c) {
				rules["invalid_pattern"] = true
			}
		}
		if n == 0 {
			body.Codes = nil
		}
	case 1: // map alias -> alias
		k := nondetStringUpTo("key", deep(3))
		for j := 0; j < len(k); j++ {
			verifAssume(k[j] < 0x80)
		}
		verifMode("ascii-input")
		v := nondetInt("val")
		body.ByCode = map[string]int{k: v}
		if !verifCodePat.MatchString(k) {
			rules["invalid_pattern"] = true
			keyInvalid = true
		}
		if v < 1 || v > 9 {
			rules["invalid_range"] = true
		}
	case 2: // alias query parameter
		qAbsent = false
		q = newWireInt("qty", false)
		switch q.kind {
		case wJunk:
			rules["invalid_field_type"] = true
		case wNumber:
			if q.v < 1 || q.v > 9 {
				rules["invalid_range"] = true
			}
		default:
			qAbsent = true
		}
	case 3: // inline object
		d := &struct {
			W *int `form:"w" json:"w" xml:"w"`
			H *int `form:"h" json:"h" xml:"h"`
		}{}
		if nondetBool("w-present") {
			w := nondetInt("w")
			d.W = &w
			if w < 0 {
				rules["invalid_range"] = true
			}
		} else {
			rules["missing_field"] = true
		}
		if nondetBool("h-present") {
			h := nondetInt("h")
			d.H = &h
		}
		body.Dims = d
	case 4: // required with default
		if nondetBool("lvl-present") {
			l := nondetInt("lvl")
			body.Lvl = &l
			if l < 2 {
				rules["invalid_range"] = true
			}
		} else {
			body.Lvl = nil
			rules["missing_field"] = true
		}
	case 5:
	}
	query := url.Values{}
	if !qAbsent {
		query.Set("qty", q.raw)
	}
	called := 0
	var got *svc.AliasesPayload
	endpoint := func(ctx context.Context, p any) (any, error) { called++; got = p.(*svc.AliasesPayload); return nil, nil }
	dec := func(*http.Request) goahttp.Decoder {
		return stubDecoder{func(v any) error { *(v.(*server.AliasesRequestBody)) = *body; return nil }}
	}
	w := newRecWriter()
	server.NewAliasesHandler(endpoint, &stubMux{vars: map[string]string{"slug": slug, "rev": rev.raw}}, dec, recEncoder(), nil, nil).ServeHTTP(w, newRequest("POST", query))
	ran := called == 1
	verifAssert("endpoint-runs-iff-request-valid", ran == (len(rules) == 0))
	if !ran {
		verifAssert("rejected:exactly-one-400", w.nHeaders == 1 && w.status == http.StatusBadRequest)
		verifAssert("rejected:names-a-violated-rule", rules[errorName(w)])
	} else if len(rules) == 0 {
		verifAssert("accepted:lvl", got.Lvl == *body.Lvl)
		verifAssert("accepted:codes", len(got.Codes) == len(body.Codes))
		verifAssert("accepted:qty", (got.Qty == nil) == qAbsent && (got.Qty == nil || int64(*got.Qty) == q.v))
	}
	parts := map[string]any{"body": body, "path:slug": slug}
	if rev.kind == wNumber {
		parts["path:rev"] = rev.v
	} else {
		parts["path:rev"] = rev.raw
	}
	if !qAbsent {
		if q.kind == wNumber {
			parts["query:qty"] = q.v
		} else {
			parts["query:qty"] = q.raw
		}
	}
	specOK := verifSchemaAccepts(openapiDoc, "POST /aliases/{slug}/{rev}", parts)
	if keyInvalid {
		// known: validations of map keys have no counterpart in the schema
		verifAssert("openapi:schema-accepts-iff-server-accepts[map-key-validation-not-in-schema]", specOK == ran)
	} else {
		verifAssert("openapi:schema-accepts-iff-server-accepts", specOK == ran)
	}
}

// design v7, method grid: [[Cell]] with Cell{label required}.
func VerifC04_v7_grid() {
	cell := &server.CellRequestBody{}
	if nondetBool("label-present") {
		l := nondetStringUpTo("label", 1)
		cell.Label = &l
	}
	var body [][]*server.CellRequestBody
	switch nondetChoice("shape", 3) {
	case 0:
		body = [][]*server.CellRequestBody{}
	case 1:
		body = [][]*server.CellRequestBody{{cell}}
	default:
		ok := "k"
		body = [][]*server.CellRequestBody{{{Label: &ok}}, {{Label: &ok}, cell}}
	}
	hasCell := len(body) > 0
	valid := !hasCell || cell.Label != nil
	called := 0
	endpoint := func(ctx context.Context, p any) (any, error) { called++; return nil, nil }
	dec := func(*http.Request) goahttp.Decoder {
		return stubDecoder{func(v any) error { *(v.(*[][]*server.CellRequestBody)) = body; return nil }}
	}
	w := newRecWriter()
	server.NewGridHandler(endpoint, &stubMux{}, dec, recEncoder(), nil, nil).ServeHTTP(w, newRequest("POST", nil))
	ran := called == 1
	verifAssert("endpoint-runs-iff-request-valid", ran == valid)
	if !ran {
		verifAssert("rejected:exactly-one-400", w.nHeaders == 1 && w.status == http.StatusBadRequest)
		verifAssert("rejected:names-a-violated-rule", errorName(w) == "missing_field")
	}
	verifAssert("openapi:schema-accepts-iff-server-accepts", verifSchemaAccepts(openapiDoc, "POST /grid", map[string]any{"body": body}) == ran)
}

// design v7, methods zip and country: one server process validates a body
// attribute named code with ^[0-9]{2}$ for zip and ^[A-Z]{2}$ for country;
// the verdict of each request depends on its own endpoint's pattern whatever
// was validated before.
func VerifC04_v7_codes() {
	vals := []string{"12", "AB", "a1", ""}
	first, second := vals[nondetChoice("first", len(vals))], vals[nondetChoice("second", len(vals))]
	zipFirst := nondetBool("zip-first")
	serve := func(zip bool, code string) (bool, *recWriter) {
		called := 0
		endpoint := func(ctx context.Context, p any) (any, error) { called++; return nil, nil }
		w := newRecWriter()
		if zip {
			b := &server.ZipRequestBody{Code: &code}
			dec := func(*http.Request) goahttp.Decoder {
				return stubDecoder{func(v any) error { *(v.(*server.ZipRequestBody)) = *b; return nil }}
			}
			server.NewZipHandler(endpoint, &stubMux{}, dec, recEncoder(), nil, nil).ServeHTTP(w, newRequest("POST", nil))
		} else {
			b := &server.CountryRequestBody{Code: &code}
			dec := func(*http.Request) goahttp.Decoder {
				return stubDecoder{func(v any) error { *(v.(*server.CountryRequestBody)) = *b; return nil }}
			}
			server.NewCountryHandler(endpoint, &stubMux{}, dec, recEncoder(), nil, nil).ServeHTTP(w, newRequest("POST", nil))
		}
		return called == 1, w
	}
	wantOK := func(zip bool, code string) bool {
		if zip {
			return code == "12"
		}
		return code == "AB"
	}
	r1, _ := serve(zipFirst, first)
	r2, w2 := serve(!zipFirst, second)
	verifAssert("endpoint-runs-iff-request-valid", r1 == wantOK(zipFirst, first) && r2 == wantOK(!zipFirst, second))
	if !r2 {
		verifAssert("rejected:names-a-violated-rule", errorName(w2) == "invalid_pattern")
	}
	op := "POST /country"
	var body any = &server.CountryRequestBody{Code: &second}
	if !zipFirst {
		op, body = "POST /zip", &server.ZipRequestBody{Code: &second}
	}
	verifAssert("openapi:schema-accepts-iff-server-accepts", verifSchemaAccepts(openapiDoc, op, map[string]any{"body": body}) == r2)
}
