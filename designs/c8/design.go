package design

import . "goa.design/goa/v3/dsl"

var _ = API("c8", func() {})

// an inline body listing an attribute with the "name:wire-name" syntax that
// headers and parameters use; the DSL accepts it
var _ = Service("svc", func() {
	Method("m", func() {
		Payload(func() {
			Attribute("label", String)
			Attribute("n", Int)
		})
		HTTP(func() {
			POST("/m")
			Body(func() {
				Attribute("n")
				Attribute("label:wire_label")
			})
		})
	})
})
