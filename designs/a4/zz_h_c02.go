//go:build verif

package vh

import (
	"context"
	"net/http"
	"net/url"
	"strings"

	goahttp "goa.design/goa/v3/http"
	archive "vdesign/gen/archive"
	archc "vdesign/gen/http/archive/client"
	archs "vdesign/gen/http/archive/server"
	memc "vdesign/gen/http/memberships/client"
	mems "vdesign/gen/http/memberships/server"
	memberships "vdesign/gen/memberships"
)

func serveTarget(mux goahttp.Muxer, method, target string) *recWriter {
	u, err := url.ParseRequestURI(target)
	w := newRecWriter()
	if err != nil {
		w.status = -1
		return w
	}
	mux.ServeHTTP(w, &http.Request{Method: method, URL: u, Header: http.Header{}, RequestURI: target})
	return w
}

func noSlash(s string) bool { return !strings.Contains(s, "/") && s != "" }

// VerifC02_a4_base_paths: every path constructor of a service with several
// base paths yields a URL that is routed to the method with the same values.
func VerifC02_a4_base_paths() {
	// one wildcard value is symbolic at a time (the others are fixed and distinct)
	tenant, user, part := "t", 7, "p"
	switch nondetChoice("symbolic-wildcard", 3) {
	case 0:
		tenant = nondetString("tenant", 1)
	case 1:
		user = nondetInt("user")
	default:
		part = nondetString("part", 1)
	}
	verifAssume(noSlash(tenant) && noSlash(part))
	var got *memberships.ShowPayload
	eps := &memberships.Endpoints{Show: func(ctx context.Context, v any) (any, error) {
		got = v.(*memberships.ShowPayload)
		return nil, nil
	}}
	mux := goahttp.NewMuxer()
	mems.Mount(mux, mems.New(eps, mux, func(*http.Request) goahttp.Decoder { return stubDecoder{func(any) error { return nil }} }, recEncoder(), nil, nil))
	var path string
	if nondetBool("second-base-path") {
		path = memc.ShowMembershipsPath2(user, tenant, part)
		verifAssert("base-paths:second-constructor-shape", strings.HasPrefix(path, "/users/"))
	} else {
		path = memc.ShowMembershipsPath(tenant, user, part)
		verifAssert("base-paths:first-constructor-shape", strings.HasPrefix(path, "/tenants/"))
	}
	w := serveTarget(mux, "GET", (&url.URL{Path: path}).RequestURI())
	verifAssert("base-paths:routed-to-the-method", got != nil && w.status != http.StatusNotFound)
	if got != nil {
		verifAssert("base-paths:values-in-their-attributes", got.Tenant == tenant && got.User == user && got.Part == part)
	}
}

// VerifC02_a4_routes: absolute route with a trailing slash and relative route
// under the service base path: the designed URL reaches the method.
func VerifC02_a4_routes() {
	var gotYear *archive.YearPayload
	var gotRel *archive.RelPayload
	eps := &archive.Endpoints{
		Year: func(ctx context.Context, v any) (any, error) { gotYear = v.(*archive.YearPayload); return nil, nil },
		Rel:  func(ctx context.Context, v any) (any, error) { gotRel = v.(*archive.RelPayload); return nil, nil },
	}
	mux := goahttp.NewMuxer()
	archs.Mount(mux, archs.New(eps, mux, func(*http.Request) goahttp.Decoder { return stubDecoder{func(any) error { return nil }} }, recEncoder(), nil, nil))
	c := archc.NewClient("http", "example.com", nil, nil, nil, false)
	if nondetBool("absolute-route") {
		year := nondetInt("year")
		// the URL the design documents
		w := serveTarget(mux, "GET", "/archive/"+itoa(year)+"/")
		verifAssert("routes:designed-absolute-url-reaches-method", gotYear != nil && gotYear.Year == year && w.status != http.StatusNotFound)
		gotYear = nil
		req, err := c.BuildYearRequest(context.Background(), &archive.YearPayload{Year: year})
		verifAssert("routes:absolute-request-built", err == nil)
		if err == nil {
			serveTarget(mux, "GET", req.URL.RequestURI())
			verifAssert("routes:client-url-reaches-method", gotYear != nil && gotYear.Year == year)
		}
		return
	}
	id := nondetString("id", 1)
	verifAssume(noSlash(id))
	req, err := c.BuildRelRequest(context.Background(), &archive.RelPayload{ID: id})
	verifAssert("routes:relative-request-built", err == nil)
	if err == nil {
		verifAssert("routes:relative-under-base-path", strings.HasPrefix(req.URL.Path, "/base/rel/") && strings.HasSuffix(req.URL.Path, "/"))
		serveTarget(mux, "GET", req.URL.RequestURI())
		verifAssert("routes:relative-url-reaches-method", gotRel != nil && gotRel.ID == id)
	}
}
