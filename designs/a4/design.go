package design

import . "goa.design/goa/v3/dsl"

var _ = API("a4", func() {})

// two base paths that use the same wildcards (of different types) in a different order
var _ = Service("memberships", func() {
	HTTP(func() {
		Path("/tenants/{tenant}/users/{user}")
		Path("/users/{user}/tenants/{tenant}")
	})
	Method("show", func() {
		Payload(func() {
			Attribute("tenant", String)
			Attribute("user", Int)
			Attribute("part", String)
			Required("tenant", "user", "part")
		})
		HTTP(func() { GET("/profile/{part}") })
	})
})

// absolute routes (opt out of the base path), trailing slash, API-less service path
var _ = Service("archive", func() {
	HTTP(func() { Path("/base") })
	Method("year", func() {
		Payload(func() {
			Attribute("year", Int)
			Required("year")
		})
		HTTP(func() { GET("//archive/{year}/") })
	})
	Method("rel", func() {
		Payload(func() {
			Attribute("id", String)
			Required("id")
		})
		HTTP(func() { GET("/rel/{id}/") })
	})
})
