package design

import . "goa.design/goa/v3/dsl"

var _ = API("c2", func() {})

// tagged responses on an optional attribute that has a default value
var _ = Service("svc", func() {
	Method("tagged", func() {
		Result(func() {
			Attribute("status", String, func() { Default("ok") })
			Attribute("n", Int)
		})
		HTTP(func() {
			GET("/tagged")
			Response(StatusOK)
			Response(StatusAccepted, func() { Tag("status", "later") })
		})
	})
})
