package design

import . "goa.design/goa/v3/dsl"

var _ = API("v3", func() {})

var Inner = Type("Inner", func() {
	Attribute("n", Int, func() { Minimum(0) })
	Attribute("t", String, func() { MaxLength(2) })
	Required("n")
})

var Labels = Type("Labels", func() {
	Attribute("tags", MapOf(String, String), func() {
		Key(func() { Pattern("^[a-z]+$") })
	})
})

var _ = Service("svc", func() {
	Method("colls", func() {
		Payload(func() {
			Attribute("arr", ArrayOf(Int, func() { Minimum(1) }), func() {
				MinLength(1)
				MaxLength(2)
			})
			Attribute("m", MapOf(String, Int), func() {
				Key(func() { MinLength(2) })
				Elem(func() { Maximum(9) })
				MaxLength(1)
			})
			Attribute("inner", Inner)
			Attribute("items", ArrayOf(Inner))
			Attribute("labels", Labels)
			Attribute("qs", ArrayOf(Int), func() { MinLength(2) })
			Required("inner")
		})
		HTTP(func() {
			POST("/colls")
			Param("qs")
		})
	})
})
