//go:build verif

package vh

import (
	"context"
	"net/http"
	"net/url"
	"regexp"
	"unicode/utf8"

	goahttp "goa.design/goa/v3/http"
	server "vdesign/gen/http/svc/server"
	svc "vdesign/gen/svc"
)

var verifKeyPat = regexp.MustCompile("^[a-z]+$")

// C04 on design v3, method colls (arrays, maps, nested user types, query
// array). One attribute group is varied at a time, the others are absent or
// valid (the combinations are the product of independent checks).
func VerifC04_v3_colls() {
	body := &server.CollsRequestBody{}
	rules := map[string]bool{}
	optionalMinLenAbsent := false
	// the two attributes with a minimum length are normally present and valid
	arrAbsent, qsAbsent := false, false
	body.Arr = []int{1}
	qsRaw := []string{"1", "2"}
	zero := 0
	body.Inner = &server.InnerRequestBody{N: &zero}

	switch nondetChoice("focus", 7) {
	case 0: // arr: absent, or 0..3 elements
		if nondetBool("arr-absent") {
			body.Arr, arrAbsent = nil, true
		} else {
			n := nondetChoice("arr-len", 3) + 1 // an empty array is the same JSON document as an absent one (omitempty)
			body.Arr = make([]int, n)
			for i := range body.Arr {
				body.Arr[i] = nondetInt("arr-elem")
				if body.Arr[i] < 1 {
					rules["invalid_range"] = true
				}
			}
			if n < 1 || n > 2 {
				rules["invalid_length"] = true
			}
		}
	case 1: // m: 0..2 entries
		n := nondetChoice("m-len", 3)
		body.M = map[string]int{}
		var k0 string
		for i := 0; i < n; i++ {
			k := nondetStringUpTo("m-key", deep(3))
			verifAssume(utf8.ValidString(k))
			if i == 0 {
				k0 = k
			} else {
				verifAssume(k != k0)
			}
			v := nondetInt("m-val")
			body.M[k] = v
			if utf8.RuneCountInString(k) < 2 {
				rules["invalid_length"] = true
			}
			if v > 9 {
				rules["invalid_range"] = true
			}
		}
		if n > 1 {
			rules["invalid_length"] = true
		}
	case 2: // inner (required)
		if nondetBool("inner-absent") {
			body.Inner = nil
			rules["missing_field"] = true
		} else {
			body.Inner = verifInner("inner", rules)
		}
	case 3: // items: 0..2 elements (JSON null elements: see VerifC04_v3_colls_null_item)
		n := nondetChoice("items-len", 3)
		body.Items = make([]*server.InnerRequestBody, n)
		for i := range body.Items {
			body.Items[i] = verifInner("item", rules)
		}
	case 4: // labels.tags: map key pattern inside a nested user type
		body.Labels = &server.LabelsRequestBody{}
		if nondetBool("tags-present") {
			k := nondetStringUpTo("tag-key", deep(2))
			body.Labels.Tags = map[string]string{k: "v"}
			if !verifKeyPat.MatchString(k) {
				rules["invalid_pattern"] = true
			}
		}
	case 5: // qs: query array, absent or 1..3 values
		if nondetBool("qs-absent") {
			qsRaw, qsAbsent = nil, true
		} else {
			n := nondetChoice("qs-len", 3) + 1
			qsRaw = make([]string, n)
			for i := range qsRaw {
				w := newWireInt("qs-elem", false)
				qsRaw[i] = w.raw
				if w.kind == wJunk {
					rules["invalid_field_type"] = true
				}
			}
			if n < 2 {
				rules["invalid_length"] = true
			}
		}
	case 6: // everything at its default
	}
	if arrAbsent || qsAbsent {
		optionalMinLenAbsent = true
	}
	query := url.Values{}
	if qsRaw != nil {
		query["qs"] = qsRaw
	}
	req := newRequest("POST", query)
	decoder := func(*http.Request) goahttp.Decoder {
		return stubDecoder{func(v any) error {
			*(v.(*server.CollsRequestBody)) = *body
			return nil
		}}
	}
	called := 0
	var got *svc.CollsPayload
	endpoint := func(ctx context.Context, p any) (any, error) {
		called++
		got = p.(*svc.CollsPayload)
		return nil, nil
	}
	w := newRecWriter()
	server.NewCollsHandler(endpoint, &stubMux{}, decoder, recEncoder(), nil, nil).ServeHTTP(w, req)
	valid := len(rules) == 0
	ran := called == 1
	if optionalMinLenAbsent && valid {
		verifAssert("endpoint-runs-iff-request-valid[optional-collection-with-min-length-absent]", ran)
	} else {
		verifAssert("endpoint-runs-iff-request-valid", ran == valid)
	}
	if !ran {
		verifAssert("rejected:exactly-one-400", w.nHeaders == 1 && w.status == http.StatusBadRequest)
		if !valid {
			verifAssert("rejected:names-a-violated-rule", rules[errorName(w)])
		}
	} else {
		verifAssert("accepted:arr", len(got.Arr) == len(body.Arr))
		verifAssert("accepted:inner", got.Inner != nil && got.Inner.N == *body.Inner.N)
		verifAssert("accepted:items", len(got.Items) == len(body.Items))
		verifAssert("accepted:qs", len(got.Qs) == len(qsRaw))
	}
	// ---- C14
	parts := map[string]any{"body": body}
	junkQs := false
	if qsRaw != nil {
		var qv []any
		for _, t := range qsRaw {
			if t == "1x" {
				qv = append(qv, t)
				junkQs = true
			} else {
				qv = append(qv, int64(1)) // any integer text: the schema only types the items
			}
		}
		parts["query:qs"] = qv
	}
	_ = junkQs
	specOK := verifSchemaAccepts(openapiDoc, "POST /colls", parts)
	mapKeyRule := false
	for k := range body.M {
		if utf8.RuneCountInString(k) < 2 {
			mapKeyRule = true
		}
	}
	if body.Labels != nil {
		for k := range body.Labels.Tags {
			if !verifKeyPat.MatchString(k) {
				mapKeyRule = true
			}
		}
	}
	switch {
	case optionalMinLenAbsent:
		verifAssert("openapi:schema-accepts-iff-server-accepts[optional-collection-with-min-length-absent]", specOK == ran)
	case mapKeyRule:
		verifAssert("openapi:schema-accepts-iff-server-accepts[map-key-validation-not-in-schema]", specOK == ran)
	case len(body.M) > 1:
		verifAssert("openapi:schema-accepts-iff-server-accepts[map-length-as-maxLength]", specOK == ran)
	default:
		verifAssert("openapi:schema-accepts-iff-server-accepts", specOK == ran)
	}
}

func verifInner(id string, rules map[string]bool) *server.InnerRequestBody {
	in := &server.InnerRequestBody{}
	if nondetBool(id + "-n-present") {
		n := nondetInt(id + "-n")
		in.N = &n
		if n < 0 {
			rules["invalid_range"] = true
		}
	} else {
		rules["missing_field"] = true
	}
	if nondetBool(id + "-t-present") {
		t := nondetStringUpTo(id+"-t", 3)
		verifAssume(utf8.ValidString(t))
		in.T = &t
		if utf8.RuneCountInString(t) > 2 {
			rules["invalid_length"] = true
		}
	}
	return in
}

// A JSON null inside an array of user types ({"items":[null]}) is a malformed
// request: it must be answered, not crash the handler.
func VerifC04_v3_colls_null_item() {
	zero := 0
	body := &server.CollsRequestBody{Arr: []int{1}, Inner: &server.InnerRequestBody{N: &zero}, Items: []*server.InnerRequestBody{nil}}
	query := url.Values{"qs": {"1", "2"}}
	req := newRequest("POST", query)
	decoder := func(*http.Request) goahttp.Decoder {
		return stubDecoder{func(v any) error {
			*(v.(*server.CollsRequestBody)) = *body
			return nil
		}}
	}
	called := 0
	endpoint := func(ctx context.Context, p any) (any, error) {
		called++
		return nil, nil
	}
	w := newRecWriter()
	server.NewCollsHandler(endpoint, &stubMux{}, decoder, recEncoder(), nil, nil).ServeHTTP(w, req)
	verifAssert("null-item:answered", w.nHeaders == 1)
}
