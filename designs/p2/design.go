package design

import . "goa.design/goa/v3/dsl"

var _ = API("p2", func() {})

var NameT = Type("Name", String)
var CountT = Type("Count", Int32)

var _ = Service("svc", func() {
	Method("pick", func() {
		Payload(func() {
			Field(1, "id", String)
			OneOf("val", func() {
				Field(2, "name", NameT)
				Field(3, "count", CountT)
				Field(4, "raw", String)
			})
			Required("id")
		})
		GRPC(func() {})
	})
})
