package design

import . "goa.design/goa/v3/dsl"

var _ = API("c3", func() {})

// a query parameter named like the request variable of the generated decoder
var _ = Service("svc", func() {
	Method("m", func() {
		Payload(func() {
			Attribute("r", Float64)
		})
		HTTP(func() {
			GET("/m")
			Param("r")
		})
	})
})
