//go:build verif

package vh

import (
	"context"
	"io"
	"net/http"
	"strings"

	goahttp "goa.design/goa/v3/http"
	client "vdesign/gen/http/svc/client"
	server "vdesign/gen/http/svc/server"
	svc "vdesign/gen/svc"
)

type viewSvc3 struct {
	res   *svc.Doc
	view  string
	board *svc.Board
	pair  *svc.Pair
}

func (s *viewSvc3) Dyn(context.Context) (*svc.Doc, string, error) { return s.res, s.view, nil }
func (s *viewSvc3) Fix(context.Context) (*svc.Doc, error)         { return s.res, nil }
func (s *viewSvc3) Showboard(context.Context) (*svc.Board, error)  { return s.board, nil }
func (s *viewSvc3) Showpair(context.Context) (*svc.Pair, error)    { return s.pair, nil }

// VerifC08_w3_dyn: a view that leaves out the attribute a tagged response is
// selected by, and that renders a nested result type without choosing a view
// for it (the nested type also has a view of the same name).
func VerifC08_w3_dyn() {
	states := []string{"open", "pending"}
	want := &svc.Doc{ID: nondetInt("id"), Code: "c", State: states[nondetChoice("state", 2)]}
	if nondetBool("owner-set") {
		want.Owner = &svc.Owner{ID: nondetInt("owner-id"), Name: nondetStringUpTo("owner-name", deep(1))}
	}
	view := "default"
	if nondetBool("tiny") {
		view = "tiny"
	}
	eps := svc.NewEndpoints(&viewSvc3{res: want, view: view})
	srv := server.New(eps, &stubMux{}, func(*http.Request) goahttp.Decoder { return stubDecoder{func(any) error { return nil }} }, recEncoder(), nil, nil)
	w := newRecWriter()
	srv.Dyn.ServeHTTP(w, newRequest("GET", nil))
	verifAssert("w3:one-response", w.nHeaders == 1 && len(w.encoded) == 1)
	if len(w.encoded) != 1 {
		return
	}
	verifAssert("w3:view-header", w.h.Get("goa-view") == view)
	// the tag attribute is not part of the tiny view: the tagged response can
	// only be selected under the default view
	if view == "default" && want.State == "pending" {
		verifAssert("w3:tagged-response-under-default-view", w.status == http.StatusAccepted)
	} else {
		verifAssert("w3:untagged-response", w.status == http.StatusOK)
	}
	var doc struct {
		ID    *int    `json:"id"`
		Code  *string `json:"code"`
		State *string `json:"state"`
		Owner *struct {
			ID   *int    `json:"id"`
			Name *string `json:"name"`
		} `json:"owner"`
	}
	verifAssert("w3:wire-document", verifJSONCopy(&doc, w.encoded[0]) == nil)
	verifAssert("w3:wire:id", doc.ID != nil && *doc.ID == want.ID)
	if view == "tiny" {
		verifAssert("w3:wire:out-of-view-attributes-absent", doc.Code == nil && doc.State == nil)
	} else {
		verifAssert("w3:wire:in-view-attributes", doc.Code != nil && *doc.Code == want.Code && doc.State != nil && *doc.State == want.State)
	}
	verifAssert("w3:wire:owner-presence", (doc.Owner != nil) == (want.Owner != nil))
	if doc.Owner != nil && want.Owner != nil {
		// no view chosen for the nested attribute: its default view, under both parent views
		verifAssert("w3:wire:nested-default-view", doc.Owner.ID != nil && *doc.Owner.ID == want.Owner.ID && doc.Owner.Name != nil && *doc.Owner.Name == want.Owner.Name)
	}
	conforms := verifSchemaAccepts(openapiDoc, "GET /dyn", map[string]any{"response:" + itoa(w.status): w.encoded[0]})
	if view == "tiny" {
		verifAssert("openapi:response-conforms[run-time-view-other-than-default]", conforms)
	} else {
		verifAssert("openapi:response-conforms", conforms)
	}
	resp := &http.Response{StatusCode: w.status, Header: w.h, Body: io.NopCloser(strings.NewReader(""))}
	out, err := client.DecodeDynResponse(func(*http.Response) goahttp.Decoder {
		return stubDecoder{func(v any) error { return verifJSONCopy(v, w.encoded[0]) }}
	}, false)(resp)
	verifAssert("w3:client-accepts", err == nil)
	if err != nil {
		return
	}
	r, ok := out.(*svc.Doc)
	verifAssert("w3:client-result", ok && r != nil && r.ID == want.ID && (r.Owner == nil) == (want.Owner == nil))
	if ok && r != nil {
		if view == "default" {
			verifAssert("w3:client:in-view", r.Code == want.Code && r.State == want.State)
		}
		if r.Owner != nil && want.Owner != nil {
			verifAssert("w3:client:nested", r.Owner.ID == want.Owner.ID && r.Owner.Name == want.Owner.Name)
		}
	}
}

// VerifC08_w3_fix_client_validates: the client of a method whose view is fixed
// in the design validates the response under that view like any other.
func VerifC08_w3_fix_client_validates() {
	var doc struct {
		ID   *int    `json:"id,omitempty"`
		Code *string `json:"code,omitempty"`
	}
	if nondetBool("id-present") {
		v := nondetInt("id")
		doc.ID = &v
	}
	if nondetBool("code-present") {
		c := nondetString("code", 1)
		verifAssume(c[0] < 0x80)
		doc.Code = &c
	}
	valid := doc.ID != nil && doc.Code != nil && (*doc.Code)[0] >= 'a' && (*doc.Code)[0] <= 'z'
	resp := &http.Response{StatusCode: 200, Header: http.Header{}, Body: io.NopCloser(strings.NewReader(""))}
	out, err := client.DecodeFixResponse(func(*http.Response) goahttp.Decoder {
		return stubDecoder{func(v any) error { return verifJSONCopy(v, &doc) }}
	}, false)(resp)
	verifAssert("w3fix:client-accepts-iff-response-valid-under-the-view", (err == nil) == valid)
	if err == nil {
		r, ok := out.(*svc.Doc)
		verifAssert("w3fix:result", ok && r != nil && (!valid || (r.ID == *doc.ID && r.Code == *doc.Code && r.State == "open")))
	}
}

// VerifC08_w3_nested_arrays: a result type below two array levels is rendered
// with its default view (the hidden attribute never reaches the wire or the client).
func VerifC08_w3_nested_arrays() {
	secret := nondetStringUpTo("secret", 1)
	cell := &svc.Cell{V: nondetInt("v"), Secret: &secret}
	want := &svc.Board{Name: "b", Grid: [][]*svc.Cell{{cell}}}
	eps := svc.NewEndpoints(&viewSvc3{board: want})
	srv := server.New(eps, &stubMux{}, func(*http.Request) goahttp.Decoder { return stubDecoder{func(any) error { return nil }} }, recEncoder(), nil, nil)
	w := newRecWriter()
	srv.Showboard.ServeHTTP(w, newRequest("GET", nil))
	verifAssert("nested-arrays:one-response", w.nHeaders == 1 && w.status == http.StatusOK && len(w.encoded) == 1)
	if len(w.encoded) != 1 {
		return
	}
	var doc struct {
		Name *string `json:"name"`
		Grid [][]*struct {
			V      *int    `json:"v"`
			Secret *string `json:"secret"`
		} `json:"grid"`
	}
	verifAssert("nested-arrays:wire-document", verifJSONCopy(&doc, w.encoded[0]) == nil)
	verifAssert("nested-arrays:shape", len(doc.Grid) == 1 && len(doc.Grid[0]) == 1 && doc.Grid[0][0] != nil)
	if len(doc.Grid) == 1 && len(doc.Grid[0]) == 1 && doc.Grid[0][0] != nil {
		verifAssert("nested-arrays:in-view-attribute", doc.Grid[0][0].V != nil && *doc.Grid[0][0].V == cell.V)
		verifAssert("nested-arrays:out-of-view-attribute-absent", doc.Grid[0][0].Secret == nil)
	}
	verifAssert("openapi:response-conforms", verifSchemaAccepts(openapiDoc, "GET /board", map[string]any{"response:200": w.encoded[0]}))
	resp := &http.Response{StatusCode: w.status, Header: w.h, Body: io.NopCloser(strings.NewReader(""))}
	out, err := client.DecodeShowboardResponse(func(*http.Response) goahttp.Decoder {
		return stubDecoder{func(v any) error { return verifJSONCopy(v, w.encoded[0]) }}
	}, false)(resp)
	verifAssert("nested-arrays:client-accepts", err == nil)
	r, ok := out.(*svc.Board)
	verifAssert("nested-arrays:client-result", ok && r != nil && len(r.Grid) == 1 && len(r.Grid[0]) == 1 && r.Grid[0][0] != nil && r.Grid[0][0].V == cell.V && r.Grid[0][0].Secret == nil)
}

// VerifC08_w3_lookalike_types: two result types with the same attributes but
// different default views nested in one parent: each is rendered with its own view.
func VerifC08_w3_lookalike_types() {
	want := &svc.Pair{
		Summary: &svc.Summary{ID: nondetInt("sid"), Title: nondetStringUpTo("stitle", 1)},
		Detail:  &svc.Detail{ID: nondetInt("did"), Title: nondetStringUpTo("dtitle", 1)},
	}
	eps := svc.NewEndpoints(&viewSvc3{pair: want})
	srv := server.New(eps, &stubMux{}, func(*http.Request) goahttp.Decoder { return stubDecoder{func(any) error { return nil }} }, recEncoder(), nil, nil)
	w := newRecWriter()
	srv.Showpair.ServeHTTP(w, newRequest("GET", nil))
	verifAssert("lookalike:one-response", w.nHeaders == 1 && w.status == http.StatusOK && len(w.encoded) == 1)
	if len(w.encoded) != 1 {
		return
	}
	var doc struct {
		Summary *struct {
			ID    *int    `json:"id"`
			Title *string `json:"title"`
		} `json:"summary"`
		Detail *struct {
			ID    *int    `json:"id"`
			Title *string `json:"title"`
		} `json:"detail"`
	}
	verifAssert("lookalike:wire-document", verifJSONCopy(&doc, w.encoded[0]) == nil && doc.Summary != nil && doc.Detail != nil)
	if doc.Summary == nil || doc.Detail == nil {
		return
	}
	verifAssert("lookalike:narrow-view-for-the-first", doc.Summary.ID != nil && *doc.Summary.ID == want.Summary.ID && doc.Summary.Title == nil)
	verifAssert("lookalike:wide-view-for-the-second", doc.Detail.ID != nil && *doc.Detail.ID == want.Detail.ID && doc.Detail.Title != nil && *doc.Detail.Title == want.Detail.Title)
	// known: nested result types are documented with all their attributes; Summary's
	// only view omits the required attribute title
	verifAssert("openapi:response-conforms[nested-view-omits-required-attribute]", verifSchemaAccepts(openapiDoc, "GET /pair", map[string]any{"response:200": w.encoded[0]}))
	resp := &http.Response{StatusCode: w.status, Header: w.h, Body: io.NopCloser(strings.NewReader(""))}
	out, err := client.DecodeShowpairResponse(func(*http.Response) goahttp.Decoder {
		return stubDecoder{func(v any) error { return verifJSONCopy(v, w.encoded[0]) }}
	}, false)(resp)
	verifAssert("lookalike:client-accepts", err == nil)
	r, ok := out.(*svc.Pair)
	verifAssert("lookalike:client-result", ok && r != nil && r.Summary != nil && r.Detail != nil && r.Summary.ID == want.Summary.ID && r.Detail.ID == want.Detail.ID && r.Detail.Title == want.Detail.Title)
}
