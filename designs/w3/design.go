package design

import . "goa.design/goa/v3/dsl"

var _ = API("w3", func() {})

var Owner = ResultType("application/vnd.w3.owner", func() {
	TypeName("Owner")
	Attributes(func() {
		Attribute("id", Int)
		Attribute("name", String)
		Required("id", "name")
	})
	View("default", func() {
		Attribute("id")
		Attribute("name")
	})
	View("tiny", func() {
		Attribute("id")
	})
})

// the tiny view leaves out the tag attribute and renders the nested result
// type without choosing a view for it (the nested type has a tiny view too)
var Doc = ResultType("application/vnd.w3.doc", func() {
	TypeName("Doc")
	Attributes(func() {
		Attribute("id", Int)
		Attribute("code", String, func() { Pattern("^[a-z]$") })
		Attribute("state", String, func() { Default("open") })
		Attribute("owner", Owner)
		Required("id", "code")
	})
	View("default", func() {
		Attribute("id")
		Attribute("code")
		Attribute("state")
		Attribute("owner")
	})
	View("tiny", func() {
		Attribute("id")
		Attribute("owner")
	})
})

var _ = Service("svc", func() {
	Method("dyn", func() {
		Result(Doc)
		HTTP(func() {
			GET("/dyn")
			Response(StatusAccepted, func() { Tag("state", "pending") })
			Response(StatusOK)
		})
	})
	Method("fix", func() {
		Result(Doc, func() { View("default") })
		HTTP(func() { GET("/fix") })
	})
})
