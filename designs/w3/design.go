package design

import . "goa.design/goa/v3/dsl"

var _ = API("w3", func() {})

var Owner = ResultType("application/vnd.w3.owner", func() {
	TypeName("Owner")
	Attributes(func() {
		Attribute("id", Int)
		Attribute("name", String)
		Required("id", "name")
	})
	View("default", func() {
		Attribute("id")
		Attribute("name")
	})
	View("tiny", func() {
		Attribute("id")
	})
})

// the tiny view leaves out the tag attribute and renders the nested result
// type without choosing a view for it (the nested type has a tiny view too)
var Doc = ResultType("application/vnd.w3.doc", func() {
	TypeName("Doc")
	Attributes(func() {
		Attribute("id", Int)
		Attribute("code", String, func() { Pattern("^[a-z]$") })
		Attribute("state", String, func() { Default("open") })
		Attribute("owner", Owner)
		Required("id", "code")
	})
	View("default", func() {
		Attribute("id")
		Attribute("code")
		Attribute("state")
		Attribute("owner")
	})
	View("tiny", func() {
		Attribute("id")
		Attribute("owner")
	})
})

// nested result type below two array levels; its default view hides an attribute
var Cell = ResultType("application/vnd.w3.cell", func() {
	TypeName("Cell")
	Attributes(func() {
		Attribute("v", Int)
		Attribute("secret", String)
		Required("v")
	})
	View("default", func() {
		Attribute("v")
	})
	View("all", func() {
		Attribute("v")
		Attribute("secret")
	})
})

var Board = ResultType("application/vnd.w3.board", func() {
	TypeName("Board")
	Attributes(func() {
		Attribute("name", String)
		Attribute("grid", ArrayOf(ArrayOf(Cell)))
		Required("name")
	})
	View("default", func() {
		Attribute("name")
		Attribute("grid")
	})
})

// two result types with the same attributes and different default views,
// nested side by side (the narrower one first)
var Summary = ResultType("application/vnd.w3.summary", func() {
	TypeName("Summary")
	Attributes(func() {
		Attribute("id", Int)
		Attribute("title", String)
		Required("id", "title")
	})
	View("default", func() {
		Attribute("id")
	})
})

var Detail = ResultType("application/vnd.w3.detail", func() {
	TypeName("Detail")
	Attributes(func() {
		Attribute("id", Int)
		Attribute("title", String)
		Required("id", "title")
	})
	View("default", func() {
		Attribute("id")
		Attribute("title")
	})
})

var Pair = ResultType("application/vnd.w3.pair", func() {
	TypeName("Pair")
	Attributes(func() {
		Attribute("summary", Summary)
		Attribute("x", Int)
		Attribute("detail", Detail)
	})
	View("default", func() {
		Attribute("summary")
		Attribute("x")
		Attribute("detail")
	})
})

var _ = Service("svc", func() {
	Method("showboard", func() {
		Result(Board)
		HTTP(func() { GET("/board") })
	})
	Method("showpair", func() {
		Result(Pair)
		HTTP(func() { GET("/pair") })
	})
	Method("dyn", func() {
		Result(Doc)
		HTTP(func() {
			GET("/dyn")
			Response(StatusAccepted, func() { Tag("state", "pending") })
			Response(StatusOK)
		})
	})
	Method("fix", func() {
		Result(Doc, func() { View("default") })
		HTTP(func() { GET("/fix") })
	})
})
