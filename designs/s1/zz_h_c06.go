//go:build verif

package vh

import (
	"context"
	"errors"
	"net/http"
	"net/url"
	"strings"

	goahttp "goa.design/goa/v3/http"
	"goa.design/goa/v3/security"
	client "vdesign/gen/http/svc/client"
	server "vdesign/gen/http/svc/server"
	svc "vdesign/gen/svc"
)

var (
	errBasic = errors.New("basic refused")
	errJWT   = errors.New("jwt refused")
	errKey   = errors.New("api key refused")
)

// recAuther implements the generated Service and Auther interfaces: every
// callback records what it received and answers as the symbolic outcome says.
type recAuther struct {
	basicOK, jwtOK, keyOK          bool
	basicCalls, jwtCalls, keyCalls int
	user, pass, token, key         string
	basicScheme                    *security.BasicScheme
	jwtScheme                      *security.JWTScheme
	keyScheme                      *security.APIKeyScheme
	altRan, inheritRan, openRan    int
}

func (a *recAuther) BasicAuth(ctx context.Context, user, pass string, s *security.BasicScheme) (context.Context, error) {
	a.basicCalls++
	a.user, a.pass, a.basicScheme = user, pass, s
	if !a.basicOK {
		return ctx, errBasic
	}
	return ctx, nil
}
func (a *recAuther) JWTAuth(ctx context.Context, token string, s *security.JWTScheme) (context.Context, error) {
	a.jwtCalls++
	a.token, a.jwtScheme = token, s
	if !a.jwtOK {
		return ctx, errJWT
	}
	return ctx, nil
}
func (a *recAuther) APIKeyAuth(ctx context.Context, key string, s *security.APIKeyScheme) (context.Context, error) {
	a.keyCalls++
	a.key, a.keyScheme = key, s
	if !a.keyOK {
		return ctx, errKey
	}
	return ctx, nil
}
func (a *recAuther) Alt(context.Context, *svc.AltPayload) error         { a.altRan++; return nil }
func (a *recAuther) Inherit(context.Context, *svc.InheritPayload) error { a.inheritRan++; return nil }
func (a *recAuther) Open(context.Context) error                         { a.openRan++; return nil }

func sameStrings(a []string, b ...string) bool {
	if len(a) != len(b) {
		return false
	}
	for i := range a {
		if a[i] != b[i] {
			return false
		}
	}
	return true
}

func optStr(id string) *string {
	if !nondetBool(id + "-set") {
		return nil
	}
	v := nondetStringUpTo(id, 2)
	return &v
}

func deref(p *string) string {
	if p == nil {
		return ""
	}
	return *p
}

// VerifC06_s1_alt: requirements basic OR (jwt AND api_key): every outcome vector.
func VerifC06_s1_alt() {
	a := &recAuther{basicOK: nondetBool("basic-ok"), jwtOK: nondetBool("jwt-ok"), keyOK: nondetBool("key-ok")}
	p := &svc.AltPayload{User: optStr("user"), Pass: optStr("pass"), Token: optStr("token"), Key: optStr("key")}
	eps := svc.NewEndpoints(a)
	_, err := eps.Alt(context.Background(), p)
	satisfied := a.basicOK || (a.jwtOK && a.keyOK)
	verifAssert("method-runs-iff-a-requirement-is-satisfied", (a.altRan == 1) == satisfied)
	verifAssert("method-runs-at-most-once", a.altRan <= 1)
	if satisfied {
		verifAssert("no-error-when-satisfied", err == nil)
	} else {
		verifAssert("refused-with-a-callback-error", err == errBasic || err == errJWT || err == errKey)
	}
	if a.basicCalls > 0 {
		verifAssert("basic-gets-payload-credentials", a.user == deref(p.User) && a.pass == deref(p.Pass))
		verifAssert("basic-scheme", a.basicScheme.Name == "basic" && len(a.basicScheme.RequiredScopes) == 0)
	}
	if a.jwtCalls > 0 {
		verifAssert("jwt-gets-payload-token", a.token == deref(p.Token))
		verifAssert("jwt-scheme-scopes", a.jwtScheme.Name == "jwt" && sameStrings(a.jwtScheme.Scopes, "api:read", "api:write") && sameStrings(a.jwtScheme.RequiredScopes, "api:read"))
	}
	if a.keyCalls > 0 {
		verifAssert("apikey-gets-payload-key", a.key == deref(p.Key))
		verifAssert("apikey-scheme", a.keyScheme.Name == "api_key" && sameStrings(a.keyScheme.RequiredScopes, "api:read"))
	}
	// a satisfied requirement must have had all of its schemes consulted
	if a.altRan == 1 && !a.basicOK {
		verifAssert("second-requirement-fully-checked", a.jwtCalls == 1 && a.keyCalls == 1)
	}
	verifAssert("each-callback-at-most-once", a.basicCalls <= 1 && a.jwtCalls <= 1 && a.keyCalls <= 1)
}

// VerifC06_s1_inherit_open: the service-level requirement applies to a method
// without its own; NoSecurity methods run without any callback.
func VerifC06_s1_inherit_open() {
	a := &recAuther{basicOK: nondetBool("basic-ok"), jwtOK: nondetBool("jwt-ok"), keyOK: nondetBool("key-ok")}
	eps := svc.NewEndpoints(a)
	user, pass := nondetStringUpTo("user", deep(2)), nondetStringUpTo("pass", deep(2))
	_, err := eps.Inherit(context.Background(), &svc.InheritPayload{User: user, Pass: pass})
	verifAssert("inherited-requirement-enforced", (a.inheritRan == 1) == a.basicOK && (err == nil) == a.basicOK)
	verifAssert("inherited-basic-credentials", a.basicCalls == 1 && a.user == user && a.pass == pass)
	verifAssert("inherited-only-basic", a.jwtCalls == 0 && a.keyCalls == 0)
	b := &recAuther{}
	_, err = svc.NewEndpoints(b).Open(context.Background(), nil)
	verifAssert("nosecurity-runs-without-callbacks", b.openRan == 1 && err == nil && b.basicCalls+b.jwtCalls+b.keyCalls == 0)
}

// VerifC06_s1_alt_http: credentials put on the wire by the generated client
// are the ones the callbacks receive behind the generated server.
func VerifC06_s1_alt_http() {
	a := &recAuther{basicOK: false, jwtOK: true, keyOK: true}
	p := &svc.AltPayload{}
	user, pass := nondetStringUpTo("user", deep(2)), nondetStringUpTo("pass", deep(2))
	verifAssume(!strings.Contains(user, ":"))
	p.User, p.Pass = &user, &pass
	token := nondetString("token", 1) + nondetStringUpTo("token-tail", deep(3))
	if nondetBool("token-with-two-blanks") {
		token = nondetString("t1", 1) + " " + nondetString("t2", 1) + " " + nondetString("t3", 1)
	}
	verifAssume(visible(strings.ReplaceAll(token, " ", "x")) && token[0] != ' ' && token[len(token)-1] != ' ')
	p.Token = &token
	key := nondetString("key", 2)
	p.Key = &key
	c := client.NewClient("http", "example.com", nil, nil, nil, false)
	req, err := c.BuildAltRequest(context.Background(), p)
	verifAssert("http:request-built", err == nil)
	if err != nil {
		return
	}
	err = client.EncodeAltRequest(func(*http.Request) goahttp.Encoder { return stubEncoder{func(any) error { return nil }} })(req, p)
	verifAssert("http:request-encoded", err == nil)
	target := req.URL.RequestURI()
	u, _ := url.ParseRequestURI(target)
	sreq := &http.Request{Method: req.Method, URL: u, Header: req.Header.Clone(), RequestURI: target}
	mux := goahttp.NewMuxer()
	srv := server.New(svc.NewEndpoints(a), mux, func(*http.Request) goahttp.Decoder { return stubDecoder{func(any) error { return nil }} }, recEncoder(), nil, nil)
	server.Mount(mux, srv)
	w := newRecWriter()
	mux.ServeHTTP(w, sreq)
	verifAssert("http:basic-credentials-delivered", a.basicCalls == 1 && a.user == user && a.pass == pass)
	if i := strings.Index(token, " "); i >= 0 {
		// what the server is documented to do: drop one scheme prefix, keep the rest
		verifAssert("http:only-the-scheme-prefix-is-stripped", a.jwtCalls == 1 && a.token == token[i+1:])
		verifAssert("http:token-delivered[token-containing-blank]", a.jwtCalls == 1 && a.token == token)
	} else {
		verifAssert("http:token-delivered", a.jwtCalls == 1 && a.token == token)
	}
	verifAssert("http:key-delivered", a.keyCalls == 1 && a.key == key)
	verifAssert("http:method-ran", a.altRan == 1)
}
