package design

import . "goa.design/goa/v3/dsl"

var _ = API("s1", func() {})

var BasicAuth = BasicAuthSecurity("basic")
var JWTAuth = JWTSecurity("jwt", func() {
	Scope("api:read", "read")
	Scope("api:write", "write")
})
var KeyAuth = APIKeySecurity("api_key")

var _ = Service("svc", func() {
	Security(BasicAuth)
	Method("alt", func() {
		Security(BasicAuth)
		Security(JWTAuth, KeyAuth, func() { Scope("api:read") })
		Payload(func() {
			Username("user", String)
			Password("pass", String)
			Token("token", String)
			APIKey("api_key", "key", String)
		})
		HTTP(func() {
			POST("/alt")
			Header("token:X-Authorization")
			Param("key")
		})
	})
	Method("inherit", func() {
		Payload(func() {
			Username("user", String)
			Password("pass", String)
			Required("user", "pass")
		})
		HTTP(func() { POST("/inherit") })
	})
	Method("open", func() {
		NoSecurity()
		HTTP(func() { POST("/open") })
	})
})
