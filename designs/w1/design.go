package design

import . "goa.design/goa/v3/dsl"

var _ = API("w1", func() {})

var Inner = ResultType("application/vnd.inner", func() {
	TypeName("Inner")
	Attributes(func() {
		Attribute("c", String)
		Attribute("d", Int)
		Attribute("e", String)
		Required("c", "d")
	})
	View("default", func() {
		Attribute("c")
		Attribute("d")
	})
	View("tiny", func() {
		Attribute("d")
	})
})

var Outer = ResultType("application/vnd.outer", func() {
	TypeName("Outer")
	Attributes(func() {
		Attribute("a", String)
		Attribute("b", Inner)
		Attribute("x", Int)
		Required("a")
	})
	View("default", func() {
		Attribute("a")
		Attribute("b")
		Attribute("x")
	})
	View("tiny", func() {
		Attribute("a")
		Attribute("b", func() { View("tiny") })
	})
})

var _ = Service("svc", func() {
	Method("get", func() {
		Result(Outer)
		HTTP(func() { GET("/get") })
	})
	Method("list", func() {
		Result(CollectionOf(Outer))
		HTTP(func() { GET("/list") })
	})
	Method("fixed", func() {
		Result(Outer, func() { View("tiny") })
		HTTP(func() { GET("/fixed") })
	})
})
