//go:build verif

package vh

import (
	"context"
	"io"
	"net/http"
	"strings"

	goahttp "goa.design/goa/v3/http"
	client "vdesign/gen/http/svc/client"
	server "vdesign/gen/http/svc/server"
	svc "vdesign/gen/svc"
)

type viewSvc struct {
	res  *svc.Outer
	view string
}

func (s *viewSvc) Get(context.Context) (*svc.Outer, string, error) { return s.res, s.view, nil }
func (s *viewSvc) List(context.Context) (svc.OuterCollection, string, error) {
	return svc.OuterCollection{s.res}, s.view, nil
}
func (s *viewSvc) Fixed(context.Context) (*svc.Outer, error) { return s.res, nil }

func symOuter() *svc.Outer {
	o := &svc.Outer{A: nondetStringUpTo("a", deep(2))}
	if nondetBool("b-set") {
		o.B = &svc.Inner{C: nondetStringUpTo("c", deep(1)), D: nondetInt("d")}
		if nondetBool("e-set") {
			e := nondetStringUpTo("e", deep(1))
			o.B.E = &e
		}
	}
	if nondetBool("x-set") {
		x := nondetInt("x")
		o.X = &x
	}
	return o
}

// serveView runs the generated endpoint + server for one method and returns the recorder.
func serveView(s *viewSvc, method string) *recWriter {
	eps := svc.NewEndpoints(s)
	srv := server.New(eps, &stubMux{}, func(*http.Request) goahttp.Decoder { return stubDecoder{func(any) error { return nil }} }, recEncoder(), nil, nil)
	w := newRecWriter()
	switch method {
	case "get":
		srv.Get.ServeHTTP(w, newRequest("GET", nil))
	case "list":
		srv.List.ServeHTTP(w, newRequest("GET", nil))
	default:
		srv.Fixed.ServeHTTP(w, newRequest("GET", nil))
	}
	return w
}

func checkOuterUnderView(tag string, r *svc.Outer, want *svc.Outer, tiny bool) {
	verifAssert(tag+"in-view:a", r.A == want.A)
	verifAssert(tag+"in-view:b-presence", (r.B == nil) == (want.B == nil))
	if r.B != nil && want.B != nil {
		verifAssert(tag+"in-view:b.d", r.B.D == want.B.D)
		if tiny {
			verifAssert(tag+"out-of-view:b.c-unset", r.B.C == "")
		} else {
			verifAssert(tag+"in-view:b.c", r.B.C == want.B.C)
		}
		verifAssert(tag+"out-of-view:b.e-unset", r.B.E == nil)
	}
	if tiny {
		verifAssert(tag+"out-of-view:x-unset", r.X == nil)
	} else {
		verifAssert(tag+"in-view:x", (r.X == nil) == (want.X == nil) && (r.X == nil || *r.X == *want.X))
	}
}

// VerifC08_w1_get: the service picks the view; wire and client see exactly that view.
func VerifC08_w1_get() {
	want := symOuter()
	views := []string{"default", "tiny", ""}
	view := views[nondetChoice("view", len(views))]
	tiny := view == "tiny"
	w := serveView(&viewSvc{res: want, view: view}, "get")
	verifAssert("one-response", w.nHeaders == 1 && w.status == http.StatusOK && len(w.encoded) == 1)
	if len(w.encoded) != 1 {
		return
	}
	conforms := verifSchemaAccepts(openapiDoc, "GET /get", map[string]any{"response:200": w.encoded[0]})
	if tiny {
		// known: a method whose view is chosen at run time is documented with the default view only
		verifAssert("openapi:response-conforms[run-time-view-other-than-default]", conforms)
	} else {
		verifAssert("openapi:response-conforms", conforms)
	}
	label := w.h.Get("goa-view")
	verifAssert("view-name-accompanies-response", label == view || (view == "" && label == "default"))
	// ---- keys on the wire
	switch b := w.encoded[0].(type) {
	case *server.GetResponseBody:
		verifAssert("wire:default-body-for-default-view", !tiny)
		verifAssert("wire:a", b.A == want.A)
		verifAssert("wire:b-presence", (b.B == nil) == (want.B == nil))
		if b.B != nil && want.B != nil {
			// the server body type of the nested attribute has no member for e:
			// it is not part of Inner's default view
			verifAssert("wire:b.c-b.d", b.B.C == want.B.C && b.B.D == want.B.D)
		}
		verifAssert("wire:x", (b.X == nil) == (want.X == nil))
	case *server.GetResponseBodyTiny:
		verifAssert("wire:tiny-body-for-tiny-view", tiny)
		verifAssert("wire:tiny:a", b.A == want.A)
		verifAssert("wire:tiny:b-presence", (b.B == nil) == (want.B == nil))
		if b.B != nil && want.B != nil {
			verifAssert("wire:tiny:b.d", b.B.D == want.B.D)
		}
	default:
		verifAssert("wire:known-body-type", false)
	}
	// ---- client under the same view label
	resp := &http.Response{StatusCode: w.status, Header: w.h, Body: io.NopCloser(strings.NewReader(""))}
	decode := client.DecodeGetResponse(func(*http.Response) goahttp.Decoder {
		return stubDecoder{func(v any) error { return verifJSONCopy(v, w.encoded[0]) }}
	}, false)
	out, err := decode(resp)
	verifAssert("client-accepts-defined-view", err == nil)
	if err != nil {
		return
	}
	r, ok := out.(*svc.Outer)
	verifAssert("client-result-type", ok && r != nil)
	if ok && r != nil {
		checkOuterUnderView("client:", r, want, tiny)
	}
	verifReach("get-done")
}

// VerifC08_w1_undefined_view: a response labelled with a view the type does
// not define is refused by the client.
func VerifC08_w1_undefined_view() {
	label := nondetStringUpTo("label", deep(7))
	verifAssume(visible(label))
	verifAssume(label != "default" && label != "tiny" && label != "")
	a := "a"
	body := &server.GetResponseBody{A: a}
	hdr := http.Header{}
	hdr.Set("goa-view", label)
	resp := &http.Response{StatusCode: 200, Header: hdr, Body: io.NopCloser(strings.NewReader(""))}
	decode := client.DecodeGetResponse(func(*http.Response) goahttp.Decoder {
		return stubDecoder{func(v any) error { return verifJSONCopy(v, body) }}
	}, false)
	out, err := decode(resp)
	verifAssert("client-refuses-undefined-view", err != nil && out == nil)
}

// VerifC08_w1_list_fixed: collections apply the view to every element; a view
// fixed in the design is used whatever the service returns.
func VerifC08_w1_list_fixed() {
	want := symOuter()
	if nondetBool("collection") {
		views := []string{"default", "tiny"}
		view := views[nondetChoice("view", 2)]
		w := serveView(&viewSvc{res: want, view: view}, "list")
		verifAssert("list:one-response", w.nHeaders == 1 && len(w.encoded) == 1 && w.h.Get("goa-view") == view)
		if len(w.encoded) != 1 {
			return
		}
		lconf := verifSchemaAccepts(openapiDoc, "GET /list", map[string]any{"response:200": w.encoded[0]})
		if view == "tiny" {
			verifAssert("openapi:response-conforms[run-time-view-other-than-default]", lconf)
		} else {
			verifAssert("openapi:response-conforms", lconf)
		}
		resp := &http.Response{StatusCode: w.status, Header: w.h, Body: io.NopCloser(strings.NewReader(""))}
		out, err := client.DecodeListResponse(func(*http.Response) goahttp.Decoder {
			return stubDecoder{func(v any) error { return verifJSONCopy(v, w.encoded[0]) }}
		}, false)(resp)
		verifAssert("list:client-accepts", err == nil)
		if err != nil {
			return
		}
		col, ok := out.(svc.OuterCollection)
		verifAssert("list:one-element", ok && len(col) == 1 && col[0] != nil)
		if ok && len(col) == 1 && col[0] != nil {
			checkOuterUnderView("list:", col[0], want, view == "tiny")
		}
		return
	}
	w := serveView(&viewSvc{res: want}, "fixed")
	verifAssert("fixed:one-response", w.nHeaders == 1 && len(w.encoded) == 1)
	if len(w.encoded) != 1 {
		return
	}
	_, isTiny := w.encoded[0].(*server.FixedResponseBodyTiny)
	verifAssert("fixed:design-view-on-the-wire", isTiny)
	verifAssert("openapi:response-conforms", verifSchemaAccepts(openapiDoc, "GET /fixed", map[string]any{"response:200": w.encoded[0]}))
	resp := &http.Response{StatusCode: w.status, Header: w.h, Body: io.NopCloser(strings.NewReader(""))}
	out, err := client.DecodeFixedResponse(func(*http.Response) goahttp.Decoder {
		return stubDecoder{func(v any) error { return verifJSONCopy(v, w.encoded[0]) }}
	}, false)(resp)
	verifAssert("fixed:client-accepts", err == nil)
	if err != nil {
		return
	}
	r, ok := out.(*svc.Outer)
	verifAssert("fixed:result-type", ok && r != nil)
	if ok && r != nil {
		checkOuterUnderView("fixed:", r, want, true)
	}
}
