package design

import . "goa.design/goa/v3/dsl"

var _ = API("c1", func() {})

// nested collections in bodies: map -> array -> map, array of maps, map of maps
var _ = Service("svc", func() {
	Method("nest", func() {
		Payload(func() {
			Attribute("mam", MapOf(String, ArrayOf(MapOf(String, Int))))
			Attribute("am", ArrayOf(MapOf(String, String)))
			Attribute("mm", MapOf(String, MapOf(String, Int)))
		})
		Result(func() {
			Attribute("mam", MapOf(String, ArrayOf(MapOf(String, Int))))
		})
		HTTP(func() { POST("/nest") })
	})
})
