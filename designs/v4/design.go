package design

import . "goa.design/goa/v3/dsl"

var _ = API("v4", func() {})

var _ = Service("svc", func() {
	Method("first", func() {
		Payload(func() {
			Attribute("tags", ArrayOf(String))
			Attribute("ids", ArrayOf(Int))
			Attribute("lim", Int, func() { Default(10) })
			Required("lim")
		})
		HTTP(func() {
			POST("/first")
			Param("lim")
		})
	})
	Method("second", func() {
		Payload(func() {
			Attribute("tags", ArrayOf(String))
			Attribute("ids", ArrayOf(String))
		})
		HTTP(func() { POST("/second") })
	})
})
