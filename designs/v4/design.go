package design

import . "goa.design/goa/v3/dsl"

var _ = API("v4", func() {})

var _ = Service("svc", func() {
	Method("first", func() {
		Payload(func() {
			Attribute("tags", ArrayOf(String))
			Attribute("ids", ArrayOf(Int))
			Attribute("lim", Int, func() { Default(10) })
			Attribute("names", ArrayOf(String), func() { Default([]string{"x"}) })
			Required("lim", "names")
		})
		HTTP(func() {
			POST("/first")
			Param("lim")
			Param("names")
		})
	})
	Method("second", func() {
		Payload(func() {
			Attribute("tags", ArrayOf(String))
			Attribute("ids", ArrayOf(String))
		})
		HTTP(func() { POST("/second") })
	})
	// the body is one attribute that is required and has a default
	Method("third", func() {
		Payload(func() {
			Attribute("items", ArrayOf(String), func() { Default([]string{"d"}) })
			Attribute("q", Int)
			Required("items")
		})
		HTTP(func() {
			POST("/third")
			Param("q")
			Body("items")
		})
	})
})
