//go:build verif

package vh

import (
	"context"
	"io"
	"net/http"
	"net/url"

	goahttp "goa.design/goa/v3/http"
	server "vdesign/gen/http/svc/server"
)

// design v4: two body types with the same member names (tags, ids) whose
// second array differs in element type; a required query parameter that also
// has a default, and a required array-of-string query parameter with a default.
func VerifC04_v4_first() {
	lim := newWireInt("lim", true)
	body := &server.FirstRequestBody{}
	if nondetBool("tags-set") {
		body.Tags = []string{nondetStringUpTo("tag", deep(1))}
	}
	if nondetBool("ids-set") {
		body.Ids = []int{nondetInt("id")}
	}
	query := url.Values{}
	if lim.kind != wAbsent {
		query.Set("lim", lim.raw)
	}
	namesPresent := nondetBool("names-present")
	var names []string
	if namesPresent {
		names = []string{nondetStringUpTo("name", deep(1))}
		query["names"] = names
	}
	called := 0
	endpoint := func(ctx context.Context, p any) (any, error) { called++; return nil, nil }
	dec := func(*http.Request) goahttp.Decoder {
		return stubDecoder{func(v any) error { *(v.(*server.FirstRequestBody)) = *body; return nil }}
	}
	w := newRecWriter()
	server.NewFirstHandler(endpoint, &stubMux{}, dec, recEncoder(), nil, nil).ServeHTTP(w, newRequest("POST", query))
	valid := lim.kind == wNumber && namesPresent
	verifAssert("endpoint-runs-iff-request-valid", (called == 1) == valid)
	if called == 0 {
		verifAssert("rejected:exactly-one-400", w.nHeaders == 1 && w.status == http.StatusBadRequest)
	}
	parts := map[string]any{"body": body}
	switch lim.kind {
	case wNumber:
		parts["query:lim"] = lim.v
	case wJunk:
		parts["query:lim"] = lim.raw
	}
	if namesPresent {
		parts["query:names"] = names
	}
	verifAssert("openapi:schema-accepts-iff-server-accepts", verifSchemaAccepts(openapiDoc, "POST /first", parts) == (called == 1))
}

func VerifC04_v4_second() {
	body := &server.SecondRequestBody{}
	if nondetBool("tags-set") {
		body.Tags = []string{nondetStringUpTo("tag", deep(1))}
	}
	if nondetBool("ids-set") {
		body.Ids = []string{nondetStringUpTo("id", deep(1))}
	}
	called := 0
	endpoint := func(ctx context.Context, p any) (any, error) { called++; return nil, nil }
	dec := func(*http.Request) goahttp.Decoder {
		return stubDecoder{func(v any) error { *(v.(*server.SecondRequestBody)) = *body; return nil }}
	}
	w := newRecWriter()
	server.NewSecondHandler(endpoint, &stubMux{}, dec, recEncoder(), nil, nil).ServeHTTP(w, newRequest("POST", nil))
	verifAssert("endpoint-runs-iff-request-valid", called == 1)
	parts := map[string]any{"body": body}
	verifAssert("openapi:schema-accepts-iff-server-accepts", verifSchemaAccepts(openapiDoc, "POST /second", parts) == (called == 1))
}

// design v4, method third: the request body is the attribute items, which is
// required (and has a default): a request without a body is refused.
func VerifC04_v4_third() {
	bodyKind := nondetChoice("body", 3) // 0 absent, 1 empty array, 2 one element
	var items []string
	switch bodyKind {
	case 1:
		items = []string{}
	case 2:
		items = []string{nondetStringUpTo("item", 1)}
	}
	called := 0
	endpoint := func(ctx context.Context, p any) (any, error) { called++; return nil, nil }
	dec := func(*http.Request) goahttp.Decoder {
		return stubDecoder{func(v any) error {
			if bodyKind == 0 {
				return io.EOF
			}
			*(v.(*[]string)) = items
			return nil
		}}
	}
	w := newRecWriter()
	server.NewThirdHandler(endpoint, &stubMux{}, dec, recEncoder(), nil, nil).ServeHTTP(w, newRequest("POST", nil))
	ran := called == 1
	verifAssert("endpoint-runs-iff-request-valid", ran == (bodyKind != 0))
	if !ran {
		verifAssert("rejected:exactly-one-400", w.nHeaders == 1 && w.status == http.StatusBadRequest)
		verifAssert("rejected:missing-payload", errorName(w) == "missing_payload")
	}
	parts := map[string]any{}
	if bodyKind == 0 {
		parts["body-missing"] = true
	} else {
		parts["body"] = items
	}
	verifAssert("openapi:schema-accepts-iff-server-accepts", verifSchemaAccepts(openapiDoc, "POST /third", parts) == ran)
}
