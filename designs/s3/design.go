package design

import . "goa.design/goa/v3/dsl"

var JWTAuth = JWTSecurity("jwt", func() { Scope("api:read", "read") })
var OAuth = OAuth2Security("oauth2", func() {
	ClientCredentialsFlow("/token", "/refresh")
	Scope("api:write", "write")
})

var BasicAuth = BasicAuthSecurity("basic")

// a requirement at API level and a stricter one at service level
var _ = API("s3", func() {
	Security(BasicAuth)
})

var _ = Service("both", func() {
	Security(BasicAuth, JWTAuth, func() { Scope("api:read") })
	Method("guarded", func() {
		Payload(func() {
			Username("user", String)
			Password("pass", String)
			Token("token", String)
			Required("user", "pass", "token")
		})
		HTTP(func() {
			GET("/guarded")
			Header("token:X-Token")
		})
	})
})

// two alternative requirements whose credentials both travel (implicitly) in
// the Authorization header
var _ = Service("alt", func() {
	Method("either", func() {
		Security(JWTAuth, func() { Scope("api:read") })
		Security(OAuth, func() { Scope("api:write") })
		Payload(func() {
			Token("token", String)
			AccessToken("at", String)
		})
		HTTP(func() { GET("/either") })
	})
})
