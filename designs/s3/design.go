package design

import . "goa.design/goa/v3/dsl"

var JWTAuth = JWTSecurity("jwt", func() { Scope("api:read", "read") })
var OAuth = OAuth2Security("oauth2", func() {
	ClientCredentialsFlow("/token", "/refresh")
	Scope("api:write", "write")
})

var _ = API("s3", func() {})

// two alternative requirements whose credentials both travel (implicitly) in
// the Authorization header
var _ = Service("alt", func() {
	Method("either", func() {
		Security(JWTAuth, func() { Scope("api:read") })
		Security(OAuth, func() { Scope("api:write") })
		Payload(func() {
			Token("token", String)
			AccessToken("at", String)
		})
		HTTP(func() { GET("/either") })
	})
})
