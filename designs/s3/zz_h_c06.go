//go:build verif

package vh

import (
	"context"
	"errors"
	"net/http"

	goahttp "goa.design/goa/v3/http"
	"goa.design/goa/v3/security"
	alt "vdesign/gen/alt"
	both "vdesign/gen/both"
	alts "vdesign/gen/http/alt/server"
)

var (
	errJWT3   = errors.New("jwt refused")
	errOAuth3 = errors.New("oauth2 refused")
)

type altSvc struct {
	jwtOK, oauthOK       bool
	jwtCalls, oauthCalls int
	token, at            string
	ran                  int
}

func (s *altSvc) JWTAuth(ctx context.Context, token string, sc *security.JWTScheme) (context.Context, error) {
	s.jwtCalls++
	s.token = token
	if !s.jwtOK {
		return ctx, errJWT3
	}
	return ctx, nil
}
func (s *altSvc) OAuth2Auth(ctx context.Context, token string, sc *security.OAuth2Scheme) (context.Context, error) {
	s.oauthCalls++
	s.at = token
	if !s.oauthOK {
		return ctx, errOAuth3
	}
	return ctx, nil
}
func (s *altSvc) Either(context.Context, *alt.EitherPayload) error { s.ran++; return nil }

// VerifC06_s3_same_header: two alternative requirements (JWT | OAuth2) whose
// credentials both arrive in the Authorization header, sent with a scheme
// prefix: each callback that is consulted receives the bare credential.
func VerifC06_s3_same_header() {
	s := &altSvc{jwtOK: nondetBool("jwt-ok"), oauthOK: nondetBool("oauth-ok")}
	mux := goahttp.NewMuxer()
	alts.Mount(mux, alts.New(alt.NewEndpoints(s), mux, func(*http.Request) goahttp.Decoder { return stubDecoder{func(any) error { return nil }} }, recEncoder(), nil, nil))
	cred := nondetString("cred", 1) + nondetStringUpTo("cred-tail", deep(1))
	verifAssume(visible(cred))
	req := newRequest("GET", nil)
	req.URL.Path = "/either"
	withPrefix := nondetBool("scheme-prefix")
	if withPrefix {
		req.Header.Set("Authorization", "Bearer "+cred)
	} else {
		req.Header.Set("Authorization", cred)
	}
	w := newRecWriter()
	mux.ServeHTTP(w, req)
	verifAssert("same-header:first-alternative-consulted", s.jwtCalls == 1 && s.token == cred)
	verifAssert("same-header:second-consulted-iff-first-refused", (s.oauthCalls == 1) == !s.jwtOK)
	if s.oauthCalls == 1 {
		verifAssert("same-header:second-alternative-gets-the-bare-credential", s.at == cred)
	}
	verifAssert("same-header:method-runs-iff-an-alternative-accepts", (s.ran == 1) == (s.jwtOK || s.oauthOK))
}

type bothSvc struct {
	basicOK, jwtOK       bool
	basicCalls, jwtCalls int
	user, pass, token    string
	scopes               []string
	ran                  int
}

func (s *bothSvc) BasicAuth(ctx context.Context, user, pass string, sc *security.BasicScheme) (context.Context, error) {
	s.basicCalls++
	s.user, s.pass = user, pass
	if !s.basicOK {
		return ctx, errors.New("basic refused")
	}
	return ctx, nil
}
func (s *bothSvc) JWTAuth(ctx context.Context, token string, sc *security.JWTScheme) (context.Context, error) {
	s.jwtCalls++
	s.token, s.scopes = token, sc.RequiredScopes
	if !s.jwtOK {
		return ctx, errors.New("jwt refused")
	}
	return ctx, nil
}
func (s *bothSvc) Guarded(context.Context, *both.GuardedPayload) error { s.ran++; return nil }

// VerifC06_s3_service_over_api: the API declares Security(basic), the service
// Security(basic, jwt with a scope); a method that declares nothing inherits
// the service-level requirement, not the API-level one.
func VerifC06_s3_service_over_api() {
	s := &bothSvc{basicOK: nondetBool("basic-ok"), jwtOK: nondetBool("jwt-ok")}
	ep := both.NewEndpoints(s).Guarded
	tok := nondetStringUpTo("token", 1)
	_, err := ep(context.Background(), &both.GuardedPayload{User: "u", Pass: "p", Token: tok})
	verifAssert("service-over-api:method-runs-iff-both-schemes-accept", (s.ran == 1) == (s.basicOK && s.jwtOK) && (err == nil) == (s.ran == 1))
	verifAssert("service-over-api:basic-consulted", s.basicCalls == 1 && s.user == "u" && s.pass == "p")
	if s.basicOK {
		verifAssert("service-over-api:jwt-consulted-with-its-scope", s.jwtCalls == 1 && s.token == tok && len(s.scopes) == 1 && s.scopes[0] == "api:read")
	}
}
