//go:build verif

package vh

import (
	"context"
	"errors"
	"io"
	"net/http"
	"net/url"

	goahttp "goa.design/goa/v3/http"
	server "vdesign/gen/http/svc/server"
	svc "vdesign/gen/svc"
)

// C04 on design v1, method ints: body a (Int, required, 1..10), b (Int64,
// enum 2|4|8); query q (Int, >= -5); path p (Int, required, <= 100); header
// X-H h (Int32, >= 0).
func VerifC04_v1_ints() {
	// ---- symbolic wire request
	bodyKind := nondetChoice("body-kind", 3) // 0 JSON document, 1 empty body, 2 malformed / ill-typed
	aPresent, bPresent := nondetBool("a-present"), nondetBool("b-present")
	aVal, bVal := nondetInt("a"), nondetInt64("b")
	p := newWireInt("p", false)
	q := newWireInt("q", true)
	hh := newWireInt("h", true)
	query := url.Values{}
	if q.kind != wAbsent {
		query.Set("q", q.raw)
	}
	r := newRequest("POST", query)
	if hh.kind != wAbsent {
		r.Header.Set("X-H", hh.raw)
	}
	mux := &stubMux{vars: map[string]string{"p": p.raw}}
	decoder := func(*http.Request) goahttp.Decoder {
		return stubDecoder{func(v any) error {
			switch bodyKind {
			case 1:
				return io.EOF
			case 2:
				return errors.New("json: cannot unmarshal")
			}
			b := v.(*server.IntsRequestBody)
			if aPresent {
				b.A = &aVal
			}
			if bPresent {
				b.B = &bVal
			}
			return nil
		}}
	}
	// ---- the generated server
	called := 0
	var got *svc.IntsPayload
	endpoint := func(ctx context.Context, req any) (any, error) {
		called++
		got = req.(*svc.IntsPayload)
		return nil, nil
	}
	w := newRecWriter()
	h := server.NewIntsHandler(endpoint, mux, decoder, recEncoder(), nil, nil)
	h.ServeHTTP(w, r)

	// ---- oracle: the design predicate, written from the design
	rules := map[string]bool{}
	switch bodyKind {
	case 1:
		rules["missing_payload"] = true
	case 2:
		rules["decode_payload"] = true
	default:
		if !aPresent {
			rules["missing_field"] = true
		} else if aVal < 1 || aVal > 10 {
			rules["invalid_range"] = true
		}
		if bPresent && !(bVal == 2 || bVal == 4 || bVal == 8) {
			rules["invalid_enum_value"] = true
		}
	}
	bodyOK := len(rules) == 0
	if p.kind == wJunk {
		rules["invalid_field_type"] = true
	} else if p.v > 100 {
		rules["invalid_range"] = true
	}
	if q.kind == wJunk {
		rules["invalid_field_type"] = true
	} else if q.kind == wNumber && q.v < -5 {
		rules["invalid_range"] = true
	}
	if hh.kind == wJunk || (hh.kind == wNumber && int64(int32(hh.v)) != hh.v) {
		rules["invalid_field_type"] = true // not a number, or does not fit the designed Int32
	} else if hh.kind == wNumber && hh.v < 0 {
		rules["invalid_range"] = true
	}
	valid := len(rules) == 0

	verifObserve("called", called)
	verifAssert("endpoint-runs-iff-request-valid", (called == 1) == valid)
	verifAssert("endpoint-runs-at-most-once", called <= 1)
	if called == 0 {
		verifAssert("rejected:exactly-one-response", w.nHeaders == 1)
		verifAssert("rejected:status-400", w.status == http.StatusBadRequest)
		name := errorName(w)
		verifObserve("name", name)
		if bodyOK || bodyKind != 0 {
			verifAssert("rejected:names-a-violated-rule", rules[name])
		} else {
			// body validation errors are reported before params are looked at
			verifAssert("rejected:names-a-violated-body-rule", rules[name])
		}
	} else if valid {
		verifAssert("accepted:payload-a", got.A == aVal)
		verifAssert("accepted:payload-b", (got.B != nil) == bPresent && (got.B == nil || *got.B == bVal))
		verifAssert("accepted:payload-p", int64(got.P) == p.v)
		verifAssert("accepted:payload-q", (got.Q != nil) == (q.kind == wNumber) && (got.Q == nil || int64(*got.Q) == q.v))
		verifAssert("accepted:payload-h", (got.H != nil) == (hh.kind == wNumber) && (got.H == nil || int64(*got.H) == hh.v))
		verifAssert("accepted:response-written-once", w.nHeaders == 1 && w.status == http.StatusNoContent)
	}
	// ---- C14: the published OpenAPI 3 contract against the same request
	parts := map[string]any{}
	switch bodyKind {
	case 1:
		parts["body-missing"] = true
	case 2:
		parts["body-malformed"] = true
	default:
		b := &server.IntsRequestBody{}
		if aPresent {
			b.A = &aVal
		}
		if bPresent {
			b.B = &bVal
		}
		parts["body"] = b
	}
	addInt := func(key string, w wireInt) {
		switch w.kind {
		case wNumber:
			parts[key] = w.v
		case wJunk:
			parts[key] = w.raw
		}
	}
	addInt("path:p", p)
	addInt("query:q", q)
	addInt("header:X-H", hh)
	specOK := verifSchemaAccepts(openapiDoc, "POST /ints/{p}", parts)
	verifAssert("openapi:schema-accepts-iff-server-accepts", specOK == (called == 1))
	verifReach("done")
}
