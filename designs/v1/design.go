package design

import . "goa.design/goa/v3/dsl"

var _ = API("v1", func() {})

var _ = Service("svc", func() {
	Method("ints", func() {
		Payload(func() {
			Attribute("a", Int, func() {
				Minimum(1)
				Maximum(10)
			})
			Attribute("b", Int64, func() { Enum(2, 4, 8) })
			Attribute("q", Int, func() { Minimum(-5) })
			Attribute("p", Int, func() { Maximum(100) })
			Attribute("h", Int32, func() { Minimum(0) })
			Required("a", "p")
		})
		HTTP(func() {
			POST("/ints/{p}")
			Param("q")
			Header("h:X-H")
		})
	})
})
