//go:build verif

package vh

import (
	"context"
	"net/http"
	"net/url"

	goahttp "goa.design/goa/v3/http"
	server "vdesign/gen/http/svc/server"
	svc "vdesign/gen/svc"
)

// VerifC20_v1_ints_handler: one generated handler (one set of closures)
// serves two requests concurrently: valid, invalid and error-provoking mixes.
func VerifC20_v1_ints_handler() {
	type reqSpec struct {
		a    int
		p    wireInt
		fail bool
	}
	mk := func(id string) reqSpec {
		return reqSpec{a: nondetInt(id + "-a"), p: newWireInt(id+"-p", false), fail: nondetBool(id + "-service-fails")}
	}
	specs := [2]reqSpec{mk("r0"), mk("r1")}
	var got [2]*svc.IntsPayload
	endpoint := func(ctx context.Context, req any) (any, error) {
		p := req.(*svc.IntsPayload)
		i := 0
		if ctx.Value(ctxKey{}) == 1 {
			i = 1
		}
		got[i] = p
		if specs[i].fail {
			return nil, &plainError{"boom"}
		}
		return nil, nil
	}
	dec := func(r *http.Request) goahttp.Decoder {
		i := 0
		if r.Context().Value(ctxKey{}) == 1 {
			i = 1
		}
		return stubDecoder{func(v any) error {
			a := specs[i].a
			v.(*server.IntsRequestBody).A = &a
			return nil
		}}
	}
	var ws [2]*recWriter
	var muxes [2]*stubMux
	vars := &varsMux{}
	h := server.NewIntsHandler(endpoint, vars, dec, recEncoder(), nil, nil)
	run := func(i int) func() {
		return func() {
			ws[i] = newRecWriter()
			r := newRequest("POST", url.Values{})
			r = r.WithContext(context.WithValue(context.WithValue(context.Background(), ctxKey{}, i), varsKey{}, map[string]string{"p": specs[i].p.raw}))
			h.ServeHTTP(ws[i], r)
		}
	}
	_ = muxes
	verifInterleave(run(0), run(1))
	verifRaceFree("generated-handler")
	for i := 0; i < 2; i++ {
		s := specs[i]
		valid := s.a >= 1 && s.a <= 10 && s.p.kind == wNumber && s.p.v <= 100
		verifAssert("own-request:reaches-method-iff-valid", (got[i] != nil) == valid)
		if got[i] != nil {
			verifAssert("own-request:payload", got[i].A == s.a && int64(got[i].P) == s.p.v)
		}
		want := http.StatusNoContent
		switch {
		case !valid:
			want = http.StatusBadRequest
		case s.fail:
			want = http.StatusInternalServerError
		}
		verifAssert("own-request:status", ws[i].nHeaders == 1 && ws[i].status == want)
	}
}

type ctxKey struct{}
type varsKey struct{}

type plainError struct{ m string }

func (e *plainError) Error() string { return e.m }

// varsMux returns the path variables attached to the request (what the real
// muxer keeps in the request context).
type varsMux struct{}

func (m *varsMux) Handle(method, pattern string, handler http.HandlerFunc) {}
func (m *varsMux) ServeHTTP(http.ResponseWriter, *http.Request)               {}
func (m *varsMux) Vars(r *http.Request) map[string]string {
	v, _ := r.Context().Value(varsKey{}).(map[string]string)
	return v
}
