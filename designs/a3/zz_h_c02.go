//go:build verif

package vh

import (
	"context"
	"net/http"
	"strings"

	goahttp "goa.design/goa/v3/http"
	client "vdesign/gen/http/svc/client"
	svc "vdesign/gen/svc"
)

func symStrs(id string, elemLen int, vis bool) []string {
	var out []string
	switch nondetChoice(id+"-len", 3) {
	case 1:
		out = []string{nondetString(id+"0", elemLen)}
	case 2:
		out = []string{nondetString(id+"0", elemLen), nondetString(id+"1", elemLen)}
	}
	if vis {
		for _, s := range out {
			verifAssume(visible(s))
		}
	}
	return out
}

// VerifC02_a3_find: arrays and maps as query/header parameters.
func VerifC02_a3_find() {
	p := &svc.FindPayload{ID: "x"}
	bracketInKey := false
	switch nondetChoice("focus", 4) {
	case 0:
		switch nondetChoice("qi-len", 3) {
		case 1:
			p.Qi = []int{nondetInt("qi0")}
		case 2:
			p.Qi = []int{nondetInt("qi0"), nondetInt("qi1")}
		}
	case 1:
		p.Qs = symStrs("qs", 1, false)
		for _, s := range p.Qs {
			verifAssume(s != "")
		}
	case 2:
		if nondetBool("qm-set") {
			k := nondetStringUpTo("qm-key", deep(2))
			p.Qm = map[string]int{k: nondetInt("qm-val")}
			bracketInKey = strings.ContainsAny(k, "[]")
		}
	case 3:
		p.Ha = symStrs("ha", 1, true)
		switch nondetChoice("hi-len", 3) {
		case 1:
			p.Hi = []uint32{nondetUint32("hi0")}
		case 2:
			p.Hi = []uint32{nondetUint32("hi0"), nondetUint32("hi1")}
		}
	}
	c := client.NewClient("http", "example.com", nil, nil, nil, false)
	req, err := c.BuildFindRequest(context.Background(), p)
	verifAssert("find:request-built", err == nil)
	if err != nil {
		return
	}
	err = client.EncodeFindRequest(func(*http.Request) goahttp.Encoder { return stubEncoder{func(any) error { return nil }} })(req, p)
	verifAssert("find:request-encoded", err == nil)
	x := a3Serve(req, nil, nil, "")
	verifAssert("find:reaches-the-method", x.err == nil && x.gotFind != nil)
	got := x.gotFind
	if got == nil {
		return
	}
	verifAssert("find:path-id", got.ID == p.ID)
	verifAssert("find:qi", len(got.Qi) == len(p.Qi))
	for i := range p.Qi {
		if i < len(got.Qi) {
			verifAssert("find:qi-elem", got.Qi[i] == p.Qi[i])
		}
	}
	verifAssert("find:qs", len(got.Qs) == len(p.Qs))
	for i := range p.Qs {
		if i < len(got.Qs) {
			verifAssert("find:qs-elem", got.Qs[i] == p.Qs[i])
		}
	}
	if bracketInKey {
		for k, v := range p.Qm {
			gv, ok := got.Qm[k]
			verifAssert("find:qm-entry[map-key-containing-bracket]", ok && gv == v)
		}
	} else {
		verifAssert("find:qm", len(got.Qm) == len(p.Qm))
		for k, v := range p.Qm {
			gv, ok := got.Qm[k]
			verifAssert("find:qm-entry", ok && gv == v)
		}
	}
	verifAssert("find:ha", len(got.Ha) == len(p.Ha))
	for i := range p.Ha {
		if i < len(got.Ha) {
			verifAssert("find:ha-elem", got.Ha[i] == p.Ha[i])
		}
	}
	verifAssert("find:hi", len(got.Hi) == len(p.Hi))
	for i := range p.Hi {
		if i < len(got.Hi) {
			verifAssert("find:hi-elem", got.Hi[i] == p.Hi[i])
		}
	}
}

// VerifC02_a3_body: body given by one payload attribute; primitive payload.
func VerifC02_a3_body() {
	c := client.NewClient("http", "example.com", nil, nil, nil, false)
	if nondetBool("primitive-payload") {
		v := nondetInt64("prim")
		req, err := c.BuildPrimRequest(context.Background(), v)
		verifAssert("prim:request-built", err == nil)
		if err != nil {
			return
		}
		var sent any
		err = client.EncodePrimRequest(func(*http.Request) goahttp.Encoder { return stubEncoder{func(b any) error { sent = b; return nil }} })(req, v)
		verifAssert("prim:request-encoded", err == nil)
		x := a3Serve(req, sent, nil, "")
		verifAssert("prim:arrives-equal", x.gotPrim != nil && *x.gotPrim == v)
		return
	}
	p := &svc.BodyattrPayload{Key: nondetString("key", 1), Item: &svc.Item{N: nondetInt("n"), S: nondetStringUpTo("s", deep(1))}}
	verifAssume(!strings.Contains(p.Key, "/"))
	want := *p.Item
	req, err := c.BuildBodyattrRequest(context.Background(), p)
	verifAssert("bodyattr:request-built", err == nil)
	if err != nil {
		return
	}
	var sent any
	err = client.EncodeBodyattrRequest(func(*http.Request) goahttp.Encoder { return stubEncoder{func(b any) error { sent = b; return nil }} })(req, p)
	verifAssert("bodyattr:request-encoded", err == nil)
	x := a3Serve(req, sent, nil, "r")
	verifAssert("bodyattr:reaches-the-method", x.gotBodyattr != nil)
	if x.gotBodyattr == nil {
		return
	}
	verifAssert("bodyattr:key-from-path", x.gotBodyattr.Key == p.Key)
	verifAssert("bodyattr:item", x.gotBodyattr.Item != nil && x.gotBodyattr.Item.N == want.N)
	if x.gotBodyattr.Item != nil {
		wantS := want.S
		if wantS == "" {
			wantS = "dflt"
		}
		verifAssert("bodyattr:item-default", x.gotBodyattr.Item.S == wantS)
	}
}
