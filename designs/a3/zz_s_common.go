//go:build verif

package vh

import (
	"context"
	"io"
	"net/http"
	"net/url"
	"strings"

	goahttp "goa.design/goa/v3/http"
	server "vdesign/gen/http/svc/server"
	svc "vdesign/gen/svc"
)

type a3Exchange struct {
	gotFind     *svc.FindPayload
	gotBodyattr *svc.BodyattrPayload
	gotPrim     *int64
	w           *recWriter
	sent        any
	err         error
}

// a3Serve carries a client-built request over the wire model into the
// generated server (real muxer) whose endpoints answer with the given results.
func a3Serve(req *http.Request, sent any, findRes []*svc.Item, bodyattrRes string) *a3Exchange {
	x := &a3Exchange{sent: sent}
	target := req.URL.RequestURI()
	u, perr := url.ParseRequestURI(target)
	if perr != nil {
		x.err = perr
		return x
	}
	sreq := &http.Request{Method: req.Method, URL: u, Header: req.Header.Clone(), RequestURI: target}
	eps := &svc.Endpoints{
		Find: func(ctx context.Context, v any) (any, error) { x.gotFind = v.(*svc.FindPayload); return findRes, nil },
		Bodyattr: func(ctx context.Context, v any) (any, error) {
			x.gotBodyattr = v.(*svc.BodyattrPayload)
			return bodyattrRes, nil
		},
		Prim: func(ctx context.Context, v any) (any, error) { p := v.(int64); x.gotPrim = &p; return nil, nil },
	}
	mux := goahttp.NewMuxer()
	dec := func(*http.Request) goahttp.Decoder {
		return stubDecoder{func(v any) error { return verifJSONCopy(v, x.sent) }}
	}
	srv := server.New(eps, mux, dec, recEncoder(), nil, nil)
	server.Mount(mux, srv)
	x.w = newRecWriter()
	mux.ServeHTTP(x.w, sreq)
	return x
}

func a3Response(x *a3Exchange) *http.Response {
	return &http.Response{StatusCode: x.w.status, Header: x.w.h, Body: io.NopCloser(strings.NewReader(""))}
}
