package design

import . "goa.design/goa/v3/dsl"

var _ = API("a3", func() {})

var Item = Type("Item", func() {
	Attribute("n", Int)
	Attribute("s", String, func() { Default("dflt") })
	Required("n")
})

var _ = Service("svc", func() {
	// arrays and maps in the query string and in headers, two routes
	Method("find", func() {
		Payload(func() {
			Attribute("id", String)
			Attribute("qi", ArrayOf(Int))
			Attribute("qs", ArrayOf(String))
			Attribute("qm", MapOf(String, Int))
			Attribute("ha", ArrayOf(String))
			Attribute("hi", ArrayOf(UInt32))
			Required("id")
		})
		Result(ArrayOf(Item))
		HTTP(func() {
			GET("/a/{id}")
			GET("/b/{id}/x")
			Param("qi")
			Param("qs")
			Param("qm")
			Header("ha:X-A")
			Header("hi:X-I")
		})
	})
	// the body is a single payload attribute
	Method("bodyattr", func() {
		Payload(func() {
			Attribute("key", String)
			Attribute("item", Item)
			Required("key", "item")
		})
		Result(String)
		HTTP(func() {
			POST("/k/{key}")
			Body("item")
		})
	})
	// primitive payload as body, empty result
	Method("prim", func() {
		Payload(Int64)
		HTTP(func() { POST("/prim") })
	})
})
