//go:build verif

package vh

import (
	"context"
	"net/http"

	goahttp "goa.design/goa/v3/http"
	client "vdesign/gen/http/svc/client"
	svc "vdesign/gen/svc"
)

// VerifC03_a3_results: collection result with a defaulted member; primitive result.
func VerifC03_a3_results() {
	c := client.NewClient("http", "example.com", nil, nil, nil, false)
	if nondetBool("primitive-result") {
		res := nondetStringUpTo("res", deep(2))
		p := &svc.BodyattrPayload{Key: "k", Item: &svc.Item{N: 1, S: "s"}}
		req, _ := c.BuildBodyattrRequest(context.Background(), p)
		var sent any
		client.EncodeBodyattrRequest(func(*http.Request) goahttp.Encoder { return stubEncoder{func(b any) error { sent = b; return nil }} })(req, p)
		x := a3Serve(req, sent, nil, res)
		verifAssert("prim-result:served", x.gotBodyattr != nil && x.w.status == http.StatusOK && len(x.w.encoded) == 1)
		if len(x.w.encoded) != 1 {
			return
		}
		out, err := client.DecodeBodyattrResponse(func(*http.Response) goahttp.Decoder {
			return stubDecoder{func(v any) error { return verifJSONCopy(v, x.w.encoded[0]) }}
		}, false)(a3Response(x))
		verifAssert("prim-result:decoded", err == nil)
		s, ok := out.(string)
		verifAssert("prim-result:equal", ok && s == res)
		return
	}
	var res []*svc.Item
	n := nondetChoice("len", 3)
	for i := 0; i < n; i++ {
		res = append(res, &svc.Item{N: nondetInt("n"), S: nondetStringUpTo("s", deep(1))})
	}
	req, _ := c.BuildFindRequest(context.Background(), &svc.FindPayload{ID: "x"})
	x := a3Serve(req, nil, res, "")
	verifAssert("collection:served", x.gotFind != nil && x.w.status == http.StatusOK && len(x.w.encoded) == 1)
	if len(x.w.encoded) != 1 {
		return
	}
	out, err := client.DecodeFindResponse(func(*http.Response) goahttp.Decoder {
		return stubDecoder{func(v any) error { return verifJSONCopy(v, x.w.encoded[0]) }}
	}, false)(a3Response(x))
	verifAssert("collection:decoded", err == nil)
	items, ok := out.([]*svc.Item)
	verifAssert("collection:length", ok && len(items) == len(res))
	for i := range res {
		if i < len(items) && items[i] != nil {
			wantS := res[i].S
			if wantS == "" {
				wantS = "dflt"
			}
			verifAssert("collection:element", items[i].N == res[i].N && items[i].S == wantS)
		}
	}
}
