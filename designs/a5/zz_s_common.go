//go:build verif

package vh

import (
	"context"
	"io"
	"net/http"
	"net/url"
	"strings"

	goahttp "goa.design/goa/v3/http"
	server "vdesign/gen/http/svc/server"
	svc "vdesign/gen/svc"
)

type a5Exchange struct {
	coll     *svc.CollPayload
	read     *svc.ReadPayload
	remove   *svc.RemovePayload
	madeCall bool
	w        *recWriter
	err      error
}

func a5Serve(req *http.Request, sent any, collRes *svc.CollResult, makeRes *svc.MakeResult) *a5Exchange {
	x := &a5Exchange{}
	target := req.URL.RequestURI()
	u, perr := url.ParseRequestURI(target)
	if perr != nil {
		x.err = perr
		return x
	}
	sreq := &http.Request{Method: req.Method, URL: u, Header: req.Header.Clone(), RequestURI: target}
	eps := &svc.Endpoints{
		Coll:   func(ctx context.Context, v any) (any, error) { x.coll = v.(*svc.CollPayload); return collRes, nil },
		Read:   func(ctx context.Context, v any) (any, error) { x.read = v.(*svc.ReadPayload); return nil, nil },
		Remove: func(ctx context.Context, v any) (any, error) { x.remove = v.(*svc.RemovePayload); return nil, nil },
		Make:   func(ctx context.Context, v any) (any, error) { x.madeCall = true; return makeRes, nil },
	}
	mux := goahttp.NewMuxer()
	dec := func(*http.Request) goahttp.Decoder {
		return stubDecoder{func(v any) error { return verifJSONCopy(v, sent) }}
	}
	server.Mount(mux, server.New(eps, mux, dec, recEncoder(), nil, nil))
	x.w = newRecWriter()
	mux.ServeHTTP(x.w, sreq)
	return x
}

func a5Response(x *a5Exchange) *http.Response {
	return &http.Response{StatusCode: x.w.status, Header: x.w.h, Body: io.NopCloser(strings.NewReader(""))}
}
