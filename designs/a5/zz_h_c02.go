//go:build verif

package vh

import (
	"context"
	"net/http"

	goahttp "goa.design/goa/v3/http"
	client "vdesign/gen/http/svc/client"
	svc "vdesign/gen/svc"
)

// VerifC02_a5_coll: collections with defaults: unset -> default, explicitly
// empty -> empty, populated -> equal.
func VerifC02_a5_coll() {
	p := &svc.CollPayload{}
	lk, wk := nondetChoice("labels", 3), nondetChoice("weights", 3)
	switch lk {
	case 1:
		p.Labels = []string{}
	case 2:
		p.Labels = []string{nondetStringUpTo("l0", deep(1))}
	}
	switch wk {
	case 1:
		p.Weights = map[string]int{}
	case 2:
		p.Weights = map[string]int{nondetStringUpTo("wk", deep(1)): nondetInt("wv")}
	}
	if nondetBool("plain-set") {
		p.Plain = []int{nondetInt("p0")}
	}
	c := client.NewClient("http", "example.com", nil, nil, nil, false)
	req, err := c.BuildCollRequest(context.Background(), p)
	verifAssert("coll:request-built", err == nil)
	if err != nil {
		return
	}
	var sent any
	verifAssert("coll:request-encoded", client.EncodeCollRequest(func(*http.Request) goahttp.Encoder {
		return stubEncoder{func(b any) error { sent = b; return nil }}
	})(req, p) == nil)
	x := a5Serve(req, sent, &svc.CollResult{}, nil)
	verifAssert("coll:reaches-the-method", x.coll != nil)
	got := x.coll
	if got == nil {
		return
	}
	switch lk {
	case 0:
		verifAssert("coll:unset-array-arrives-as-default", len(got.Labels) == 2 && got.Labels[0] == "d1" && got.Labels[1] == "d2")
	case 1:
		verifAssert("coll:explicitly-empty-array-arrives-empty", len(got.Labels) == 0)
	default:
		verifAssert("coll:array-arrives-equal", len(got.Labels) == 1 && got.Labels[0] == p.Labels[0])
	}
	switch wk {
	case 0:
		verifAssert("coll:unset-map-arrives-as-default", len(got.Weights) == 1 && got.Weights["w"] == 1)
	case 1:
		verifAssert("coll:explicitly-empty-map-arrives-empty", len(got.Weights) == 0)
	default:
		verifAssert("coll:map-arrives-equal", len(got.Weights) == 1)
		for k, v := range p.Weights {
			gv, ok := got.Weights[k]
			verifAssert("coll:map-entry", ok && gv == v)
		}
	}
	verifAssert("coll:plain", len(got.Plain) == len(p.Plain) && (len(p.Plain) == 0 || got.Plain[0] == p.Plain[0]))
}

// VerifC02_a5_wildcards: GET and DELETE on one catch-all pattern, different names.
func VerifC02_a5_wildcards() {
	c := client.NewClient("http", "example.com", nil, nil, nil, false)
	val := nondetString("seg", 1) + "/" + nondetString("seg2", 1)
	if nondetBool("delete") {
		p := &svc.RemovePayload{Target: val}
		req, err := c.BuildRemoveRequest(context.Background(), p)
		verifAssert("wildcards:delete-built", err == nil)
		if err != nil {
			return
		}
		x := a5Serve(req, nil, nil, nil)
		verifAssert("wildcards:delete-reaches-its-method", x.remove != nil && x.read == nil)
		if x.remove != nil {
			verifAssert("wildcards:delete-value", x.remove.Target == val)
		}
		return
	}
	p := &svc.ReadPayload{Path: val}
	req, err := c.BuildReadRequest(context.Background(), p)
	verifAssert("wildcards:get-built", err == nil)
	if err != nil {
		return
	}
	x := a5Serve(req, nil, nil, nil)
	verifAssert("wildcards:get-reaches-its-method", x.read != nil && x.remove == nil)
	if x.read != nil {
		verifAssert("wildcards:get-value", x.read.Path == val)
	}
}
