//go:build verif

package vh

import (
	"context"
	"net/http"

	goahttp "goa.design/goa/v3/http"
	client "vdesign/gen/http/svc/client"
	svc "vdesign/gen/svc"
)

// VerifC03_a5_coll_result: result collections with defaults.
func VerifC03_a5_coll_result() {
	res := &svc.CollResult{}
	lk, wk := nondetChoice("labels", 3), nondetChoice("weights", 3)
	switch lk {
	case 1:
		res.Labels = []string{}
	case 2:
		res.Labels = []string{nondetStringUpTo("l0", deep(1))}
	}
	switch wk {
	case 1:
		res.Weights = map[string]int{}
	case 2:
		res.Weights = map[string]int{nondetStringUpTo("wk", deep(1)): nondetInt("wv")}
	}
	c := client.NewClient("http", "example.com", nil, nil, nil, false)
	p := &svc.CollPayload{}
	req, _ := c.BuildCollRequest(context.Background(), p)
	var sent any
	client.EncodeCollRequest(func(*http.Request) goahttp.Encoder { return stubEncoder{func(b any) error { sent = b; return nil }} })(req, p)
	x := a5Serve(req, sent, res, nil)
	verifAssert("coll-result:served", x.coll != nil && x.w.status == http.StatusOK && len(x.w.encoded) == 1)
	if len(x.w.encoded) != 1 {
		return
	}
	verifAssert("openapi:response-conforms", verifSchemaAccepts(openapiDoc, "POST /coll", map[string]any{"response:200": x.w.encoded[0]}))
	out, err := client.DecodeCollResponse(func(*http.Response) goahttp.Decoder {
		return stubDecoder{func(v any) error { return verifJSONCopy(v, x.w.encoded[0]) }}
	}, false)(a5Response(x))
	verifAssert("coll-result:decoded", err == nil)
	r, ok := out.(*svc.CollResult)
	verifAssert("coll-result:type", ok && r != nil)
	if !ok || r == nil {
		return
	}
	switch lk {
	case 0:
		verifAssert("coll-result:unset-array-is-default", len(r.Labels) == 1 && r.Labels[0] == "r1")
	case 1:
		verifAssert("coll-result:explicitly-empty-array-stays-empty", len(r.Labels) == 0)
	default:
		verifAssert("coll-result:array-equal", len(r.Labels) == 1 && r.Labels[0] == res.Labels[0])
	}
	switch wk {
	case 0:
		verifAssert("coll-result:unset-map-is-default", len(r.Weights) == 1 && r.Weights["rw"] == 2)
	case 1:
		verifAssert("coll-result:explicitly-empty-map-stays-empty", len(r.Weights) == 0)
	default:
		verifAssert("coll-result:map-equal", len(r.Weights) == 1)
	}
}

// VerifC03_a5_tagged_body: tagged response whose explicit body leaves the tag attribute out.
func VerifC03_a5_tagged_body() {
	outcomes := []string{"created", "other"}
	res := &svc.MakeResult{Outcome: outcomes[nondetChoice("outcome", 2)]}
	if res.Outcome == "created" || nondetBool("item-set") {
		res.Item = &svc.Item{N: nondetInt("n")}
	}
	want := *res
	c := client.NewClient("http", "example.com", nil, nil, nil, false)
	req, err := c.BuildMakeRequest(context.Background(), nil)
	verifAssert("tagged-body:request-built", err == nil)
	if err != nil {
		return
	}
	x := a5Serve(req, nil, nil, res)
	verifAssert("tagged-body:served", x.madeCall && x.w.nHeaders == 1)
	wantStatus := http.StatusOK
	if want.Outcome == "created" {
		wantStatus = http.StatusCreated
	}
	verifAssert("tagged-body:status-selected-by-tag", x.w.status == wantStatus)
	if len(x.w.encoded) != 1 {
		// a nil item under the tagged response has no body to encode
		return
	}
	verifAssert("openapi:response-conforms", verifSchemaAccepts(openapiDoc, "POST /make", map[string]any{"response:" + itoa(x.w.status): x.w.encoded[0]}))
	out, derr := client.DecodeMakeResponse(func(*http.Response) goahttp.Decoder {
		return stubDecoder{func(v any) error { return verifJSONCopy(v, x.w.encoded[0]) }}
	}, false)(a5Response(x))
	verifAssert("tagged-body:decoded", derr == nil)
	r, ok := out.(*svc.MakeResult)
	verifAssert("tagged-body:type", ok && r != nil)
	if !ok || r == nil {
		return
	}
	verifAssert("tagged-body:tag-attribute-restored", r.Outcome == want.Outcome)
	verifAssert("tagged-body:item", (r.Item == nil) == (want.Item == nil) && (r.Item == nil || r.Item.N == want.Item.N))
}

// VerifC03_a5_tagged_body_nil_item: the optional attribute used as explicit
// body is nil (a valid result).
func VerifC03_a5_tagged_body_nil_item() {
	res := &svc.MakeResult{Outcome: "created"}
	c := client.NewClient("http", "example.com", nil, nil, nil, false)
	req, err := c.BuildMakeRequest(context.Background(), nil)
	if err != nil {
		return
	}
	x := a5Serve(req, nil, nil, res)
	verifAssert("tagged-body-nil-item:status", x.w.status == http.StatusCreated)
}
