package design

import . "goa.design/goa/v3/dsl"

var _ = API("a5", func() {})

var Item = Type("Item", func() {
	Attribute("n", Int)
	Required("n")
})

var _ = Service("svc", func() {
	// collections with defaults in request and response bodies
	Method("coll", func() {
		Payload(func() {
			Attribute("labels", ArrayOf(String), func() { Default([]string{"d1", "d2"}) })
			Attribute("weights", MapOf(String, Int), func() { Default(map[string]int{"w": 1}) })
			Attribute("plain", ArrayOf(Int))
		})
		Result(func() {
			Attribute("labels", ArrayOf(String), func() { Default([]string{"r1"}) })
			Attribute("weights", MapOf(String, Int), func() { Default(map[string]int{"rw": 2}) })
		})
		HTTP(func() { POST("/coll") })
	})
	// two verbs on one catch-all pattern with different wildcard names
	Method("read", func() {
		Payload(func() {
			Attribute("path", String)
			Required("path")
		})
		HTTP(func() { GET("/files/{*path}") })
	})
	Method("remove", func() {
		Payload(func() {
			Attribute("target", String)
			Required("target")
		})
		HTTP(func() { DELETE("/files/{*target}") })
	})
	// tagged response with an explicit body that leaves the tag attribute out
	Method("make", func() {
		Result(func() {
			Attribute("outcome", String)
			Attribute("item", Item)
			Required("outcome")
		})
		HTTP(func() {
			POST("/make")
			Response(StatusCreated, func() {
				Tag("outcome", "created")
				Body("item")
			})
			Response(StatusOK)
		})
	})
})
