package design

import . "goa.design/goa/v3/dsl"

var _ = API("c11", func() {})

// an error whose response has no body: every attribute is an optional,
// unvalidated header of a non-string type
var Throttled = Type("Throttled", func() {
	Attribute("retry_after", UInt)
	Attribute("fatal", Boolean)
})

// two unions of one service that share a member user type
var Card = Type("Card", func() {
	Attribute("number", String)
	Required("number")
})
var Wire = Type("Wire", func() {
	Attribute("iban", String)
	Required("iban")
})
var Voucher = Type("Voucher", func() {
	Attribute("code", String)
	Required("code")
})
var Order = Type("Order", func() {
	Attribute("id", String)
	OneOf("payment", func() {
		Attribute("card", Card)
		Attribute("wire", Wire)
	})
	Required("id")
})
var Refund = Type("Refund", func() {
	Attribute("id", String)
	OneOf("target", func() {
		Attribute("card", Card)
		Attribute("voucher", Voucher)
	})
	Required("id")
})

var _ = Service("shop", func() {
	Method("get", func() {
		Payload(func() {
			Attribute("id", String)
			Required("id")
		})
		Result(String)
		Error("throttled", Throttled)
		HTTP(func() {
			GET("/get/{id}")
			Response(StatusOK)
			Response("throttled", StatusTooManyRequests, func() {
				Header("retry_after:Retry-After")
				Header("fatal:X-Fatal")
			})
		})
	})
	Method("order", func() {
		Payload(Order)
		Result(Order)
		HTTP(func() {
			POST("/order")
			Response(StatusOK)
		})
	})
	Method("refund", func() {
		Payload(Refund)
		Result(Refund)
		HTTP(func() {
			POST("/refund")
			Response(StatusOK)
		})
	})
})
