//go:build verif

package vh

import (
	"context"
	"net/http"

	goahttp "goa.design/goa/v3/http"
	client "vdesign/gen/http/svc/client"
	svc "vdesign/gen/svc"
)

// VerifC02_a6_mixed: service-level path parameter, header and query
// parameter; UInt, Float32, Bytes, nested arrays in the body; an array of
// UInt32 carried in a header. One group is varied at a time.
func VerifC02_a6_mixed() {
	p := &svc.MixedPayload{Org: "o", Tenant: "t"}
	idsKind := 0
	switch nondetChoice("focus", 6) {
	case 5: // query array of a non-string primitive with a default
		idsKind = nondetChoice("ids", 3)
		switch idsKind {
		case 1:
			p.Ids = []int{nondetInt("i0")}
		case 2:
			p.Ids = []int{nondetInt("i0"), nondetInt("i1")}
		}
	case 0: // inherited locations
		p.Org = nondetString("org", 1)
		verifAssume(p.Org != "/" && p.Org != "." && visible(p.Org))
		p.Tenant = nondetString("tenant", 1)
		verifAssume(visible(p.Tenant))
		if nondetBool("ver-set") {
			v := nondetUint("ver")
			p.Ver = &v
		}
	case 1: // body scalars
		if nondetBool("ratio-set") {
			f := a6Float32("ratio")
			p.Ratio = &f
		}
		if nondetBool("label-set") {
			l := nondetStringUpTo("label", deep(1))
			p.Label = &l
		}
	case 2: // bytes
		switch nondetChoice("blob", 3) {
		case 1:
			p.Blob = []byte{nondetByte("b0")}
		case 2:
			p.Blob = []byte{nondetByte("b0"), nondetByte("b1")}
		}
	case 3: // nested arrays
		switch nondetChoice("grid", 3) {
		case 1:
			p.Grid = [][]int{{nondetInt("g00")}}
		case 2:
			p.Grid = [][]int{{nondetInt("g00"), nondetInt("g01")}, {nondetInt("g10")}}
		}
	case 4: // array in a header
		switch nondetChoice("nums", 3) {
		case 1:
			p.Nums = []uint32{nondetUint32("n0")}
		case 2:
			p.Nums = []uint32{nondetUint32("n0"), nondetUint32("n1")}
		}
	}
	c := client.NewClient("http", "example.com", nil, nil, nil, false)
	req, err := c.BuildMixedRequest(context.Background(), p)
	verifAssert("mixed:request-built", err == nil)
	if err != nil {
		return
	}
	var sent any
	verifAssert("mixed:request-encoded", client.EncodeMixedRequest(func(*http.Request) goahttp.Encoder {
		return stubEncoder{func(b any) error { sent = b; return nil }}
	})(req, p) == nil)
	x := a6Serve(req, sent, &svc.MixedResult{Kind: "other"})
	verifAssert("mixed:reaches-the-method", x.got != nil)
	got := x.got
	if got == nil {
		return
	}
	verifAssert("mixed:service-level-path-parameter", got.Org == p.Org)
	verifAssert("mixed:service-level-header", got.Tenant == p.Tenant)
	verifAssert("mixed:service-level-query-parameter", (got.Ver == nil) == (p.Ver == nil) && (got.Ver == nil || *got.Ver == *p.Ver))
	verifAssert("mixed:float32", (got.Ratio == nil) == (p.Ratio == nil) && (got.Ratio == nil || *got.Ratio == *p.Ratio))
	verifAssert("mixed:label", (got.Label == nil) == (p.Label == nil) && (got.Label == nil || *got.Label == *p.Label))
	verifAssert("mixed:bytes", len(got.Blob) == len(p.Blob))
	for i := range p.Blob {
		if i < len(got.Blob) {
			verifAssert("mixed:bytes-elem", got.Blob[i] == p.Blob[i])
		}
	}
	verifAssert("mixed:grid-rows", len(got.Grid) == len(p.Grid))
	for i := range p.Grid {
		if i < len(got.Grid) {
			verifAssert("mixed:grid-row-length", len(got.Grid[i]) == len(p.Grid[i]))
			for j := range p.Grid[i] {
				if j < len(got.Grid[i]) {
					verifAssert("mixed:grid-cell", got.Grid[i][j] == p.Grid[i][j])
				}
			}
		}
	}
	if idsKind == 0 {
		verifAssert("mixed:unset-query-array-arrives-as-default", len(got.Ids) == 2 && got.Ids[0] == 1 && got.Ids[1] == 2)
	} else {
		verifAssert("mixed:query-array", len(got.Ids) == len(p.Ids) && got.Ids[0] == p.Ids[0] && (len(p.Ids) < 2 || got.Ids[1] == p.Ids[1]))
	}
	verifAssert("mixed:header-array-length", len(got.Nums) == len(p.Nums))
	for i := range p.Nums {
		if i < len(got.Nums) {
			verifAssert("mixed:header-array-elem", got.Nums[i] == p.Nums[i])
		}
	}
}

// VerifC02_a6_login: the service-level query parameter "ver" is defined with a
// default and a maximum here, and as a plain optional attribute in "mixed".
func VerifC02_a6_login() {
	p := &svc.LoginPayload{Org: "o", Tenant: nondetString("tenant", 1), Ver: 7}
	verifAssume(visible(p.Tenant))
	verSet := nondetBool("ver-set")
	if verSet {
		p.Ver = nondetUint("ver")
		verifAssume(p.Ver <= 100 && p.Ver != 0)
	}
	c := client.NewClient("http", "example.com", nil, nil, nil, false)
	req, err := c.BuildLoginRequest(context.Background(), p)
	verifAssert("login:request-built", err == nil)
	if err != nil {
		return
	}
	verifAssert("login:request-encoded", client.EncodeLoginRequest(func(*http.Request) goahttp.Encoder {
		return stubEncoder{func(b any) error { return nil }}
	})(req, p) == nil)
	x := a6ServeBoth(req, nil, nil, &svc.LoginResult{Session: "s", User: "u"})
	verifAssert("login:reaches-the-method", x.gotLogin != nil)
	if x.gotLogin == nil {
		return
	}
	verifAssert("login:service-level-header", x.gotLogin.Tenant == p.Tenant)
	verifAssert("login:service-level-query-parameter-with-default", x.gotLogin.Ver == p.Ver)
}
