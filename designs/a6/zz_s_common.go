//go:build verif

package vh

import (
	"context"
	"io"
	"net/http"
	"net/url"
	"strings"

	goahttp "goa.design/goa/v3/http"
	server "vdesign/gen/http/svc/server"
	svc "vdesign/gen/svc"
)

type a6Exchange struct {
	got      *svc.MixedPayload
	gotLogin *svc.LoginPayload
	w   *recWriter
	err error
}

func a6Serve(req *http.Request, sent any, res *svc.MixedResult) *a6Exchange {
	return a6ServeBoth(req, sent, res, nil)
}

func a6ServeBoth(req *http.Request, sent any, res *svc.MixedResult, loginRes *svc.LoginResult) *a6Exchange {
	x := &a6Exchange{}
	target := req.URL.RequestURI()
	u, perr := url.ParseRequestURI(target)
	if perr != nil {
		x.err = perr
		return x
	}
	sreq := &http.Request{Method: req.Method, URL: u, Header: req.Header.Clone(), RequestURI: target}
	eps := &svc.Endpoints{
		Mixed: func(ctx context.Context, v any) (any, error) { x.got = v.(*svc.MixedPayload); return res, nil },
		Login: func(ctx context.Context, v any) (any, error) { x.gotLogin = v.(*svc.LoginPayload); return loginRes, nil },
	}
	mux := goahttp.NewMuxer()
	dec := func(*http.Request) goahttp.Decoder {
		return stubDecoder{func(v any) error { return verifJSONCopy(v, sent) }}
	}
	server.Mount(mux, server.New(eps, mux, dec, recEncoder(), nil, nil))
	x.w = newRecWriter()
	mux.ServeHTTP(x.w, sreq)
	return x
}

func a6Response(x *a6Exchange) *http.Response {
	return &http.Response{StatusCode: x.w.status, Header: x.w.h, Body: io.NopCloser(strings.NewReader(""))}
}

func a6Float32(id string) float32 {
	f := float32(nondetFloat64(id))
	verifAssume(f == f && f-f == 0) // finite: JSON has no NaN/Inf
	return f
}
