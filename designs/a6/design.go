package design

import . "goa.design/goa/v3/dsl"

var _ = API("a6", func() {})

// service-level path parameter, header and query parameter inherited by the
// method; UInt/Float32/Bytes attributes; nested arrays; an array carried in a
// header; two success responses with their
// own headers
var _ = Service("svc", func() {
	HTTP(func() {
		Path("/orgs/{org}")
		Header("tenant:X-Tenant")
		Param("ver:v")
	})
	Method("mixed", func() {
		Payload(func() {
			Attribute("org", String)
			Attribute("tenant", String)
			Attribute("ver", UInt)
			Attribute("ratio", Float32)
			Attribute("blob", Bytes)
			Attribute("grid", ArrayOf(ArrayOf(Int)))
			Attribute("nums", ArrayOf(UInt32))
			Attribute("label", String)
			Attribute("ids", ArrayOf(Int), func() { Default([]int{1, 2}) })
			Required("org", "tenant")
		})
		Result(func() {
			Attribute("kind", String)
			Attribute("etags", ArrayOf(String))
			Attribute("count", UInt64)
			Attribute("ratio", Float32)
			Attribute("blob", Bytes)
			Required("kind")
		})
		HTTP(func() {
			POST("/mixed")
			Header("nums:X-Nums")
			Param("ids")
			Body(func() {
				Attribute("ratio")
				Attribute("blob")
				Attribute("grid")
				Attribute("label")
			})
			Response(StatusOK, func() {
				Tag("kind", "full")
				Header("etags:X-Etags")
				Header("count:X-Count")
			})
			Response(StatusAccepted, func() {
				Header("count:X-Pending")
			})
		})
	})
	// several result attributes carried in response cookies (one optional)
	Method("login", func() {
		Payload(func() {
			Attribute("org", String)
			Attribute("tenant", String)
			// same service-level parameter as in "mixed", defined differently
			Attribute("ver", UInt, func() {
				Default(7)
				Maximum(100)
			})
			Required("org", "tenant")
		})
		Result(func() {
			Attribute("session", String)
			Attribute("csrf", String)
			Attribute("user", String)
			Attribute("visits", Int)
			Required("session", "user")
		})
		HTTP(func() {
			POST("/login")
			Response(StatusOK, func() {
				Cookie("session:SID")
				Cookie("csrf:XSRF-TOKEN")
				Cookie("visits:n")
			})
		})
	})
})
