//go:build verif

package vh

import (
	"context"
	"net/http"

	goahttp "goa.design/goa/v3/http"
	client "vdesign/gen/http/svc/client"
	svc "vdesign/gen/svc"
)

// VerifC03_a6_mixed_result: two success responses, each with its own headers
// (an array header and a UInt64 header on 200, a differently named UInt64
// header on 202); Float32 and Bytes in the body.
func VerifC03_a6_mixed_result() {
	kinds := []string{"full", "other"}
	res := &svc.MixedResult{Kind: kinds[nondetChoice("kind", 2)]}
	countSet := nondetBool("count-set")
	if countSet {
		v := nondetUint64("count")
		res.Count = &v
	}
	switch nondetChoice("etags", 3) {
	case 1:
		res.Etags = []string{"e" + nondetString("e0", 1)}
	case 2:
		res.Etags = []string{"e" + nondetString("e0", 1), "f" + nondetString("e1", 1)}
	}
	for _, e := range res.Etags {
		verifAssume(visible(e))
		for i := 0; i < len(e); i++ {
			verifAssume(e[i] != ',')
		}
	}
	if nondetBool("ratio-set") {
		f := a6Float32("ratio")
		res.Ratio = &f
	}
	if nondetBool("blob-set") {
		res.Blob = []byte{nondetByte("b0")}
	}
	want := *res
	c := client.NewClient("http", "example.com", nil, nil, nil, false)
	p := &svc.MixedPayload{Org: "o", Tenant: "t"}
	req, _ := c.BuildMixedRequest(context.Background(), p)
	var sent any
	client.EncodeMixedRequest(func(*http.Request) goahttp.Encoder { return stubEncoder{func(b any) error { sent = b; return nil }} })(req, p)
	full := want.Kind == "full"
	if full && !countSet {
		// known: the tagged response dereferences the optional header attribute
		verifMode("expect-possible-panic")
	}
	var x *a6Exchange
	panicked := false
	func() {
		defer func() {
			if r := recover(); r != nil {
				panicked = true
			}
		}()
		x = a6Serve(req, sent, res)
	}()
	if panicked {
		verifAssert("no-panic[optional-header-under-tagged-response]", !(full && !countSet))
		verifAssert("no-panic-on-any-result", full && !countSet)
		return
	}
	verifAssert("mixed-result:served", x.got != nil && x.w.nHeaders == 1 && len(x.w.encoded) == 1)
	if len(x.w.encoded) != 1 {
		return
	}
	if full {
		verifAssert("mixed-result:status-by-tag", x.w.status == http.StatusOK)
		verifAssert("mixed-result:no-header-of-the-other-response", x.w.h.Get("X-Pending") == "")
	} else {
		verifAssert("mixed-result:status-default", x.w.status == http.StatusAccepted)
		verifAssert("mixed-result:no-header-of-the-other-response", x.w.h.Get("X-Count") == "" && x.w.h.Get("X-Etags") == "")
	}
	out, err := client.DecodeMixedResponse(func(*http.Response) goahttp.Decoder {
		return stubDecoder{func(v any) error { return verifJSONCopy(v, x.w.encoded[0]) }}
	}, false)(a6Response(x))
	verifAssert("mixed-result:decoded", err == nil)
	r, ok := out.(*svc.MixedResult)
	verifAssert("mixed-result:type", ok && r != nil)
	if !ok || r == nil {
		return
	}
	verifAssert("mixed-result:kind", r.Kind == want.Kind)
	verifAssert("mixed-result:count-header", (r.Count == nil) == (want.Count == nil) && (r.Count == nil || *r.Count == *want.Count))
	verifAssert("mixed-result:float32", (r.Ratio == nil) == (want.Ratio == nil) && (r.Ratio == nil || *r.Ratio == *want.Ratio))
	verifAssert("mixed-result:bytes", len(r.Blob) == len(want.Blob) && (len(r.Blob) == 0 || r.Blob[0] == want.Blob[0]))
	if full {
		if len(want.Etags) != 1 {
			// known: the server joins the elements into one header value
			// ("a, b"; "" for none), the client takes the header values as they are
			verifAssert("mixed-result:array-header-length[string-array-header-joined-not-split]", len(r.Etags) == len(want.Etags))
		} else {
			verifAssert("mixed-result:array-header-length", len(r.Etags) == len(want.Etags))
			verifAssert("mixed-result:array-header-elem", len(r.Etags) == 1 && r.Etags[0] == want.Etags[0])
		}
	} else {
		// etags travels in the body of the 202 response
		verifAssert("mixed-result:array-body-length", len(r.Etags) == len(want.Etags))
	}
}

// VerifC03_a6_login_cookies: two result attributes in response cookies (the
// second optional), one in the body.
func VerifC03_a6_login_cookies() {
	alnum := func(s string) bool {
		for i := 0; i < len(s); i++ {
			c := s[i]
			if c < '0' || (c > '9' && c < 'a') || c > 'z' {
				return false
			}
		}
		return s != ""
	}
	res := &svc.LoginResult{Session: nondetString("session", 1), User: nondetStringUpTo("user", deep(1))}
	verifAssume(alnum(res.Session))
	if nondetBool("csrf-set") {
		c := nondetString("csrf", 1)
		verifAssume(alnum(c))
		res.Csrf = &c
	}
	if nondetBool("visits-set") {
		v := nondetInt("visits")
		res.Visits = &v
	}
	want := *res
	c := client.NewClient("http", "example.com", nil, nil, nil, false)
	p := &svc.LoginPayload{Org: "o", Tenant: "t"}
	req, err := c.BuildLoginRequest(context.Background(), p)
	verifAssert("login:request-built", err == nil)
	if err != nil {
		return
	}
	verifAssert("login:request-encoded", client.EncodeLoginRequest(func(*http.Request) goahttp.Encoder { return stubEncoder{func(b any) error { return nil }} })(req, p) == nil)
	x := a6ServeBoth(req, nil, nil, res)
	verifAssert("login:served", x.gotLogin != nil && x.w.nHeaders == 1 && x.w.status == http.StatusOK && len(x.w.encoded) == 1)
	if len(x.w.encoded) != 1 {
		return
	}
	resp := a6Response(x)
	seen := map[string]string{}
	for _, ck := range resp.Cookies() {
		seen[ck.Name] = ck.Value
	}
	verifAssert("login:both-cookies-on-the-wire", seen["SID"] == want.Session && (want.Csrf == nil || seen["XSRF-TOKEN"] == *want.Csrf))
	out, derr := client.DecodeLoginResponse(func(*http.Response) goahttp.Decoder {
		return stubDecoder{func(v any) error { return verifJSONCopy(v, x.w.encoded[0]) }}
	}, false)(resp)
	verifAssert("login:decoded", derr == nil)
	r, ok := out.(*svc.LoginResult)
	verifAssert("login:type", ok && r != nil)
	if !ok || r == nil {
		return
	}
	verifAssert("login:cookie-attributes", r.Session == want.Session && (r.Csrf == nil) == (want.Csrf == nil) && (r.Csrf == nil || *r.Csrf == *want.Csrf))
	verifAssert("login:integer-cookie", (r.Visits == nil) == (want.Visits == nil) && (r.Visits == nil || *r.Visits == *want.Visits))
	verifAssert("login:body-attribute", r.User == want.User)
}
