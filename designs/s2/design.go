package design

import . "goa.design/goa/v3/dsl"

var JWTAuth = JWTSecurity("jwt", func() { Scope("api:read", "read") })
var OAuth = OAuth2Security("oauth2", func() {
	ClientCredentialsFlow("/token", "/refresh")
	Scope("api:write", "write")
})
var KeyAuth = APIKeySecurity("api_key")

// API-level requirement inherited by services and methods without their own
var _ = API("s2", func() {
	Security(KeyAuth)
})

var _ = Service("plain", func() {
	Method("inherits", func() {
		Payload(func() {
			APIKey("api_key", "key", String)
			Attribute("x", Int)
		})
		HTTP(func() {
			GET("/inherits")
			Header("key:X-Api-Key")
			Param("x")
		})
	})
})

var _ = Service("own", func() {
	Security(JWTAuth, func() { Scope("api:read") })
	Method("bearer", func() {
		Payload(func() {
			Token("token", String)
			Required("token")
		})
		HTTP(func() { GET("/bearer") })
	})
	Method("oauth", func() {
		Security(OAuth, func() { Scope("api:write") })
		Payload(func() {
			AccessToken("at", String)
		})
		HTTP(func() {
			GET("/oauth")
			Param("at:access_token")
		})
	})
	Method("create", func() {
		Payload(func() {
			Token("token", String)
			Attribute("name", String)
			Attribute("age", Int)
			Required("token", "name")
		})
		HTTP(func() {
			POST("/create")
			Param("age")
			Body("name")
		})
	})
	Method("create2", func() {
		Payload(func() {
			Token("token", String)
			Attribute("name", String)
			Attribute("age", Int)
			Required("token", "name")
		})
		HTTP(func() {
			POST("/create2")
			Body(func() {
				Attribute("name")
				Attribute("age")
			})
		})
	})
	Method("public", func() {
		NoSecurity()
		HTTP(func() { GET("/public") })
	})
})
