//go:build verif

package vh

import (
	"context"
	"errors"
	"net/http"
	"net/url"
	"strings"

	goahttp "goa.design/goa/v3/http"
	"goa.design/goa/v3/security"
	ownc "vdesign/gen/http/own/client"
	owns "vdesign/gen/http/own/server"
	plainc "vdesign/gen/http/plain/client"
	plains "vdesign/gen/http/plain/server"
	own "vdesign/gen/own"
	plain "vdesign/gen/plain"
)

var (
	errKey2   = errors.New("api key refused")
	errJWT2   = errors.New("jwt refused")
	errOAuth2 = errors.New("oauth2 refused")
)

type plainSvc struct {
	ok    bool
	calls int
	key   string
	sch   *security.APIKeyScheme
	ran   int
}

func (s *plainSvc) APIKeyAuth(ctx context.Context, key string, sc *security.APIKeyScheme) (context.Context, error) {
	s.calls++
	s.key, s.sch = key, sc
	if !s.ok {
		return ctx, errKey2
	}
	return ctx, nil
}
func (s *plainSvc) Inherits(context.Context, *plain.InheritsPayload) error { s.ran++; return nil }

type ownSvc struct {
	jwtOK, oauthOK                      bool
	jwtCalls, oauthCalls                int
	token, at                           string
	jwtSch                              *security.JWTScheme
	oauthSch                            *security.OAuth2Scheme
	bearerRan, oauthRan, publicRan      int
	createRan                           int
	createName                          string
}

func (s *ownSvc) JWTAuth(ctx context.Context, token string, sc *security.JWTScheme) (context.Context, error) {
	s.jwtCalls++
	s.token, s.jwtSch = token, sc
	if !s.jwtOK {
		return ctx, errJWT2
	}
	return ctx, nil
}
func (s *ownSvc) OAuth2Auth(ctx context.Context, token string, sc *security.OAuth2Scheme) (context.Context, error) {
	s.oauthCalls++
	s.at, s.oauthSch = token, sc
	if !s.oauthOK {
		return ctx, errOAuth2
	}
	return ctx, nil
}
func (s *ownSvc) Bearer(context.Context, *own.BearerPayload) error { s.bearerRan++; return nil }
func (s *ownSvc) Oauth(context.Context, *own.OauthPayload) error   { s.oauthRan++; return nil }
func (s *ownSvc) Public(context.Context) error                     { s.publicRan++; return nil }
func (s *ownSvc) Create(ctx context.Context, p *own.CreatePayload) error {
	s.createRan++
	s.createName = p.Name
	return nil
}
func (s *ownSvc) Create2(ctx context.Context, p *own.Create2Payload) error {
	s.createRan++
	s.createName = p.Name
	return nil
}

func wire(req *http.Request) *http.Request {
	target := req.URL.RequestURI()
	u, _ := url.ParseRequestURI(target)
	return &http.Request{Method: req.Method, URL: u, Header: req.Header.Clone(), RequestURI: target}
}

func noBody(*http.Request) goahttp.Decoder { return stubDecoder{func(any) error { return nil }} }
func noEnc(*http.Request) goahttp.Encoder  { return stubEncoder{func(any) error { return nil }} }

// VerifC06_s2_api_level: a requirement declared on the API applies to a method
// of a service that declares none; the key travels in the designed header.
func VerifC06_s2_api_level() {
	s := &plainSvc{ok: nondetBool("key-ok")}
	p := &plain.InheritsPayload{}
	var key string
	if nondetBool("key-set") {
		key = nondetString("key", 2)
		verifAssume(visible(key))
		p.Key = &key
	}
	c := plainc.NewClient("http", "example.com", nil, nil, nil, false)
	req, err := c.BuildInheritsRequest(context.Background(), p)
	verifAssert("api-level:request-built", err == nil)
	if err != nil {
		return
	}
	verifAssert("api-level:request-encoded", plainc.EncodeInheritsRequest(noEnc)(req, p) == nil)
	mux := goahttp.NewMuxer()
	srv := plains.New(plain.NewEndpoints(s), mux, noBody, recEncoder(), nil, nil)
	plains.Mount(mux, srv)
	w := newRecWriter()
	mux.ServeHTTP(w, wire(req))
	verifAssert("api-level:requirement-inherited", s.calls == 1 && (s.ran == 1) == s.ok)
	verifAssert("api-level:credential-from-designed-header", s.key == key)
	verifAssert("api-level:scheme", s.sch != nil && s.sch.Name == "api_key")
	if !s.ok {
		verifAssert("api-level:refused-request-answered-with-error", w.nHeaders == 1 && w.status >= 400)
	}
}

// VerifC06_s2_service_level: service-level JWT in the Authorization header
// (scheme prefix added by the client, removed by the server), method-level
// OAuth2 override with the token in the query string, NoSecurity method.
func VerifC06_s2_service_level() {
	s := &ownSvc{jwtOK: nondetBool("jwt-ok"), oauthOK: nondetBool("oauth-ok")}
	mux := goahttp.NewMuxer()
	srv := owns.New(own.NewEndpoints(s), mux, noBody, recEncoder(), nil, nil)
	owns.Mount(mux, srv)
	c := ownc.NewClient("http", "example.com", nil, nil, nil, false)
	w := newRecWriter()
	switch nondetChoice("method", 3) {
	case 0:
		token := nondetString("token", 1) + nondetStringUpTo("token-tail", deep(2))
		verifAssume(visible(token))
		p := &own.BearerPayload{Token: token}
		req, err := c.BuildBearerRequest(context.Background(), p)
		verifAssert("bearer:request-built", err == nil)
		if err != nil {
			return
		}
		verifAssert("bearer:request-encoded", ownc.EncodeBearerRequest(noEnc)(req, p) == nil)
		verifAssert("bearer:scheme-prefix-on-the-wire", strings.HasPrefix(req.Header.Get("Authorization"), "Bearer "))
		mux.ServeHTTP(w, wire(req))
		verifAssert("bearer:service-level-requirement", s.jwtCalls == 1 && s.oauthCalls == 0 && (s.bearerRan == 1) == s.jwtOK)
		verifAssert("bearer:token-without-prefix", s.token == token)
		verifAssert("bearer:scopes", s.jwtSch != nil && sameStrings2(s.jwtSch.RequiredScopes, "api:read"))
	case 1:
		p := &own.OauthPayload{}
		var at string
		if nondetBool("at-set") {
			at = nondetString("at", 2)
			p.At = &at
		}
		req, err := c.BuildOauthRequest(context.Background(), p)
		verifAssert("oauth:request-built", err == nil)
		if err != nil {
			return
		}
		verifAssert("oauth:request-encoded", ownc.EncodeOauthRequest(noEnc)(req, p) == nil)
		mux.ServeHTTP(w, wire(req))
		verifAssert("oauth:method-requirement-overrides-service", s.oauthCalls == 1 && s.jwtCalls == 0 && (s.oauthRan == 1) == s.oauthOK)
		verifAssert("oauth:access-token-from-query", s.at == at)
		verifAssert("oauth:scopes-and-flow", s.oauthSch != nil && sameStrings2(s.oauthSch.RequiredScopes, "api:write") && len(s.oauthSch.Flows) == 1 && s.oauthSch.Flows[0].TokenURL == "/token")
	default:
		req, err := c.BuildPublicRequest(context.Background(), nil)
		verifAssert("public:request-built", err == nil)
		if err != nil {
			return
		}
		mux.ServeHTTP(w, wire(req))
		verifAssert("public:no-callback", s.publicRan == 1 && s.jwtCalls == 0 && s.oauthCalls == 0)
	}
}

func sameStrings2(a []string, b ...string) bool {
	if len(a) != len(b) {
		return false
	}
	for i := range a {
		if a[i] != b[i] {
			return false
		}
	}
	return true
}

// VerifC06_s2_implicit_header_with_body: the token is mapped implicitly to
// the Authorization header while the body is given explicitly (one attribute,
// or an inline body listing the other attributes).
func VerifC06_s2_implicit_header_with_body() {
	s := &ownSvc{jwtOK: true}
	mux := goahttp.NewMuxer()
	var sent any
	dec := func(*http.Request) goahttp.Decoder {
		return stubDecoder{func(v any) error { return verifJSONCopy(v, sent) }}
	}
	enc := func(*http.Request) goahttp.Encoder { return stubEncoder{func(b any) error { sent = b; return nil }} }
	srv := owns.New(own.NewEndpoints(s), mux, dec, recEncoder(), nil, nil)
	owns.Mount(mux, srv)
	c := ownc.NewClient("http", "example.com", nil, nil, nil, false)
	token := nondetString("token", 1) + nondetStringUpTo("token-tail", deep(2))
	verifAssume(visible(token))
	name := nondetStringUpTo("name", deep(2))
	w := newRecWriter()
	inline := nondetBool("inline-body")
	if !inline {
		p := &own.CreatePayload{Token: token, Name: name}
		req, err := c.BuildCreateRequest(context.Background(), p)
		verifAssert("create:request-built", err == nil)
		if err != nil {
			return
		}
		verifAssert("create:request-encoded", ownc.EncodeCreateRequest(enc)(req, p) == nil)
		if nondetBool("standard-bearer-client") {
			// any HTTP client: RFC 6750 "Authorization: Bearer <token>"
			req.Header.Set("Authorization", "Bearer "+token)
		}
		mux.ServeHTTP(w, wire(req))
		verifAssert("create:callback-gets-the-token-without-prefix", s.jwtCalls == 1 && s.token == token)
		verifAssert("create:method-ran-with-body-attribute", s.createRan == 1 && s.createName == name)
		return
	}
	p := &own.Create2Payload{Token: token, Name: name}
	req, err := c.BuildCreate2Request(context.Background(), p)
	verifAssert("create2:request-built", err == nil)
	if err != nil {
		return
	}
	verifAssert("create2:request-encoded", ownc.EncodeCreate2Request(enc)(req, p) == nil)
	mux.ServeHTTP(w, wire(req))
	verifAssert("create2:callback-gets-the-token[implicit-token-with-inline-body]", s.jwtCalls == 1 && s.token == token)
}
