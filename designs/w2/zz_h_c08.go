//go:build verif

package vh

import (
	"context"
	"io"
	"net/http"
	"strings"

	goahttp "goa.design/goa/v3/http"
	client "vdesign/gen/http/svc/client"
	server "vdesign/gen/http/svc/server"
	svc "vdesign/gen/svc"
)

type viewSvc2 struct {
	res  *svc.Outer
	view string
}

func (s *viewSvc2) Dyn(context.Context) (*svc.Outer, string, error) { return s.res, s.view, nil }
func (s *viewSvc2) Coll(context.Context) (svc.OuterCollection, string, error) {
	return svc.OuterCollection{s.res}, s.view, nil
}
func (s *viewSvc2) Fixd(context.Context) (*svc.Outer, error)        { return s.res, nil }

// VerifC08_w2: nested attribute with a type-level view ("tiny") and a
// per-view override ("default" inside the parent's default view); a dynamic
// and a fixed-view method on the same result type.
func VerifC08_w2() {
	want := &svc.Outer{A: nondetStringUpTo("a", deep(1))}
	if nondetBool("b-set") {
		want.B = &svc.Inner{C: nondetStringUpTo("c", deep(1)), D: nondetInt("d")}
	}
	dynamic := nondetBool("dynamic-method")
	view := "default"
	if dynamic && nondetBool("tiny") {
		view = "tiny"
	}
	eps := svc.NewEndpoints(&viewSvc2{res: want, view: view})
	srv := server.New(eps, &stubMux{}, func(*http.Request) goahttp.Decoder { return stubDecoder{func(any) error { return nil }} }, recEncoder(), nil, nil)
	w := newRecWriter()
	if dynamic {
		srv.Dyn.ServeHTTP(w, newRequest("GET", nil))
	} else {
		srv.Fixd.ServeHTTP(w, newRequest("GET", nil))
	}
	verifAssert("w2:one-response", w.nHeaders == 1 && w.status == http.StatusOK && len(w.encoded) == 1)
	if len(w.encoded) != 1 {
		return
	}
	op := "GET /fixd"
	if dynamic {
		op = "GET /dyn"
	}
	conforms := verifSchemaAccepts(openapiDoc, op, map[string]any{"response:200": w.encoded[0]})
	if view == "tiny" {
		verifAssert("openapi:response-conforms[run-time-view-other-than-default]", conforms)
	} else {
		verifAssert("openapi:response-conforms", conforms)
	}
	// wire document, looked at through its JSON member names only: under the
	// parent's default view the nested value is rendered with the overriding
	// view (c and d), under tiny with the type-level view (d only)
	var doc struct {
		A *string `json:"a"`
		B *struct {
			C *string `json:"c"`
			D *int    `json:"d"`
		} `json:"b"`
	}
	verifAssert("w2:wire-document", verifJSONCopy(&doc, w.encoded[0]) == nil)
	verifAssert("w2:wire:a", doc.A != nil && *doc.A == want.A)
	verifAssert("w2:wire:b-presence", (doc.B != nil) == (want.B != nil))
	if doc.B != nil && want.B != nil {
		verifAssert("w2:wire:b.d", doc.B.D != nil && *doc.B.D == want.B.D)
		if view == "default" {
			verifAssert("w2:wire:b.c-under-overriding-view", doc.B.C != nil && *doc.B.C == want.B.C)
		} else {
			verifAssert("w2:wire:b.c-absent-under-tiny", doc.B.C == nil)
		}
	}
	resp := &http.Response{StatusCode: w.status, Header: w.h, Body: io.NopCloser(strings.NewReader(""))}
	dec := func(*http.Response) goahttp.Decoder {
		return stubDecoder{func(v any) error { return verifJSONCopy(v, w.encoded[0]) }}
	}
	var out any
	var err error
	if dynamic {
		out, err = client.DecodeDynResponse(dec, false)(resp)
	} else {
		out, err = client.DecodeFixdResponse(dec, false)(resp)
	}
	verifAssert("w2:client-accepts", err == nil)
	if err != nil {
		return
	}
	r, ok := out.(*svc.Outer)
	verifAssert("w2:client-result", ok && r != nil && r.A == want.A && (r.B == nil) == (want.B == nil))
	if ok && r != nil && r.B != nil && want.B != nil {
		verifAssert("w2:client:b.d", r.B.D == want.B.D)
		if view == "default" {
			verifAssert("w2:client:b.c", r.B.C == want.B.C)
		} else {
			verifAssert("w2:client:b.c-unset-under-tiny", r.B.C == "")
		}
	}
}

// VerifC08_w2_coll: a collection declared with a DSL that only documents it
// still offers the views of its element type.
func VerifC08_w2_coll() {
	want := &svc.Outer{A: nondetStringUpTo("a", deep(1))}
	if nondetBool("b-set") {
		want.B = &svc.Inner{C: nondetStringUpTo("c", deep(1)), D: nondetInt("d")}
	}
	view := "default"
	if nondetBool("tiny") {
		view = "tiny"
	}
	eps := svc.NewEndpoints(&viewSvc2{res: want, view: view})
	srv := server.New(eps, &stubMux{}, func(*http.Request) goahttp.Decoder { return stubDecoder{func(any) error { return nil }} }, recEncoder(), nil, nil)
	w := newRecWriter()
	srv.Coll.ServeHTTP(w, newRequest("GET", nil))
	verifAssert("w2coll:one-response", w.nHeaders == 1 && w.status == http.StatusOK && len(w.encoded) == 1)
	verifAssert("w2coll:view-header", w.h.Get("goa-view") == view)
	if len(w.encoded) != 1 {
		return
	}
	cconf := verifSchemaAccepts(openapiDoc, "GET /coll", map[string]any{"response:200": w.encoded[0]})
	if view == "tiny" {
		verifAssert("openapi:response-conforms[run-time-view-other-than-default]", cconf)
	} else {
		verifAssert("openapi:response-conforms", cconf)
	}
	resp := &http.Response{StatusCode: w.status, Header: w.h, Body: io.NopCloser(strings.NewReader(""))}
	out, err := client.DecodeCollResponse(func(*http.Response) goahttp.Decoder {
		return stubDecoder{func(v any) error { return verifJSONCopy(v, w.encoded[0]) }}
	}, false)(resp)
	verifAssert("w2coll:client-accepts", err == nil)
	if err != nil {
		return
	}
	col, ok := out.(svc.OuterCollection)
	verifAssert("w2coll:one-element", ok && len(col) == 1 && col[0] != nil)
	if !ok || len(col) != 1 || col[0] == nil {
		return
	}
	r := col[0]
	verifAssert("w2coll:a", r.A == want.A && (r.B == nil) == (want.B == nil))
	if r.B != nil && want.B != nil {
		verifAssert("w2coll:b.d", r.B.D == want.B.D)
		if view == "default" {
			verifAssert("w2coll:b.c-under-overriding-view", r.B.C == want.B.C)
		} else {
			verifAssert("w2coll:b.c-unset-under-tiny", r.B.C == "")
		}
	}
}
