package design

import . "goa.design/goa/v3/dsl"

var _ = API("w2", func() {})

var Inner = ResultType("application/vnd.inner2", func() {
	TypeName("Inner")
	Attributes(func() {
		Attribute("c", String)
		Attribute("d", Int)
		Required("c", "d")
	})
	View("default", func() {
		Attribute("c")
		Attribute("d")
	})
	View("tiny", func() {
		Attribute("d")
	})
})

var Outer = ResultType("application/vnd.outer2", func() {
	TypeName("Outer")
	Attributes(func() {
		Attribute("a", String)
		Attribute("b", Inner, func() { View("tiny") })
		Required("a")
	})
	View("default", func() {
		Attribute("a")
		Attribute("b", func() { View("default") })
	})
	View("tiny", func() {
		Attribute("a")
		Attribute("b")
	})
})

var _ = Service("svc", func() {
	Method("dyn", func() {
		Result(Outer)
		HTTP(func() { GET("/dyn") })
	})
	// collection built with a DSL that neither defines nor selects a view
	Method("coll", func() {
		Result(CollectionOf(Outer, func() { Description("all of them") }))
		HTTP(func() { GET("/coll") })
	})
	Method("fixd", func() {
		Result(Outer, func() { View("default") })
		HTTP(func() { GET("/fixd") })
	})
})
