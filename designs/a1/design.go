package design

import . "goa.design/goa/v3/dsl"

var _ = API("a1", func() {})

var Item = Type("Item", func() {
	Attribute("n", Int)
	Attribute("s", String)
	Required("n")
})

var _ = Service("svc", func() {
	Method("put", func() {
		Payload(func() {
			Attribute("id", String)      // path
			Attribute("ver", Int)        // path
			Attribute("qi", Int64)       // query, optional
			Attribute("qs", String)      // query, required
			Attribute("qb", Boolean)     // query, optional
			Attribute("qd", Int, func() { Default(7) }) // query with default
			Attribute("hx", String)      // header
			Attribute("hu", UInt32)      // header
			Attribute("ck", String)      // cookie
			Attribute("name", String)    // body
			Attribute("cnt", Int, func() { Default(3) }) // body with default
			Attribute("f", Float64)      // body
			Attribute("tags", ArrayOf(String))
			Attribute("item", Item)
			Attribute("m", MapOf(String, Int))
			Required("id", "ver", "qs", "name")
		})
		Result(func() {
			Attribute("rid", String)
			Attribute("rc", Int, func() { Default(5) })
			Attribute("rh", String)
			Attribute("rn", Int64)
			Attribute("item", Item)
			Attribute("list", ArrayOf(Int))
			Required("rid")
		})
		HTTP(func() {
			PUT("/items/{id}/v/{ver}")
			Param("qi")
			Param("qs")
			Param("qb")
			Param("qd")
			Header("hx:X-Hx")
			Header("hu:X-Hu")
			Cookie("ck:sid")
			Response(StatusOK, func() {
				Header("rh:X-Rh")
				Header("rn:X-Rn")
			})
		})
	})
})
