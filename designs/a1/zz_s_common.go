//go:build verif

package vh

import (
	"context"
	"net/http"
	"net/url"

	goahttp "goa.design/goa/v3/http"
	client "vdesign/gen/http/svc/client"
	server "vdesign/gen/http/svc/server"
	svc "vdesign/gen/svc"
)

// a1RoundTrip sends p through the generated client and the generated server
// mounted on the real goa muxer; returns what the service method received.
func a1RoundTrip(p *svc.PutPayload, result *svc.PutResult) (got *svc.PutPayload, w *recWriter, encErr error) {
	c := client.NewClient("http", "example.com", nil, nil, nil, false)
	req, err := c.BuildPutRequest(context.Background(), p)
	if err != nil {
		return nil, nil, err
	}
	var sent any
	encode := client.EncodePutRequest(func(*http.Request) goahttp.Encoder {
		return stubEncoder{func(v any) error { sent = v; return nil }}
	})
	if err := encode(req, p); err != nil {
		return nil, nil, err
	}
	// ---- the wire: request line, headers, cookies, body
	target := req.URL.RequestURI()
	u, perr := url.ParseRequestURI(target)
	if perr != nil {
		return nil, nil, perr
	}
	sreq := &http.Request{Method: req.Method, URL: u, Header: req.Header.Clone(), RequestURI: target}
	verifMoveCookies(sreq, req)
	// ---- the generated server
	eps := &svc.Endpoints{Put: func(ctx context.Context, v any) (any, error) {
		got = v.(*svc.PutPayload)
		return result, nil
	}}
	mux := goahttp.NewMuxer()
	dec := func(*http.Request) goahttp.Decoder {
		return stubDecoder{func(v any) error { return verifJSONCopy(v, sent) }}
	}
	srv := server.New(eps, mux, dec, recEncoder(), nil, nil)
	server.Mount(mux, srv)
	w = newRecWriter()
	mux.ServeHTTP(w, sreq)
	return got, w, nil
}

