//go:build verif

package vh

import (
	"net/http"
	"strings"

	svc "vdesign/gen/svc"
)

// VerifC02_a1_put: every attribute arrives in its designed location with its value.
func VerifC02_a1_put() {
	p := &svc.PutPayload{ID: "i", Ver: 1, Qs: "s", Qd: 7, Name: "n", Cnt: 3}
	slashInID, zeroQd := false, false
	switch nondetChoice("focus", 4) {
	case 0: // path parameters
		if nondetBool("id-percent-template") {
			p.ID = "%" + nondetString("id-hex", 2) // %XX look-alikes must arrive as typed
		} else {
			p.ID = nondetString("id", 1) + nondetStringUpTo("id-tail", 1)
		}
		p.Ver = nondetInt("ver")
		slashInID = strings.Contains(p.ID, "/")
	case 1: // query string
		if nondetBool("qi-set") {
			v := nondetInt64("qi")
			p.Qi = &v
		}
		p.Qs = nondetString("qs", 2)
		if nondetBool("qb-set") {
			v := nondetBool("qb")
			p.Qb = &v
		}
		p.Qd = nondetInt("qd")
		zeroQd = p.Qd == 0
	case 2: // headers and cookie
		if nondetBool("hx-set") {
			v := nondetString("hx", 2)
			verifAssume(visible(v))
			p.Hx = &v
		}
		if nondetBool("hu-set") {
			v := nondetUint32("hu")
			p.Hu = &v
		}
		if nondetBool("ck-set") {
			v := nondetString("ck", 2)
			verifAssume(visible(v))
			p.Ck = &v
		}
	case 3: // body
		p.Name = nondetStringUpTo("name", 2)
		p.Cnt = nondetInt("cnt")
		if nondetBool("f-set") {
			v := jsonFloat("f")
			p.F = &v
		}
		switch nondetChoice("tags-len", 3) {
		case 1:
			p.Tags = []string{nondetStringUpTo("tag0", 1)}
		case 2:
			p.Tags = []string{nondetStringUpTo("tag0", 1), nondetStringUpTo("tag1", 1)}
		}
		if nondetBool("item-set") {
			p.Item = &svc.Item{N: nondetInt("item-n")}
			if nondetBool("item-s-set") {
				v := nondetStringUpTo("item-s", 1)
				p.Item.S = &v
			}
		}
		if nondetBool("m-set") {
			p.M = map[string]int{nondetStringUpTo("m-key", 1): nondetInt("m-val")}
		}
	}
	want := *p // the value as the caller built it
	got, w, err := a1RoundTrip(p, &svc.PutResult{Rid: "r"})
	verifAssert("client-encodes-without-error", err == nil)
	if err != nil {
		return
	}
	if slashInID {
		verifAssert("request-reaches-the-method[slash-in-path-value]", got != nil)
	} else {
		verifAssert("request-reaches-the-method", got != nil && w.status == http.StatusOK)
	}
	if got == nil {
		return
	}
	verifAssert("path:id", got.ID == want.ID)
	verifAssert("path:ver", got.Ver == want.Ver)
	verifAssert("query:qi", (got.Qi == nil) == (want.Qi == nil) && (got.Qi == nil || *got.Qi == *want.Qi))
	verifAssert("query:qs", got.Qs == want.Qs)
	verifAssert("query:qb", (got.Qb == nil) == (want.Qb == nil) && (got.Qb == nil || *got.Qb == *want.Qb))
	if zeroQd {
		verifAssert("query:qd-default[zero-valued-defaulted-param]", got.Qd == 7)
	} else {
		verifAssert("query:qd", got.Qd == want.Qd)
	}
	verifAssert("header:hx", (got.Hx == nil) == (want.Hx == nil) && (got.Hx == nil || *got.Hx == *want.Hx))
	verifAssert("header:hu", (got.Hu == nil) == (want.Hu == nil) && (got.Hu == nil || *got.Hu == *want.Hu))
	verifAssert("cookie:ck", (got.Ck == nil) == (want.Ck == nil) && (got.Ck == nil || *got.Ck == *want.Ck))
	verifAssert("body:name", got.Name == want.Name)
	wantCnt := want.Cnt
	if wantCnt == 0 {
		wantCnt = 3 // unset attribute with a design default
	}
	verifAssert("body:cnt-with-default", got.Cnt == wantCnt)
	verifAssert("body:f", (got.F == nil) == (want.F == nil) && (got.F == nil || *got.F == *want.F))
	verifAssert("body:tags", len(got.Tags) == len(want.Tags))
	for i := range want.Tags {
		if i < len(got.Tags) {
			verifAssert("body:tags-elem", got.Tags[i] == want.Tags[i])
		}
	}
	verifAssert("body:item", (got.Item == nil) == (want.Item == nil))
	if got.Item != nil && want.Item != nil {
		verifAssert("body:item-n", got.Item.N == want.Item.N)
		verifAssert("body:item-s", (got.Item.S == nil) == (want.Item.S == nil) && (got.Item.S == nil || *got.Item.S == *want.Item.S))
	}
	verifAssert("body:m", len(got.M) == len(want.M))
	for k, v := range want.M {
		gv, ok := got.M[k]
		verifAssert("body:m-entry", ok && gv == v)
	}
	verifReach("compared")
}
