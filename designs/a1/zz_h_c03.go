//go:build verif

package vh

import (
	"io"
	"net/http"
	"strings"

	goahttp "goa.design/goa/v3/http"
	client "vdesign/gen/http/svc/client"
	server "vdesign/gen/http/svc/server"
	svc "vdesign/gen/svc"
)

// VerifC03_a1_put: the result returned by the service reaches the client
// caller equal, with the designed status, headers and defaults.
func VerifC03_a1_put() {
	res := &svc.PutResult{Rid: nondetStringUpTo("rid", deep(2)), Rc: nondetInt("rc")}
	if nondetBool("rh-set") {
		v := nondetString("rh", 2)
		verifAssume(visible(v))
		res.Rh = &v
	}
	if nondetBool("rn-set") {
		v := nondetInt64("rn")
		res.Rn = &v
	}
	if nondetBool("item-set") {
		res.Item = &svc.Item{N: nondetInt("item-n")}
		if nondetBool("item-s-set") {
			v := nondetStringUpTo("item-s", deep(1))
			res.Item.S = &v
		}
	}
	switch nondetChoice("list-len", 3) {
	case 1:
		res.List = []int{nondetInt("l0")}
	case 2:
		res.List = []int{nondetInt("l0"), nondetInt("l1")}
	}
	want := *res
	p := &svc.PutPayload{ID: "i", Ver: 1, Qs: "s", Qd: 7, Name: "n", Cnt: 3}
	got, w, err := a1RoundTrip(p, res)
	verifAssert("request-served", err == nil && got != nil)
	if err != nil || got == nil {
		return
	}
	verifAssert("status-is-designed-status", w.status == http.StatusOK && w.nHeaders == 1)
	verifAssert("one-body-encoded", len(w.encoded) == 1)
	if len(w.encoded) != 1 {
		return
	}
	sbody, ok := w.encoded[0].(*server.PutResponseBody)
	verifAssert("body-type", ok)
	if !ok {
		return
	}
	// header attributes travel in headers and not in the body
	if want.Rh != nil {
		verifAssert("header:rh-on-wire", w.h.Get("X-Rh") == *want.Rh)
	} else {
		verifAssert("header:rh-absent", w.h.Get("X-Rh") == "")
	}
	// ---- the wire back and the generated client decoder
	resp := &http.Response{StatusCode: w.status, Header: w.h, Body: io.NopCloser(strings.NewReader(""))}
	decode := client.DecodePutResponse(func(*http.Response) goahttp.Decoder {
		return stubDecoder{func(v any) error { return verifJSONCopy(v, sbody) }}
	}, false)
	out, derr := decode(resp)
	verifAssert("client-decodes-without-error", derr == nil)
	if derr != nil {
		return
	}
	r, ok := out.(*svc.PutResult)
	verifAssert("client-result-type", ok && r != nil)
	if !ok || r == nil {
		return
	}
	verifAssert("result:rid", r.Rid == want.Rid)
	wantRc := want.Rc
	if wantRc == 0 {
		wantRc = 5
	}
	verifAssert("result:rc-with-default", r.Rc == wantRc)
	verifAssert("result:rh", (r.Rh == nil) == (want.Rh == nil) && (r.Rh == nil || *r.Rh == *want.Rh))
	verifAssert("result:rn", (r.Rn == nil) == (want.Rn == nil) && (r.Rn == nil || *r.Rn == *want.Rn))
	verifAssert("result:item", (r.Item == nil) == (want.Item == nil))
	if r.Item != nil && want.Item != nil {
		verifAssert("result:item-n", r.Item.N == want.Item.N)
		verifAssert("result:item-s", (r.Item.S == nil) == (want.Item.S == nil) && (r.Item.S == nil || *r.Item.S == *want.Item.S))
	}
	verifAssert("result:list", len(r.List) == len(want.List))
	for i := range want.List {
		if i < len(r.List) {
			verifAssert("result:list-elem", r.List[i] == want.List[i])
		}
	}
	verifReach("compared")
}
