package design

import . "goa.design/goa/v3/dsl"

var _ = API("c12", func() {})

// a map keyed by Boolean: the DSL accepts it
var _ = Service("svc", func() {
	Method("m", func() {
		Payload(func() {
			Attribute("flags", MapOf(Boolean, Int))
		})
		HTTP(func() {
			POST("/m")
		})
	})
})
