package design

import . "goa.design/goa/v3/dsl"

var _ = API("v6", func() {})

var Base1 = Type("Base1", func() {
	Attribute("tenant", String)
	Attribute("actor", String)
	Required("tenant", "actor")
})

var Base2 = Type("Base2", func() {
	Attribute("tenant", String)
	Attribute("name", String)
	Attribute("tags", ArrayOf(String))
	Required("tenant", "name", "tags")
})

var Ref = Type("Ref", func() {
	Attribute("a", String, func() { MinLength(2) })
	Attribute("b", Int, func() { Minimum(1) })
	Required("a")
})

var Named = Type("Named", func() {
	Attribute("name", String, func() { MaxLength(6) })
})

var _ = Service("svc", func() {
	// required lists of two bases that share a name
	Method("merge", func() {
		Payload(func() {
			Extend(Base1)
			Extend(Base2)
		})
		HTTP(func() { POST("/merge") })
	})
	// Reference restating a required attribute and adding one; two Required calls
	Method("restate", func() {
		Payload(func() {
			Reference(Ref)
			Attribute("a")
			Attribute("b")
			Attribute("c", String)
			Required("a")
			Required("a", "b", "c")
		})
		HTTP(func() { POST("/restate") })
	})
	// an inherited attribute that already has a validation, re-declared with
	// different validations by two payloads; a third uses the base as it is
	Method("ra", func() {
		Payload(func() {
			Reference(Named)
			Attribute("name", func() { MaxLength(4) })
		})
		HTTP(func() { POST("/ra") })
	})
	Method("rb", func() {
		Payload(func() {
			Reference(Named)
			Attribute("name", func() {
				MinLength(2)
				MaxLength(8)
			})
		})
		HTTP(func() { POST("/rb") })
	})
	Method("rc", func() {
		Payload(Named)
		HTTP(func() { POST("/rc") })
	})
	// Reference to a type with a required attribute; the payload re-declares it
	// and requires only another attribute of its own
	Method("inh", func() {
		Payload(func() {
			Reference(Ref)
			Attribute("a")
			Attribute("nick", String)
			Required("nick")
		})
		HTTP(func() { POST("/inh") })
	})
})
