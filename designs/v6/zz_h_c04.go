//go:build verif

package vh

import (
	"context"
	"net/http"
	"unicode/utf8"

	goahttp "goa.design/goa/v3/http"
	server "vdesign/gen/http/svc/server"
	svc "vdesign/gen/svc"
)

// design v6, method merge: the payload extends two bases whose required lists
// share a name; every attribute required by either base is required.
func VerifC04_v6_merge() {
	body := &server.MergeRequestBody{}
	missing := false
	str := func(name string) *string {
		if !nondetBool(name + "-present") {
			missing = true
			return nil
		}
		s := nondetStringUpTo(name, 1)
		return &s
	}
	body.Tenant, body.Actor, body.Name = str("tenant"), str("actor"), str("name")
	if nondetBool("tags-present") {
		body.Tags = []string{nondetStringUpTo("tag", 1)}
	} else {
		missing = true
	}
	called := 0
	var got *svc.MergePayload
	endpoint := func(ctx context.Context, p any) (any, error) { called++; got = p.(*svc.MergePayload); return nil, nil }
	dec := func(*http.Request) goahttp.Decoder {
		return stubDecoder{func(v any) error { *(v.(*server.MergeRequestBody)) = *body; return nil }}
	}
	w := newRecWriter()
	server.NewMergeHandler(endpoint, &stubMux{}, dec, recEncoder(), nil, nil).ServeHTTP(w, newRequest("POST", nil))
	ran := called == 1
	verifAssert("endpoint-runs-iff-request-valid", ran == !missing)
	if !ran {
		verifAssert("rejected:exactly-one-400", w.nHeaders == 1 && w.status == http.StatusBadRequest)
		verifAssert("rejected:names-a-violated-rule", errorName(w) == "missing_field")
	} else if !missing {
		verifAssert("accepted:values", got.Tenant == *body.Tenant && got.Actor == *body.Actor && got.Name == *body.Name && len(got.Tags) == 1 && got.Tags[0] == body.Tags[0])
	}
	verifAssert("openapi:schema-accepts-iff-server-accepts", verifSchemaAccepts(openapiDoc, "POST /merge", map[string]any{"body": body}) == ran)
}

// design v6, method restate: Reference(Ref) restating a and b, adding c;
// Required("a") then Required("a","b","c"); a >= 2 runes, b >= 1 inherited.
func VerifC04_v6_restate() {
	body := &server.RestateRequestBody{}
	rules := map[string]bool{}
	if nondetBool("a-present") {
		a := nondetStringUpTo("a", 3)
		verifAssume(utf8.ValidString(a))
		body.A = &a
		if utf8.RuneCountInString(a) < 2 {
			rules["invalid_length"] = true
		}
	} else {
		rules["missing_field"] = true
	}
	if nondetBool("b-present") {
		b := nondetInt("b")
		body.B = &b
		if b < 1 {
			rules["invalid_range"] = true
		}
	} else {
		rules["missing_field"] = true
	}
	if nondetBool("c-present") {
		c := nondetStringUpTo("c", 1)
		body.C = &c
	} else {
		rules["missing_field"] = true
	}
	called := 0
	endpoint := func(ctx context.Context, p any) (any, error) { called++; return nil, nil }
	dec := func(*http.Request) goahttp.Decoder {
		return stubDecoder{func(v any) error { *(v.(*server.RestateRequestBody)) = *body; return nil }}
	}
	w := newRecWriter()
	server.NewRestateHandler(endpoint, &stubMux{}, dec, recEncoder(), nil, nil).ServeHTTP(w, newRequest("POST", nil))
	ran := called == 1
	verifAssert("endpoint-runs-iff-request-valid", ran == (len(rules) == 0))
	if !ran {
		verifAssert("rejected:exactly-one-400", w.nHeaders == 1 && w.status == http.StatusBadRequest)
		verifAssert("rejected:names-a-violated-rule", rules[errorName(w)])
	}
	verifAssert("openapi:schema-accepts-iff-server-accepts", verifSchemaAccepts(openapiDoc, "POST /restate", map[string]any{"body": body}) == ran)
}
