//go:build verif

package vh

import (
	"context"
	"net/http"
	"unicode/utf8"

	goahttp "goa.design/goa/v3/http"
	server "vdesign/gen/http/svc/server"
	svc "vdesign/gen/svc"
)

// design v6, method merge: the payload extends two bases whose required lists
// share a name; every attribute required by either base is required.
func VerifC04_v6_merge() {
	body := &server.MergeRequestBody{}
	missing := false
	str := func(name string) *string {
		if !nondetBool(name + "-present") {
			missing = true
			return nil
		}
		s := nondetStringUpTo(name, 1)
		return &s
	}
	body.Tenant, body.Actor, body.Name = str("tenant"), str("actor"), str("name")
	if nondetBool("tags-present") {
		body.Tags = []string{nondetStringUpTo("tag", deep(1))}
	} else {
		missing = true
	}
	called := 0
	var got *svc.MergePayload
	endpoint := func(ctx context.Context, p any) (any, error) { called++; got = p.(*svc.MergePayload); return nil, nil }
	dec := func(*http.Request) goahttp.Decoder {
		return stubDecoder{func(v any) error { *(v.(*server.MergeRequestBody)) = *body; return nil }}
	}
	w := newRecWriter()
	server.NewMergeHandler(endpoint, &stubMux{}, dec, recEncoder(), nil, nil).ServeHTTP(w, newRequest("POST", nil))
	ran := called == 1
	verifAssert("endpoint-runs-iff-request-valid", ran == !missing)
	if !ran {
		verifAssert("rejected:exactly-one-400", w.nHeaders == 1 && w.status == http.StatusBadRequest)
		verifAssert("rejected:names-a-violated-rule", errorName(w) == "missing_field")
	} else if !missing {
		verifAssert("accepted:values", got.Tenant == *body.Tenant && got.Actor == *body.Actor && got.Name == *body.Name && len(got.Tags) == 1 && got.Tags[0] == body.Tags[0])
	}
	verifAssert("openapi:schema-accepts-iff-server-accepts", verifSchemaAccepts(openapiDoc, "POST /merge", map[string]any{"body": body}) == ran)
}

// design v6, method restate: Reference(Ref) restating a and b, adding c;
// Required("a") then Required("a","b","c"); a >= 2 runes, b >= 1 inherited.
func VerifC04_v6_restate() {
	body := &server.RestateRequestBody{}
	rules := map[string]bool{}
	if nondetBool("a-present") {
		a := nondetStringUpTo("a", deep(3))
		verifAssume(utf8.ValidString(a))
		body.A = &a
		if utf8.RuneCountInString(a) < 2 {
			rules["invalid_length"] = true
		}
	} else {
		rules["missing_field"] = true
	}
	if nondetBool("b-present") {
		b := nondetInt("b")
		body.B = &b
		if b < 1 {
			rules["invalid_range"] = true
		}
	} else {
		rules["missing_field"] = true
	}
	if nondetBool("c-present") {
		c := nondetStringUpTo("c", deep(1))
		body.C = &c
	} else {
		rules["missing_field"] = true
	}
	called := 0
	endpoint := func(ctx context.Context, p any) (any, error) { called++; return nil, nil }
	dec := func(*http.Request) goahttp.Decoder {
		return stubDecoder{func(v any) error { *(v.(*server.RestateRequestBody)) = *body; return nil }}
	}
	w := newRecWriter()
	server.NewRestateHandler(endpoint, &stubMux{}, dec, recEncoder(), nil, nil).ServeHTTP(w, newRequest("POST", nil))
	ran := called == 1
	verifAssert("endpoint-runs-iff-request-valid", ran == (len(rules) == 0))
	if !ran {
		verifAssert("rejected:exactly-one-400", w.nHeaders == 1 && w.status == http.StatusBadRequest)
		verifAssert("rejected:names-a-violated-rule", rules[errorName(w)])
	}
	verifAssert("openapi:schema-accepts-iff-server-accepts", verifSchemaAccepts(openapiDoc, "POST /restate", map[string]any{"body": body}) == ran)
}

// design v6, methods ra/rb/rc: Named.name has MaxLength(6); ra re-declares it
// with MaxLength(4), rb with MinLength(2)+MaxLength(8), rc uses Named as it is.
func VerifC04_v6_redeclared() {
	name := nondetStringUpTo("name", deep(9))
	for i := 0; i < len(name); i++ {
		verifAssume(name[i] < 0x80) // one rune per byte
	}
	n := len(name)
	method := nondetChoice("method", 3)
	called := 0
	endpoint := func(ctx context.Context, p any) (any, error) { called++; return nil, nil }
	w := newRecWriter()
	var valid bool
	var op string
	var parts map[string]any
	switch method {
	case 0:
		b := &server.RaRequestBody{Name: &name}
		dec := func(*http.Request) goahttp.Decoder {
			return stubDecoder{func(v any) error { *(v.(*server.RaRequestBody)) = *b; return nil }}
		}
		server.NewRaHandler(endpoint, &stubMux{}, dec, recEncoder(), nil, nil).ServeHTTP(w, newRequest("POST", nil))
		valid, op, parts = n <= 4, "POST /ra", map[string]any{"body": b}
	case 1:
		b := &server.RbRequestBody{Name: &name}
		dec := func(*http.Request) goahttp.Decoder {
			return stubDecoder{func(v any) error { *(v.(*server.RbRequestBody)) = *b; return nil }}
		}
		server.NewRbHandler(endpoint, &stubMux{}, dec, recEncoder(), nil, nil).ServeHTTP(w, newRequest("POST", nil))
		valid, op, parts = n >= 2 && n <= 8, "POST /rb", map[string]any{"body": b}
	default:
		b := &server.RcRequestBody{Name: &name}
		dec := func(*http.Request) goahttp.Decoder {
			return stubDecoder{func(v any) error { *(v.(*server.RcRequestBody)) = *b; return nil }}
		}
		server.NewRcHandler(endpoint, &stubMux{}, dec, recEncoder(), nil, nil).ServeHTTP(w, newRequest("POST", nil))
		valid, op, parts = n <= 6, "POST /rc", map[string]any{"body": b}
	}
	ran := called == 1
	verifAssert("endpoint-runs-iff-request-valid", ran == valid)
	if !ran {
		verifAssert("rejected:exactly-one-400", w.nHeaders == 1 && w.status == http.StatusBadRequest)
		verifAssert("rejected:names-a-violated-rule", errorName(w) == "invalid_length")
	}
	specOK := verifSchemaAccepts(openapiDoc, op, parts)
	if method != 2 {
		// known: the three bodies have the same shape and are documented by ONE
		// schema (that of Named), whatever their own validations
		verifAssert("openapi:schema-accepts-iff-server-accepts[same-shape-bodies-share-a-schema]", specOK == ran)
	} else {
		verifAssert("openapi:schema-accepts-iff-server-accepts", specOK == ran)
	}
}

// design v6, method inh: Reference(Ref) (Ref requires a, a >= 2 runes); the
// payload re-declares a and requires nick: both a and nick are required.
func VerifC04_v6_inherited_required() {
	body := &server.InhRequestBody{}
	rules := map[string]bool{}
	if nondetBool("a-present") {
		a := nondetStringUpTo("a", deep(3))
		for i := 0; i < len(a); i++ {
			verifAssume(a[i] < 0x80)
		}
		body.A = &a
		if len(a) < 2 {
			rules["invalid_length"] = true
		}
	} else {
		rules["missing_field"] = true
	}
	if nondetBool("nick-present") {
		n := nondetStringUpTo("nick", 1)
		body.Nick = &n
	} else {
		rules["missing_field"] = true
	}
	called := 0
	endpoint := func(ctx context.Context, p any) (any, error) { called++; return nil, nil }
	dec := func(*http.Request) goahttp.Decoder {
		return stubDecoder{func(v any) error { *(v.(*server.InhRequestBody)) = *body; return nil }}
	}
	w := newRecWriter()
	server.NewInhHandler(endpoint, &stubMux{}, dec, recEncoder(), nil, nil).ServeHTTP(w, newRequest("POST", nil))
	ran := called == 1
	verifAssert("endpoint-runs-iff-request-valid", ran == (len(rules) == 0))
	if !ran {
		verifAssert("rejected:exactly-one-400", w.nHeaders == 1 && w.status == http.StatusBadRequest)
		verifAssert("rejected:names-a-violated-rule", rules[errorName(w)])
	}
	verifAssert("openapi:schema-accepts-iff-server-accepts", verifSchemaAccepts(openapiDoc, "POST /inh", map[string]any{"body": body}) == ran)
}
