package design

import . "goa.design/goa/v3/dsl"

var _ = API("e1", func() {})

var CustomErr = Type("CustomErr", func() {
	ErrorName("name", String)
	Attribute("code", Int)
	Attribute("detail", String)
	Required("name", "code")
})

var _ = Service("svc", func() {
	Error("svc_err")
	Error("slow", func() { Timeout() })
	Error("busy", func() { Temporary() })
	Error("down", func() {
		Temporary()
		Fault()
	})
	Method("do", func() {
		Payload(func() { Attribute("x", Int) })
		Error("not_found")
		Error("conflict", CustomErr)
		Error("gone", CustomErr)
		Error("locked", CustomErr)
		Error("teapot", String)
		HTTP(func() {
			POST("/do")
			Response("not_found", StatusNotFound)
			Response("conflict", StatusConflict)
			Response("gone", StatusConflict)
			Response("locked", StatusLocked)
			Response("teapot", StatusTeapot)
			Response("svc_err", StatusBadGateway)
		})
	})
})
