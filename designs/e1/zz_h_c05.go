//go:build verif

package vh

import (
	"context"
	"errors"
	"fmt"
	"io"
	"net/http"
	"strings"

	goahttp "goa.design/goa/v3/http"
	goa "goa.design/goa/v3/pkg"
	client "vdesign/gen/http/svc/client"
	server "vdesign/gen/http/svc/server"
	svc "vdesign/gen/svc"
)

type plainErr struct{ msg string }

func (e *plainErr) Error() string { return e.msg }

// VerifC05_e1_do: declared errors reach the client as the same error, others
// follow the default mapping; exactly one response in every case.
func VerifC05_e1_do() {
	msg := nondetStringUpTo("msg", deep(2))
	code := nondetInt("code")
	var detail *string
	if nondetBool("detail-set") {
		d := nondetStringUpTo("detail", deep(1))
		detail = &d
	}
	to, te, fa := nondetBool("timeout"), nondetBool("temporary"), nondetBool("fault")
	kind := nondetChoice("error-kind", 15)
	var ret error
	switch kind {
	case 0:
		ret = svc.MakeNotFound(errors.New(msg))
	case 1:
		ret = svc.MakeSvcErr(errors.New(msg))
	case 2:
		ret = &svc.CustomErr{Name: "conflict", Code: code, Detail: detail}
	case 3:
		ret = &svc.CustomErr{Name: "gone", Code: code, Detail: detail}
	case 4:
		ret = svc.Teapot(msg)
	case 5: // undeclared service error: default mapping from the flags
		ret = goa.NewServiceError(errors.New(msg), "other_"+nondetString("name", 1), to, te, fa)
	case 14: // undeclared service error wrapped by user code
		ret = fmt.Errorf("ctx: %w", goa.NewServiceError(errors.New(msg), "other_"+nondetString("name", 1), to, te, fa))
	case 6:
		ret = &plainErr{msg}
	case 7: // declared error wrapped by user code
		ret = fmt.Errorf("ctx: %w", &svc.CustomErr{Name: "conflict", Code: code, Detail: detail})
	case 8: // custom error type whose name is not declared for this method
		ret = &svc.CustomErr{Name: "weird", Code: code}
	case 10:
		ret = &svc.CustomErr{Name: "locked", Code: code, Detail: detail}
	case 11: // errors whose flags are fixed in the design (no HTTP response declared: default mapping)
		ret = svc.MakeSlow(errors.New(msg))
	case 12:
		ret = svc.MakeBusy(errors.New(msg))
	case 13:
		ret = svc.MakeDown(errors.New(msg))
	case 9: // declared service error carrying flags
		e := svc.MakeNotFound(errors.New(msg))
		e.Timeout, e.Temporary, e.Fault = to, te, fa
		ret = e
	}
	eps := &svc.Endpoints{Do: func(ctx context.Context, v any) (any, error) { return nil, ret }}
	mux := &stubMux{}
	srv := server.New(eps, mux, func(*http.Request) goahttp.Decoder { return stubDecoder{func(any) error { return nil }} }, recEncoder(), nil, nil)
	w := newRecWriter()
	srv.Do.ServeHTTP(w, newRequest("POST", nil))

	verifAssert("exactly-one-response", w.nHeaders == 1 && len(w.encoded) == 1)
	if w.nHeaders != 1 || len(w.encoded) != 1 {
		return
	}
	wantStatus, wantName := 0, ""
	switch kind {
	case 0, 9:
		wantStatus, wantName = http.StatusNotFound, "not_found"
	case 1:
		wantStatus, wantName = http.StatusBadGateway, "svc_err"
	case 2, 7:
		wantStatus, wantName = http.StatusConflict, "conflict"
	case 3:
		wantStatus, wantName = http.StatusConflict, "gone"
	case 10:
		wantStatus, wantName = http.StatusLocked, "locked"
	case 4:
		wantStatus, wantName = http.StatusTeapot, "teapot"
	case 5, 14:
		switch {
		case fa:
			wantStatus = http.StatusInternalServerError
		case to && te:
			wantStatus = http.StatusGatewayTimeout
		case to:
			wantStatus = http.StatusRequestTimeout
		case te:
			wantStatus = http.StatusServiceUnavailable
		default:
			wantStatus = http.StatusBadRequest
		}
	case 6, 8:
		wantStatus = http.StatusInternalServerError
	case 11: // Timeout()
		wantStatus = http.StatusRequestTimeout
	case 12: // Temporary()
		wantStatus = http.StatusServiceUnavailable
	case 13: // Temporary() + Fault()
		wantStatus = http.StatusInternalServerError
	}
	verifObserve("status", w.status)
	if wantName != "" {
		verifAssert("openapi:response-conforms", verifSchemaAccepts(openapiDoc, "POST /do", map[string]any{"response:" + itoa(w.status): w.encoded[0]}))
	}
	verifAssert("status-as-designed-or-default-mapping", w.status == wantStatus)
	verifAssert("goa-error-header-names-the-error", w.h.Get("goa-error") == wantName)
	if wantName == "" {
		er, ok := w.encoded[0].(*goahttp.ErrorResponse)
		verifAssert("undeclared:default-error-body", ok)
		if ok {
			switch kind {
			case 11:
				verifAssert("designed-flags:timeout-only", er.Timeout && !er.Temporary && !er.Fault && er.Name == "slow")
			case 12:
				verifAssert("designed-flags:temporary-only", !er.Timeout && er.Temporary && !er.Fault && er.Name == "busy")
			case 13:
				verifAssert("designed-flags:temporary-fault", !er.Timeout && er.Temporary && er.Fault && er.Name == "down")
			case 5, 14:
				verifAssert("undeclared:service-error-fields-copied", er.Message == msg && er.Timeout == to && er.Temporary == te && er.Fault == fa && strings.HasPrefix(er.Name, "other_"))
			default:
				verifAssert("undeclared:plain-error-is-fault", er.Fault && er.Name == "fault")
			}
		}
		return
	}
	// ---- declared error: back over the wire to the generated client
	resp := &http.Response{StatusCode: w.status, Header: w.h, Body: io.NopCloser(strings.NewReader(""))}
	decode := client.DecodeDoResponse(func(*http.Response) goahttp.Decoder {
		return stubDecoder{func(v any) error { return verifJSONCopy(v, w.encoded[0]) }}
	}, false)
	out, cerr := decode(resp)
	verifAssert("client-returns-an-error-and-no-result", out == nil && cerr != nil)
	if cerr == nil {
		return
	}
	switch kind {
	case 0, 1, 9:
		se, ok := cerr.(*goa.ServiceError)
		verifAssert("client:service-error-type", ok)
		if ok {
			verifAssert("client:service-error-name", se.Name == wantName && se.GoaErrorName() == wantName)
			verifAssert("client:service-error-message", se.Message == msg)
			if kind == 9 {
				verifAssert("client:service-error-flags", se.Timeout == to && se.Temporary == te && se.Fault == fa)
			}
		}
	case 2, 3, 7, 10:
		ce, ok := cerr.(*svc.CustomErr)
		verifAssert("client:custom-error-type", ok)
		if ok {
			verifAssert("client:custom-error-name", ce.Name == wantName)
			verifAssert("client:custom-error-attributes", ce.Code == code && (ce.Detail == nil) == (detail == nil) && (ce.Detail == nil || *ce.Detail == *detail))
		}
	case 4:
		tp, ok := cerr.(svc.Teapot)
		verifAssert("client:primitive-error", ok && string(tp) == msg)
	}
	verifReach("declared-round-trip")
}
