package design

import . "goa.design/goa/v3/dsl"

var _ = API("c4", func() {})

// recursive result type whose child attribute uses another view
var Node = ResultType("application/vnd.node", func() {
	TypeName("Node")
	Attributes(func() {
		Attribute("v", Int)
		Attribute("next", "Node")
		Required("v")
	})
	View("default", func() {
		Attribute("v")
		Attribute("next", func() { View("tiny") })
	})
	View("tiny", func() {
		Attribute("v")
	})
})

var _ = Service("svc", func() {
	Method("get", func() {
		Result(Node)
		HTTP(func() { GET("/get") })
	})
})
