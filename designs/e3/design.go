package design

import . "goa.design/goa/v3/dsl"

// errors declared at API level; one response mapping at API level, one at
// service level; methods re-declare both in either order
var _ = API("e3", func() {
	Error("conflict")
	Error("gone")
	HTTP(func() {
		Response("gone", StatusGone)
	})
})

var AuthErr = Type("AuthErr", func() {
	Attribute("reason", String)
	Attribute("challenge", String)
	Attribute("realm", String)
	Attribute("hint", String)
	Required("reason", "challenge", "realm")
})

var _ = Service("svc", func() {
	HTTP(func() {
		Response("conflict", StatusConflict)
	})
	Method("first", func() {
		Error("gone")
		Error("conflict")
		HTTP(func() { GET("/first") })
	})
	Method("second", func() {
		Error("conflict")
		Error("gone")
		HTTP(func() { GET("/second") })
	})
	// error attributes carried in response cookies, one renamed on the wire
	Method("auth", func() {
		Error("unauthorized", AuthErr)
		HTTP(func() {
			GET("/auth")
			Response("unauthorized", StatusUnauthorized, func() {
				Cookie("challenge:chal")
				Cookie("realm")
				Cookie("hint:h")
			})
		})
	})
})
