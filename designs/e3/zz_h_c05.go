//go:build verif

package vh

import (
	"context"
	"errors"
	"io"
	"net/http"
	"strings"

	goahttp "goa.design/goa/v3/http"
	goa "goa.design/goa/v3/pkg"
	client "vdesign/gen/http/svc/client"
	server "vdesign/gen/http/svc/server"
	svc "vdesign/gen/svc"
)

func e3Alnum(s string) bool {
	for i := 0; i < len(s); i++ {
		c := s[i]
		if c < '0' || (c > '9' && c < 'a') || c > 'z' {
			return false
		}
	}
	return s != ""
}

// VerifC05_e3_inherited: errors declared at API level whose responses are
// mapped at API level (gone -> 410) and at service level (conflict -> 409),
// re-declared by two methods in either order.
func VerifC05_e3_inherited() {
	msg := nondetStringUpTo("msg", deep(1))
	second := nondetBool("second-method")
	gone := nondetBool("gone")
	var ret error
	wantStatus, wantName := http.StatusConflict, "conflict"
	switch {
	case gone:
		ret, wantStatus, wantName = svc.MakeGone(errors.New(msg)), http.StatusGone, "gone"
	default:
		ret = svc.MakeConflict(errors.New(msg))
	}
	eps := &svc.Endpoints{
		First:  func(ctx context.Context, v any) (any, error) { return nil, ret },
		Second: func(ctx context.Context, v any) (any, error) { return nil, ret },
	}
	srv := server.New(eps, &stubMux{}, func(*http.Request) goahttp.Decoder { return stubDecoder{func(any) error { return nil }} }, recEncoder(), nil, nil)
	w := newRecWriter()
	if second {
		srv.Second.ServeHTTP(w, newRequest("GET", nil))
	} else {
		srv.First.ServeHTTP(w, newRequest("GET", nil))
	}
	verifAssert("inherited:exactly-one-response", w.nHeaders == 1 && len(w.encoded) == 1)
	if len(w.encoded) != 1 {
		return
	}
	verifAssert("inherited:status-as-designed", w.status == wantStatus)
	verifAssert("inherited:goa-error-header", w.h.Get("goa-error") == wantName)
	verifAssert("openapi:response-conforms", verifSchemaAccepts(openapiDoc, map[bool]string{false: "GET /first", true: "GET /second"}[second], map[string]any{"response:" + itoa(w.status): w.encoded[0]}))
	resp := &http.Response{StatusCode: w.status, Header: w.h, Body: io.NopCloser(strings.NewReader(""))}
	dec := func(*http.Response) goahttp.Decoder {
		return stubDecoder{func(v any) error { return verifJSONCopy(v, w.encoded[0]) }}
	}
	var out any
	var cerr error
	if second {
		out, cerr = client.DecodeSecondResponse(dec, false)(resp)
	} else {
		out, cerr = client.DecodeFirstResponse(dec, false)(resp)
	}
	verifAssert("inherited:client-returns-an-error", out == nil && cerr != nil)
	se, ok := cerr.(*goa.ServiceError)
	verifAssert("inherited:client-error-is-the-declared-one", ok && se.Name == wantName && se.Message == msg)
}

// VerifC05_e3_cookies: attributes of a custom error type carried in response
// cookies (one renamed on the wire, one optional).
func VerifC05_e3_cookies() {
	e := &svc.AuthErr{Reason: nondetStringUpTo("reason", deep(1)), Challenge: nondetString("challenge", 1), Realm: nondetString("realm", 1)}
	verifAssume(e3Alnum(e.Challenge) && e3Alnum(e.Realm))
	if nondetBool("hint-set") {
		h := nondetString("hint", 1)
		verifAssume(e3Alnum(h))
		e.Hint = &h
	}
	want := *e
	eps := &svc.Endpoints{Auth: func(ctx context.Context, v any) (any, error) { return nil, e }}
	srv := server.New(eps, &stubMux{}, func(*http.Request) goahttp.Decoder { return stubDecoder{func(any) error { return nil }} }, recEncoder(), nil, nil)
	w := newRecWriter()
	srv.Auth.ServeHTTP(w, newRequest("GET", nil))
	verifAssert("cookies:exactly-one-response", w.nHeaders == 1 && len(w.encoded) == 1 && w.status == http.StatusUnauthorized)
	if len(w.encoded) != 1 {
		return
	}
	verifAssert("openapi:response-conforms", verifSchemaAccepts(openapiDoc, "GET /auth", map[string]any{"response:" + itoa(w.status): w.encoded[0]}))
	resp := &http.Response{StatusCode: w.status, Header: w.h, Body: io.NopCloser(strings.NewReader(""))}
	// cookies on the wire carry the designed names
	names := map[string]string{}
	for _, c := range resp.Cookies() {
		names[c.Name] = c.Value
	}
	verifAssert("cookies:designed-wire-names", names["chal"] == want.Challenge && names["realm"] == want.Realm && len(names) == map[bool]int{false: 2, true: 3}[want.Hint != nil])
	out, cerr := client.DecodeAuthResponse(func(*http.Response) goahttp.Decoder {
		return stubDecoder{func(v any) error { return verifJSONCopy(v, w.encoded[0]) }}
	}, false)(resp)
	verifAssert("cookies:client-returns-an-error", out == nil && cerr != nil)
	ae, ok := cerr.(*svc.AuthErr)
	verifAssert("cookies:client-error-type", ok)
	if ok {
		verifAssert("cookies:attributes", ae.Reason == want.Reason && ae.Challenge == want.Challenge && ae.Realm == want.Realm)
		verifAssert("cookies:optional-attribute", (ae.Hint == nil) == (want.Hint == nil) && (ae.Hint == nil || *ae.Hint == *want.Hint))
	}
}
