package design

import . "goa.design/goa/v3/dsl"

var _ = API("c9", func() {})

// request bodies mapped to one optional attribute that is not a pointer field
// of the payload struct: Bytes, Any, a primitive with a default
var _ = Service("svc", func() {
	Method("bytes", func() {
		Payload(func() {
			Attribute("id", String)
			Attribute("data", Bytes)
			Required("id")
		})
		HTTP(func() {
			PUT("/bytes/{id}")
			Body("data")
		})
	})
	Method("any", func() {
		Payload(func() {
			Attribute("id", String)
			Attribute("doc", Any)
			Required("id")
		})
		HTTP(func() {
			PUT("/any/{id}")
			Body("doc")
		})
	})
	Method("def", func() {
		Payload(func() {
			Attribute("id", String)
			Attribute("level", Int, func() { Default(3) })
			Required("id")
		})
		HTTP(func() {
			PUT("/def/{id}")
			Body("level")
		})
	})
})
