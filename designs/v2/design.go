package design

import . "goa.design/goa/v3/dsl"

var _ = API("v2", func() {})

var _ = Service("svc", func() {
	Method("nums", func() {
		Payload(func() {
			Attribute("x", Float64, func() {
				ExclusiveMinimum(0)
				ExclusiveMaximum(1)
			})
			Attribute("y", Float64, func() { Minimum(0.5) })
			Attribute("z", Int, func() { ExclusiveMaximum(100) })
			Attribute("rf", Float64, func() { ExclusiveMaximum(100) })
			Attribute("u", UInt, func() { Maximum(7) })
			Required("y")
		})
		HTTP(func() {
			POST("/nums")
			Param("z")
			Param("rf")
			Param("u")
		})
	})
	Method("strs", func() {
		Payload(func() {
			Attribute("s", String, func() {
				MinLength(2)
				MaxLength(3)
			})
			Attribute("e", String, func() { Enum("a", "bc") })
			Attribute("pat", String, func() { Pattern("^[a-z]+$") })
			Attribute("ip", String, func() { Format(FormatIPv4) })
			Attribute("ipa", String, func() { Format(FormatIP) })
			Attribute("ipp", String, func() {
				Format(FormatIPv4)
				Pattern("^1")
			})
			Attribute("hs", String, func() { MaxLength(2) })
			Required("s")
		})
		HTTP(func() {
			POST("/strs")
			Header("hs:X-S")
		})
	})
})
