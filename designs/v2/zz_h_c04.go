//go:build verif

package vh

import (
	"context"
	"net"
	"net/http"
	"net/url"
	"regexp"
	"unicode/utf8"

	goahttp "goa.design/goa/v3/http"
	server "vdesign/gen/http/svc/server"
	svc "vdesign/gen/svc"
)

// C04 on design v2, method nums: body x Float64 (0 < x < 1), y Float64
// (required, >= 0.5); query z Int (< 100), r Float64 (< 100), u UInt (<= 7).
func VerifC04_v2_nums() {
	xPresent, yPresent := nondetBool("x-present"), nondetBool("y-present")
	x, y := jsonFloat("x"), jsonFloat("y")
	z := newWireInt("z", true)
	rr := newWireFloat("rf", true)
	u := newWireUint("u", true)
	query := url.Values{}
	if z.kind != wAbsent {
		query.Set("z", z.raw)
	}
	if rr.kind != wAbsent {
		query.Set("rf", rr.raw)
	}
	if u.kind != wAbsent {
		query.Set("u", u.raw)
	}
	req := newRequest("POST", query)
	decoder := func(*http.Request) goahttp.Decoder {
		return stubDecoder{func(v any) error {
			b := v.(*server.NumsRequestBody)
			if xPresent {
				b.X = &x
			}
			if yPresent {
				b.Y = &y
			}
			return nil
		}}
	}
	called := 0
	var got *svc.NumsPayload
	endpoint := func(ctx context.Context, p any) (any, error) {
		called++
		got = p.(*svc.NumsPayload)
		return nil, nil
	}
	w := newRecWriter()
	server.NewNumsHandler(endpoint, &stubMux{}, decoder, recEncoder(), nil, nil).ServeHTTP(w, req)

	rules := map[string]bool{}
	if !yPresent {
		rules["missing_field"] = true
	} else if !(y >= 0.5) {
		rules["invalid_range"] = true
	}
	xLowOK := !xPresent || x > 0
	xHighOK := !xPresent || x < 1
	if !xLowOK {
		rules["invalid_range"] = true
	}
	if z.kind == wJunk {
		rules["invalid_field_type"] = true
	} else if z.kind == wNumber && !(z.v < 100) {
		rules["invalid_range"] = true
	}
	if u.kind == wJunk {
		rules["invalid_field_type"] = true
	} else if u.kind == wNumber && u.v > 7 {
		rules["invalid_range"] = true
	}
	rNaN := rr.kind == wNumber && isNaN(rr.v)
	if rr.kind == wJunk {
		rules["invalid_field_type"] = true
	} else if rr.kind == wNumber && !rNaN && !(rr.v < 100) {
		rules["invalid_range"] = true
	}
	valid := len(rules) == 0
	ran := called == 1
	switch {
	case !xHighOK && valid:
		// only the exclusive maximum of x is violated
		verifAssert("endpoint-runs-iff-request-valid[exclusive-max-with-exclusive-min]", !ran)
	case rNaN && valid:
		// only r = NaN violates r < 100
		verifAssert("endpoint-runs-iff-request-valid[float-param-NaN]", !ran)
	case !xHighOK || rNaN:
		verifAssert("endpoint-never-runs-on-invalid-request", !ran)
	default:
		verifAssert("endpoint-runs-iff-request-valid", ran == valid)
	}
	if !ran {
		verifAssert("rejected:exactly-one-400", w.nHeaders == 1 && w.status == http.StatusBadRequest)
		if !valid {
			verifAssert("rejected:names-a-violated-rule", rules[errorName(w)])
		}
	} else {
		verifAssert("accepted:y", got.Y == y)
		verifAssert("accepted:x", (got.X != nil) == xPresent && (got.X == nil || *got.X == x))
		verifAssert("accepted:z", (got.Z != nil) == (z.kind == wNumber) && (got.Z == nil || int64(*got.Z) == z.v))
		verifAssert("accepted:u", (got.U != nil) == (u.kind == wNumber) && (got.U == nil || uint64(*got.U) == u.v))
	}
	// ---- C14
	parts := map[string]any{}
	b := &server.NumsRequestBody{}
	if xPresent {
		b.X = &x
	}
	if yPresent {
		b.Y = &y
	}
	parts["body"] = b
	switch z.kind {
	case wNumber:
		parts["query:z"] = z.v
	case wJunk:
		parts["query:z"] = z.raw
	}
	switch rr.kind {
	case wNumber:
		parts["query:rf"] = rr.v
	case wJunk:
		parts["query:rf"] = rr.raw
	}
	negativeU := false
	switch u.kind {
	case wNumber:
		parts["query:u"] = u.v
	case wJunk:
		if u.raw == "-1" {
			parts["query:u"] = int64(-1) // a negative number is still an integer for the schema
			negativeU = true
		} else {
			parts["query:u"] = u.raw
		}
	}
	if rNaN {
		return // NaN cannot be written in a JSON-typed contract: outside the schema's value space
	}
	specOK := verifSchemaAccepts(openapiDoc, "POST /nums", parts)
	switch {
	case !xHighOK:
		verifAssert("openapi:schema-accepts-iff-server-accepts[exclusive-max-with-exclusive-min]", specOK == ran)
	case negativeU:
		verifAssert("openapi:schema-accepts-iff-server-accepts[unsigned-without-minimum]", specOK == ran)
	default:
		verifAssert("openapi:schema-accepts-iff-server-accepts", specOK == ran)
	}
}

var verifPat = regexp.MustCompile("^[a-z]+$")

// C04 on design v2, method strs: body s (required, 2..3 runes), e (enum a|bc),
// pat (^[a-z]+$), ip (ipv4 format), ipp (ipv4 format and pattern ^1); header X-S hs (<= 2 runes).
func VerifC04_v2_strs() {
	sPresent := nondetBool("s-present")
	s := nondetStringUpTo("s", deep(4))
	verifAssume(utf8.ValidString(s)) // JSON strings are valid UTF-8
	var e, pat, ip, ipp, ipa *string
	switch nondetChoice("which-optional", 6) {
	case 5:
		// any IP address: both families are acceptable
		vals := []string{"1.2.3.4", "::1", "2001:db8::1", "1.2.3", "x", "::ffff:1.2.3.4"}
		v := vals[nondetChoice("ipa", len(vals))]
		ipa = &v
	case 4:
		v := nondetString("ipp-a", 1) + "." + nondetString("ipp-b", 2) + ".0.1"
		ipp = &v
	case 1:
		v := nondetStringUpTo("e", deep(2))
		e = &v
	case 2:
		v := nondetStringUpTo("pat", deep(3))
		pat = &v
	case 3:
		v := nondetString("ip-a", 1) + "." + nondetString("ip-b", 2) + ".0.1"
		ip = &v
	}
	hsPresent := nondetBool("hs-present")
	hs := nondetString("hs", 1) + nondetStringUpTo("hs-tail", deep(2))
	req := newRequest("POST", nil)
	if hsPresent {
		// header field values: visible ASCII (RFC 7230 field-content)
		for i := 0; i < len(hs); i++ {
			verifAssume(hs[i] > 0x20 && hs[i] < 0x7f)
		}
		req.Header.Set("X-S", hs)
	}
	decoder := func(*http.Request) goahttp.Decoder {
		return stubDecoder{func(v any) error {
			b := v.(*server.StrsRequestBody)
			if sPresent {
				b.S = &s
			}
			b.E, b.Pat, b.IP, b.Ipp, b.Ipa = e, pat, ip, ipp, ipa
			return nil
		}}
	}
	called := 0
	var got *svc.StrsPayload
	endpoint := func(ctx context.Context, p any) (any, error) {
		called++
		got = p.(*svc.StrsPayload)
		return nil, nil
	}
	w := newRecWriter()
	server.NewStrsHandler(endpoint, &stubMux{}, decoder, recEncoder(), nil, nil).ServeHTTP(w, req)

	rules := map[string]bool{}
	if !sPresent {
		rules["missing_field"] = true
	} else if n := utf8.RuneCountInString(s); n < 2 || n > 3 {
		rules["invalid_length"] = true
	}
	if e != nil && *e != "a" && *e != "bc" {
		rules["invalid_enum_value"] = true
	}
	if pat != nil && !verifPat.MatchString(*pat) {
		rules["invalid_pattern"] = true
	}
	if ip != nil {
		parsed := net.ParseIP(*ip)
		if parsed == nil || parsed.To4() == nil {
			rules["invalid_format"] = true
		}
	}
	if ipa != nil && net.ParseIP(*ipa) == nil {
		rules["invalid_format"] = true
	}
	if ipp != nil {
		// both a format and a pattern: each is enforced
		parsed := net.ParseIP(*ipp)
		if parsed == nil || parsed.To4() == nil {
			rules["invalid_format"] = true
		}
		if (*ipp)[0] != '1' {
			rules["invalid_pattern"] = true
		}
	}
	if hsPresent && utf8.RuneCountInString(hs) > 2 {
		rules["invalid_length"] = true
	}
	valid := len(rules) == 0
	verifAssert("endpoint-runs-iff-request-valid", (called == 1) == valid)
	if called == 0 {
		verifAssert("rejected:exactly-one-400", w.nHeaders == 1 && w.status == http.StatusBadRequest)
		verifAssert("rejected:names-a-violated-rule", rules[errorName(w)])
	} else {
		verifAssert("accepted:s", got.S == s)
		verifAssert("accepted:hs", (got.Hs != nil) == hsPresent && (got.Hs == nil || *got.Hs == hs))
	}
	// ---- C14 (format keywords are advisory in OpenAPI and are not compared)
	if ip == nil && ipp == nil && ipa == nil {
		parts := map[string]any{}
		b := &server.StrsRequestBody{E: e, Pat: pat}
		if sPresent {
			b.S = &s
		}
		parts["body"] = b
		if hsPresent {
			parts["header:X-S"] = hs
		}
		specOK := verifSchemaAccepts(openapiDoc, "POST /strs", parts)
		verifAssert("openapi:schema-accepts-iff-server-accepts", specOK == (called == 1))
	}
}
