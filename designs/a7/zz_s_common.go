//go:build verif

package vh

import (
	"context"
	"io"
	"net/http"
	"net/url"
	"strings"

	goahttp "goa.design/goa/v3/http"
	server "vdesign/gen/http/svc/server"
	svc "vdesign/gen/svc"
)

type a7Exchange struct {
	echo    *string
	tally   *svc.TallyPayload
	pick    *svc.PickPayload
	w       *recWriter
	err     error
	reached string
}

type a7Results struct {
	echo  []int
	tally map[string]*svc.Item
	pick  *svc.PickResult
}

func a7Serve(method string, req *http.Request, sent any, res a7Results) *a7Exchange {
	x := &a7Exchange{}
	target := req.URL.RequestURI()
	u, perr := url.ParseRequestURI(target)
	if perr != nil {
		x.err = perr
		return x
	}
	sreq := &http.Request{Method: method, URL: u, Header: req.Header.Clone(), RequestURI: target}
	eps := &svc.Endpoints{
		Echo:  func(ctx context.Context, v any) (any, error) { s := v.(string); x.echo = &s; x.reached = "echo"; return res.echo, nil },
		Tally: func(ctx context.Context, v any) (any, error) { x.tally = v.(*svc.TallyPayload); x.reached = "tally"; return res.tally, nil },
		Pick:  func(ctx context.Context, v any) (any, error) { x.pick = v.(*svc.PickPayload); x.reached = "pick"; return res.pick, nil },
	}
	mux := goahttp.NewMuxer()
	dec := func(*http.Request) goahttp.Decoder {
		return stubDecoder{func(v any) error {
			if sent == nil {
				return io.EOF
			}
			return verifJSONCopy(v, sent)
		}}
	}
	server.Mount(mux, server.New(eps, mux, dec, recEncoder(), nil, nil))
	x.w = newRecWriter()
	mux.ServeHTTP(x.w, sreq)
	return x
}

func a7Response(x *a7Exchange) *http.Response {
	return &http.Response{StatusCode: x.w.status, Header: x.w.h, Body: io.NopCloser(strings.NewReader(""))}
}
