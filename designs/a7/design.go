package design

import . "goa.design/goa/v3/dsl"

var _ = API("a7", func() {})

var Item = Type("Item", func() {
	Attribute("n", Int)
	Attribute("s", String)
	Required("n")
})

var _ = Service("svc", func() {
	// primitive payload, array result
	Method("echo", func() {
		Payload(String)
		Result(ArrayOf(Int))
		HTTP(func() { POST("/echo") })
	})
	// two routes on one method; Boolean/Float64/UInt headers (one with a
	// default, one required); body = one array attribute; map-of-user-type result
	Method("tally", func() {
		Payload(func() {
			Attribute("keys", ArrayOf(String))
			Attribute("flag", Boolean, func() { Default(true) })
			Attribute("ratio", Float64)
			Attribute("n", UInt)
			Required("ratio")
		})
		Result(MapOf(String, Item))
		HTTP(func() {
			GET("/tally")
			POST("/tally")
			Header("flag:X-Flag")
			Header("ratio:X-Ratio")
			Header("n:X-N")
			Body("keys")
		})
	})
	// body = one Bytes attribute; response body = one map attribute, the rest in a header
	Method("pick", func() {
		Payload(func() {
			Attribute("id", String)
			Attribute("data", Bytes)
			Required("id")
		})
		Result(func() {
			Attribute("meta", MapOf(String, ArrayOf(Int)))
			Attribute("note", String)
		})
		HTTP(func() {
			PUT("/pick/{id}")
			Body("data")
			Response(StatusOK, func() {
				Body("meta")
				Header("note:X-Note")
			})
		})
	})
})
