//go:build verif

package vh

import (
	"context"
	"net/http"

	goahttp "goa.design/goa/v3/http"
	client "vdesign/gen/http/svc/client"
	svc "vdesign/gen/svc"
)

func a7Decode(dec func(func(*http.Response) goahttp.Decoder, bool) func(*http.Response) (any, error), x *a7Exchange) (any, error) {
	return dec(func(*http.Response) goahttp.Decoder {
		return stubDecoder{func(v any) error { return verifJSONCopy(v, x.w.encoded[0]) }}
	}, false)(a7Response(x))
}

// VerifC03_a7_results: array result, map-of-user-type result, response whose
// body is one map attribute with the other attribute in a header.
func VerifC03_a7_results() {
	c := client.NewClient("http", "example.com", nil, nil, nil, false)
	switch nondetChoice("method", 3) {
	case 0:
		var res []int
		switch nondetChoice("len", 3) {
		case 1:
			res = []int{nondetInt("e0")}
		case 2:
			res = []int{nondetInt("e0"), nondetInt("e1")}
		}
		req, _ := c.BuildEchoRequest(context.Background(), "x")
		x := a7Serve(req.Method, req, "x", a7Results{echo: res})
		verifAssert("echo-result:served", x.echo != nil && x.w.nHeaders == 1 && x.w.status == http.StatusOK && len(x.w.encoded) == 1)
		if len(x.w.encoded) != 1 {
			return
		}
		out, err := a7Decode(client.DecodeEchoResponse, x)
		verifAssert("echo-result:decoded", err == nil)
		r, ok := out.([]int)
		verifAssert("echo-result:array", ok && len(r) == len(res))
		for i := range res {
			if i < len(r) {
				verifAssert("echo-result:elem", r[i] == res[i])
			}
		}
	case 1:
		res := map[string]*svc.Item{}
		k := nondetStringUpTo("key", 1)
		if nondetBool("entry") {
			it := &svc.Item{N: nondetInt("n")}
			if nondetBool("s-set") {
				s := nondetStringUpTo("s", 1)
				it.S = &s
			}
			res[k] = it
		}
		p := &svc.TallyPayload{Flag: true, Ratio: 1}
		req, _ := c.BuildTallyRequest(context.Background(), p)
		client.EncodeTallyRequest(func(*http.Request) goahttp.Encoder { return stubEncoder{func(any) error { return nil }} })(req, p)
		x := a7Serve(req.Method, req, nil, a7Results{tally: res})
		verifAssert("tally-result:served", x.tally != nil && x.w.nHeaders == 1 && x.w.status == http.StatusOK && len(x.w.encoded) == 1)
		if len(x.w.encoded) != 1 {
			return
		}
		out, err := a7Decode(client.DecodeTallyResponse, x)
		verifAssert("tally-result:decoded", err == nil)
		r, ok := out.(map[string]*svc.Item)
		verifAssert("tally-result:map", ok && len(r) == len(res))
		for key, want := range res {
			got := r[key]
			verifAssert("tally-result:entry", got != nil && got.N == want.N && (got.S == nil) == (want.S == nil) && (got.S == nil || *got.S == *want.S))
		}
	default:
		res := &svc.PickResult{}
		if nondetBool("meta-set") {
			res.Meta = map[string][]int{nondetStringUpTo("mk", 1): {nondetInt("m0")}}
		}
		if nondetBool("note-set") {
			n := nondetString("note", 1)
			verifAssume(visible(n))
			res.Note = &n
		}
		p := &svc.PickPayload{ID: "i"}
		req, _ := c.BuildPickRequest(context.Background(), p)
		x := a7Serve(req.Method, req, nil, a7Results{pick: res})
		verifAssert("pick-result:served", x.pick != nil && x.w.nHeaders == 1 && x.w.status == http.StatusOK && len(x.w.encoded) == 1)
		if len(x.w.encoded) != 1 {
			return
		}
		verifAssert("pick-result:header", (res.Note == nil && x.w.h.Get("X-Note") == "") || (res.Note != nil && x.w.h.Get("X-Note") == *res.Note))
		out, err := a7Decode(client.DecodePickResponse, x)
		verifAssert("pick-result:decoded", err == nil)
		r, ok := out.(*svc.PickResult)
		verifAssert("pick-result:type", ok && r != nil)
		if !ok || r == nil {
			return
		}
		verifAssert("pick-result:note", (r.Note == nil) == (res.Note == nil) && (r.Note == nil || *r.Note == *res.Note))
		verifAssert("pick-result:map-body", len(r.Meta) == len(res.Meta))
		for k, v := range res.Meta {
			g := r.Meta[k]
			verifAssert("pick-result:map-body-entry", len(g) == len(v) && g[0] == v[0])
		}
	}
}
