//go:build verif

package vh

import (
	"context"
	"net/http"

	goahttp "goa.design/goa/v3/http"
	client "vdesign/gen/http/svc/client"
	svc "vdesign/gen/svc"
)

func a7Encode(enc func(func(*http.Request) goahttp.Encoder) func(*http.Request, any) error, req *http.Request, p any) (any, error) {
	var sent any
	err := enc(func(*http.Request) goahttp.Encoder {
		return stubEncoder{func(b any) error { sent = b; return nil }}
	})(req, p)
	return sent, err
}

// VerifC02_a7_echo: a primitive payload is the request body.
func VerifC02_a7_echo() {
	p := nondetStringUpTo("text", deep(2))
	c := client.NewClient("http", "example.com", nil, nil, nil, false)
	req, err := c.BuildEchoRequest(context.Background(), p)
	verifAssert("echo:request-built", err == nil)
	if err != nil {
		return
	}
	sent, eerr := a7Encode(client.EncodeEchoRequest, req, p)
	verifAssert("echo:request-encoded", eerr == nil)
	x := a7Serve(req.Method, req, sent, a7Results{})
	verifAssert("echo:primitive-payload-arrives", x.echo != nil && *x.echo == p)
}

// VerifC02_a7_tally: one method on two routes (GET and POST); Boolean header
// with a default, required Float64 header, optional UInt header; the body is
// the array attribute.
func VerifC02_a7_tally() {
	p := &svc.TallyPayload{Flag: true, Ratio: 1.5}
	switch nondetChoice("focus", 4) {
	case 0:
		p.Flag = nondetBool("flag")
	case 1:
		f := nondetFloat64("ratio")
		verifAssume(f == f && f-f == 0)
		p.Ratio = f
	case 2:
		if nondetBool("n-set") {
			n := nondetUint("n")
			p.N = &n
		}
	default:
		switch nondetChoice("keys", 3) {
		case 1:
			p.Keys = []string{nondetStringUpTo("k0", 1)}
		case 2:
			p.Keys = []string{nondetStringUpTo("k0", 1), nondetStringUpTo("k1", 1)}
		}
	}
	c := client.NewClient("http", "example.com", nil, nil, nil, false)
	req, err := c.BuildTallyRequest(context.Background(), p)
	verifAssert("tally:request-built", err == nil)
	if err != nil {
		return
	}
	sent, eerr := a7Encode(client.EncodeTallyRequest, req, p)
	verifAssert("tally:request-encoded", eerr == nil)
	// the generated client uses the first route; the second one (POST) is
	// served by the same method
	method := req.Method
	if nondetBool("second-route") {
		method = "POST"
		verifAssert("tally:second-route-path", client.TallySvcPath2() == "/tally")
	}
	x := a7Serve(method, req, sent, a7Results{})
	verifAssert("tally:reaches-the-method", x.tally != nil)
	got := x.tally
	if got == nil {
		return
	}
	verifAssert("tally:boolean-header", got.Flag == p.Flag)
	verifAssert("tally:float-header", got.Ratio == p.Ratio)
	verifAssert("tally:uint-header", (got.N == nil) == (p.N == nil) && (got.N == nil || *got.N == *p.N))
	verifAssert("tally:array-body", len(got.Keys) == len(p.Keys))
	for i := range p.Keys {
		if i < len(got.Keys) {
			verifAssert("tally:array-body-elem", got.Keys[i] == p.Keys[i])
		}
	}
}

// VerifC02_a7_pick: the body is one optional Bytes attribute.
func VerifC02_a7_pick() {
	p := &svc.PickPayload{ID: nondetString("id", 1)}
	verifAssume(p.ID != "/" && p.ID != "." && visible(p.ID))
	switch nondetChoice("data", 3) {
	case 1:
		p.Data = []byte{nondetByte("d0")}
	case 2:
		p.Data = []byte{nondetByte("d0"), nondetByte("d1")}
	}
	c := client.NewClient("http", "example.com", nil, nil, nil, false)
	req, err := c.BuildPickRequest(context.Background(), p)
	verifAssert("pick:request-built", err == nil)
	if err != nil {
		return
	}
	sent, eerr := a7Encode(client.EncodePickRequest, req, p)
	verifAssert("pick:request-encoded", eerr == nil)
	x := a7Serve(req.Method, req, sent, a7Results{pick: &svc.PickResult{}})
	verifAssert("pick:reaches-the-method", x.pick != nil)
	if x.pick == nil {
		return
	}
	verifAssert("pick:path-parameter", x.pick.ID == p.ID)
	verifAssert("pick:bytes-body", len(x.pick.Data) == len(p.Data))
	for i := range p.Data {
		if i < len(x.pick.Data) {
			verifAssert("pick:bytes-body-elem", x.pick.Data[i] == p.Data[i])
		}
	}
}
