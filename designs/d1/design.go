package design

import . "goa.design/goa/v3/dsl"

var _ = API("d1", func() {
	Server("srv", func() {
		Host("dev", func() { URI("http://localhost:8000"); URI("grpc://localhost:8080") })
		Host("prod", func() { URI("https://example.com") })
	})
})

var Acct = Type("Acct", func() {
	Attribute("id", String, func() { Meta("struct:tag:json", "id,omitempty"); Meta("struct:tag:xml", "id") })
	Attribute("n", Int)
	Meta("openapi:tag:accounts", "")
	Meta("openapi:tag:accounts:desc", "accounts")
})

var _ = Service("one", func() {
	Method("login", func() {
		Payload(func() { Attribute("user", String) })
		Result(func() {
			Attribute("sid", String)
			Attribute("csrf", String)
			Attribute("acct", Acct)
			Attribute("etag", String)
		})
		HTTP(func() {
			POST("/login")
			Response(StatusOK, func() {
				Cookie("sid:SID")
				Cookie("csrf:CSRF")
				Header("etag:ETag")
			})
		})
	})
})

var _ = Service("two", func() {
	Method("get", func() {
		Result(ArrayOf(Acct))
		HTTP(func() { GET("/accts") })
	})
})
