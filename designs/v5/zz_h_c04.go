//go:build verif

package vh

import (
	"context"
	"net/http"
	"net/url"
	"unicode/utf8"

	goahttp "goa.design/goa/v3/http"
	server "vdesign/gen/http/svc/server"
	svc "vdesign/gen/svc"
)

// design v5, method more: required cookie SID (>= 2 runes), query q (<= 5),
// body: map and array of user type Leaf{k required}, d (default 4, >= 2).
func VerifC04_v5_more() {
	q := newWireInt("q", true)
	sidPresent := nondetBool("sid-present")
	sid := nondetString("sid", 1) + nondetStringUpTo("sid-tail", deep(1))
	verifAssume(visible(sid))
	body := &server.MoreRequestBody{}
	rules := map[string]bool{}
	mapValueMissingK := false
	switch nondetChoice("focus", 4) {
	case 0:
	case 1: // d
		d := nondetInt("d")
		body.D = &d
		if d < 2 {
			rules["invalid_range"] = true
		}
	case 2: // list of Leaf
		l := &server.LeafRequestBody{}
		if nondetBool("list-k-present") {
			k := nondetInt("list-k")
			l.K = &k
		} else {
			rules["missing_field"] = true
		}
		body.List = []*server.LeafRequestBody{l}
	case 3: // map of Leaf
		l := &server.LeafRequestBody{}
		if nondetBool("map-k-present") {
			k := nondetInt("map-k")
			l.K = &k
		} else {
			rules["missing_field"] = true
			mapValueMissingK = true
		}
		body.Leaves = map[string]*server.LeafRequestBody{"a": l}
	}
	query := url.Values{}
	if q.kind != wAbsent {
		query.Set("q", q.raw)
	}
	req := newRequest("POST", query)
	if sidPresent {
		req.AddCookie(&http.Cookie{Name: "SID", Value: sid})
	}
	qInvalid := false
	if q.kind == wJunk {
		rules["invalid_field_type"] = true
		qInvalid = true
	} else if q.kind == wNumber && q.v > 5 {
		rules["invalid_range"] = true
		qInvalid = true
	}
	if !sidPresent {
		rules["missing_field"] = true
	} else if utf8.RuneCountInString(sid) < 2 {
		rules["invalid_length"] = true
	}
	valid := len(rules) == 0
	called := 0
	var got *svc.MorePayload
	endpoint := func(ctx context.Context, p any) (any, error) {
		called++
		got = p.(*svc.MorePayload)
		return nil, nil
	}
	dec := func(*http.Request) goahttp.Decoder {
		return stubDecoder{func(v any) error { *(v.(*server.MoreRequestBody)) = *body; return nil }}
	}
	w := newRecWriter()
	if mapValueMissingK {
		// known: values of a map of user types are not validated; the payload
		// constructor then dereferences the missing required member
		verifMode("expect-possible-panic")
	}
	func() {
		defer func() {
			if r := recover(); r != nil {
				verifAssert("no-panic[map-of-user-type-values-not-validated]", !mapValueMissingK)
				verifAssert("no-panic-on-any-request", mapValueMissingK)
				called = -1
			}
		}()
		server.NewMoreHandler(endpoint, &stubMux{}, dec, recEncoder(), nil, nil).ServeHTTP(w, req)
	}()
	if called == -1 {
		return
	}
	ran := called == 1
	switch {
	case mapValueMissingK:
		verifAssert("endpoint-runs-iff-request-valid[map-of-user-type-values-not-validated]", ran == valid)
	case qInvalid && sidPresent:
		// known: reading the required cookie overwrites the errors accumulated for the parameters before it
		verifAssert("endpoint-runs-iff-request-valid[required-cookie-overwrites-earlier-errors]", ran == valid)
	default:
		verifAssert("endpoint-runs-iff-request-valid", ran == valid)
	}
	if !ran {
		verifAssert("rejected:exactly-one-400", w.nHeaders == 1 && w.status == http.StatusBadRequest)
	} else if valid {
		wantD := 4
		if body.D != nil {
			wantD = *body.D
		}
		verifAssert("accepted:d-default", got.D == wantD)
		verifAssert("accepted:sid", got.Sid == sid)
	}
}
