package design

import . "goa.design/goa/v3/dsl"

var _ = API("v5", func() {})

var Leaf = Type("Leaf", func() {
	Attribute("k", Int)
	Required("k")
})

var _ = Service("svc", func() {
	Method("more", func() {
		Payload(func() {
			Attribute("sid", String, func() { MinLength(2) })
			Attribute("q", Int, func() { Maximum(5) })
			Attribute("leaves", MapOf(String, Leaf))
			Attribute("list", ArrayOf(Leaf))
			Attribute("d", Int, func() {
				Default(4)
				Minimum(2)
			})
			Required("sid")
		})
		HTTP(func() {
			POST("/more")
			Cookie("sid:SID")
			Param("q")
		})
	})
})
