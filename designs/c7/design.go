package design

import . "goa.design/goa/v3/dsl"

var _ = API("c7", func() {})

var UUID = Type("UUID", String, func() { Format(FormatUUID) })
var Count = Type("Count", Int, func() { Minimum(0) })

// alias-typed attributes with a default value mapped to parameters and headers
var _ = Service("svc", func() {
	Method("get", func() {
		Payload(func() {
			Attribute("id", UUID, func() { Default("6ba7b810-9dad-11d1-80b4-00c04fd430c8") })
			Attribute("cnt", Count, func() { Default(3) })
		})
		Result(func() {
			Attribute("rid", UUID, func() { Default("6ba7b810-9dad-11d1-80b4-00c04fd430c8") })
		})
		HTTP(func() {
			GET("/get")
			Param("cnt")
			Header("id:X-Id")
			Response(StatusOK, func() { Header("rid:X-Rid") })
		})
	})
})
