package design

import (
	. "goa.design/goa/v3/dsl"
	"goa.design/goa/v3/expr"
)

var _ = API("c6", func() {})

// one optional parameter of each primitive kind alone in its method: the CLI
// conversion code of each kind must stand on its own (no other flag declares
// the variables it uses)
var _ = Service("svc", func() {
	kinds := []struct {
		name string
		t    expr.DataType
	}{
		{"u64", UInt64}, {"u32", UInt32}, {"u", UInt}, {"i64", Int64}, {"i32", Int32}, {"i", Int},
		{"f64", Float64}, {"f32", Float32}, {"b", Boolean}, {"s", String}, {"by", Bytes},
	}
	for _, k := range kinds {
		k := k
		Method("q_"+k.name, func() {
			Payload(func() { Attribute("v", k.t) })
			HTTP(func() {
				GET("/q/" + k.name)
				Param("v")
			})
		})
		Method("h_"+k.name, func() {
			Payload(func() { Attribute("v", k.t) })
			HTTP(func() {
				GET("/h/" + k.name)
				Header("v:X-V")
			})
		})
	}
	Method("arr", func() {
		Payload(func() { Attribute("v", ArrayOf(UInt64)) })
		HTTP(func() {
			GET("/arr")
			Param("v")
		})
	})
	Method("mp", func() {
		Payload(func() { Attribute("v", MapOf(String, UInt32)) })
		HTTP(func() {
			GET("/mp")
			Param("v")
		})
	})
})
