package design

import . "goa.design/goa/v3/dsl"

var _ = API("a2", func() {})

var TagT = Type("Tag", String, func() { MaxLength(3) })
var Count = Type("Count", Int)

var _ = Service("svc", func() {
	Method("show", func() {
		Payload(func() {
			Attribute("tag", TagT)     // optional alias in query
			Attribute("cnt", Count)   // optional alias in header
			Attribute("rtag", TagT)    // required alias in query
			Required("rtag")
		})
		Result(func() {
			Attribute("kind", String)
			Attribute("addr", String, func() { Format(FormatIPv6) })
			Attribute("n", Int)
			Required("kind")
		})
		HTTP(func() {
			GET("/show")
			Param("tag")
			Param("rtag")
			Header("cnt:X-Cnt")
			Response(StatusOK)
			Response(StatusAccepted, func() { Tag("kind", "a") })
			Response(StatusCreated, func() { Tag("kind", "b") })
		})
	})
})
