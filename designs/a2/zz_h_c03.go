//go:build verif

package vh

import (
	"net/http"

	svc "vdesign/gen/svc"
)

// VerifC03_a2_show: the response selected by the tag value carries the
// designed status, and the result (with an IPv6-formatted attribute) reaches
// the caller; a result violating the format is refused by the client.
func VerifC03_a2_show() {
	kinds := []string{"a", "b", "z", ""}
	res := &svc.ShowResult{Kind: kinds[nondetChoice("kind", len(kinds))]}
	addrValid := true
	switch nondetChoice("addr", 6) {
	case 1:
		v := "::1"
		res.Addr = &v
	case 2:
		v := "2001:db8::" + nondetString("hex", 1)
		res.Addr = &v
		c := v[len(v)-1]
		addrValid = '0' <= c && c <= '9' || 'a' <= c && c <= 'f' || 'A' <= c && c <= 'F'
	case 3:
		v := "::ffff:192.0.2.1"
		res.Addr = &v
	case 4:
		v := "192.0.2.1" // an IPv4 address is not an IPv6 address
		res.Addr = &v
		addrValid = false
	case 5:
		v := "::ffff:c000:201"
		res.Addr = &v
	}
	if nondetBool("n-set") {
		n := nondetInt("n")
		res.N = &n
	}
	want := *res
	p := &svc.ShowPayload{Rtag: "t"}
	got, w, out, derr, err := a2Call(p, res)
	verifAssert("request-served", err == nil && got != nil && w != nil)
	if err != nil || got == nil {
		return
	}
	wantStatus := http.StatusOK
	switch want.Kind {
	case "a":
		wantStatus = http.StatusAccepted
	case "b":
		wantStatus = http.StatusCreated
	}
	verifAssert("status-selected-by-tag", w.status == wantStatus && w.nHeaders == 1)
	if !addrValid {
		verifAssert("client-refuses-result-violating-format", derr != nil && out == nil)
		return
	}
	verifAssert("client-decodes-without-error", derr == nil)
	if derr != nil {
		return
	}
	r, ok := out.(*svc.ShowResult)
	verifAssert("client-result-type", ok && r != nil)
	if !ok || r == nil {
		return
	}
	verifAssert("result:kind", r.Kind == want.Kind)
	verifAssert("result:addr", (r.Addr == nil) == (want.Addr == nil) && (r.Addr == nil || *r.Addr == *want.Addr))
	verifAssert("result:n", (r.N == nil) == (want.N == nil) && (r.N == nil || *r.N == *want.N))
}
