//go:build verif

package vh

import (
	"context"
	"io"
	"net/http"
	"net/url"
	"strings"

	goahttp "goa.design/goa/v3/http"
	client "vdesign/gen/http/svc/client"
	server "vdesign/gen/http/svc/server"
	svc "vdesign/gen/svc"
)

// a2Call drives generated client -> wire -> generated server (real muxer) ->
// wire -> generated client decoder.
func a2Call(p *svc.ShowPayload, result *svc.ShowResult) (got *svc.ShowPayload, w *recWriter, out any, derr error, err error) {
	c := client.NewClient("http", "example.com", nil, nil, nil, false)
	req, err := c.BuildShowRequest(context.Background(), p)
	if err != nil {
		return
	}
	encode := client.EncodeShowRequest(func(*http.Request) goahttp.Encoder {
		return stubEncoder{func(v any) error { return nil }}
	})
	if err = encode(req, p); err != nil {
		return
	}
	target := req.URL.RequestURI()
	u, perr := url.ParseRequestURI(target)
	if perr != nil {
		err = perr
		return
	}
	sreq := &http.Request{Method: req.Method, URL: u, Header: req.Header.Clone(), RequestURI: target}
	eps := &svc.Endpoints{Show: func(ctx context.Context, v any) (any, error) {
		got = v.(*svc.ShowPayload)
		return result, nil
	}}
	mux := goahttp.NewMuxer()
	dec := func(*http.Request) goahttp.Decoder { return stubDecoder{func(v any) error { return nil }} }
	srv := server.New(eps, mux, dec, recEncoder(), nil, nil)
	server.Mount(mux, srv)
	w = newRecWriter()
	mux.ServeHTTP(w, sreq)
	if got == nil || len(w.encoded) != 1 {
		return
	}
	resp := &http.Response{StatusCode: w.status, Header: w.h, Body: io.NopCloser(strings.NewReader(""))}
	decode := client.DecodeShowResponse(func(*http.Response) goahttp.Decoder {
		return stubDecoder{func(v any) error { return verifJSONCopy(v, w.encoded[0]) }}
	}, false)
	out, derr = decode(resp)
	return
}
