//go:build verif

package vh

import (
	svc "vdesign/gen/svc"
)

// VerifC02_a2_show: optional and required parameters of alias types.
func VerifC02_a2_show() {
	p := &svc.ShowPayload{Rtag: svc.Tag(nondetString("rtag", 1) + nondetStringUpTo("rtag-tail", 1))}
	if nondetBool("tag-set") {
		t := svc.Tag(nondetString("tag", 2))
		p.Tag = &t
	}
	if nondetBool("cnt-set") {
		c := svc.Count(nondetInt("cnt"))
		p.Cnt = &c
	}
	want := *p
	got, _, _, _, err := a2Call(p, &svc.ShowResult{Kind: "z"})
	verifAssert("client-encodes-without-error", err == nil)
	if err != nil {
		return
	}
	verifAssert("request-reaches-the-method", got != nil)
	if got == nil {
		return
	}
	verifAssert("query:rtag", got.Rtag == want.Rtag)
	verifAssert("query:tag", (got.Tag == nil) == (want.Tag == nil) && (got.Tag == nil || *got.Tag == *want.Tag))
	verifAssert("header:cnt", (got.Cnt == nil) == (want.Cnt == nil) && (got.Cnt == nil || *got.Cnt == *want.Cnt))
}
