package design

import . "goa.design/goa/v3/dsl"

var _ = API("c10", func() {})

// a result attribute of a non-string primitive type carried in a response cookie
var _ = Service("svc", func() {
	Method("visit", func() {
		Result(func() {
			Attribute("count", Int)
			Attribute("seen", Boolean)
			Attribute("who", String)
			Required("count")
		})
		HTTP(func() {
			GET("/visit")
			Response(StatusOK, func() {
				Cookie("count:visits")
				Cookie("seen")
			})
		})
	})
})
