#!/bin/bash
# usage: confirm_batch3.sh C04-m1 ...   (round 3: /tmp/seed3-<prop>/<m> -> /verif/seeded/<prop>-r3<m>)
for x in "$@"; do p=${x%-*}; m=${x#*-}; /verif/confirm_seed.sh $p $m /tmp/seed3- r3; done
