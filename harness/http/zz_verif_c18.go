//go:build verif

package http

import (
	"context"
	"errors"
	"net/http"

	goa "goa.design/goa/v3/pkg"
)

type verifPlainErr struct{ msg string }

func (e *verifPlainErr) Error() string { return e.msg }

type verifWrap struct {
	msg   string
	inner error
}

func (e *verifWrap) Error() string { return e.msg }
func (e *verifWrap) Unwrap() error { return e.inner }

// VerifC18_HTTPStatusTable: StatusCode is total and follows the documented
// table for every flag combination and name; NewErrorResponse copies fields.
func VerifC18_HTTPStatusTable() {
	to, te, fa := nondetBool("timeout"), nondetBool("temporary"), nondetBool("fault")
	special := nondetBool("special-name")
	name := nondetString("name", 3)
	if special {
		name = goa.UnsupportedMediaType
	} else {
		verifAssume(name != goa.UnsupportedMediaType)
	}
	msg := nondetString("msg", 2)
	id := nondetString("id", 2)
	se := &goa.ServiceError{Name: name, ID: id, Message: msg, Timeout: to, Temporary: te, Fault: fa}
	var err error = se
	if nondetBool("wrapped") {
		err = &verifWrap{msg: "ctx", inner: se}
	}
	st := NewErrorResponse(context.Background(), err)
	resp, ok := st.(*ErrorResponse)
	verifAssert("response-type", ok)
	if !ok {
		return
	}
	verifAssert("fields-copied", resp.Name == name && resp.ID == id && resp.Message == msg && resp.Timeout == to && resp.Temporary == te && resp.Fault == fa)
	want := http.StatusBadRequest
	switch {
	case special:
		want = http.StatusUnsupportedMediaType
	case fa:
		want = http.StatusInternalServerError
	case to && te:
		want = http.StatusGatewayTimeout
	case to:
		want = http.StatusRequestTimeout
	case te:
		want = http.StatusServiceUnavailable
	}
	got := resp.StatusCode()
	verifObserve("status", got)
	verifAssert("status-table", got == want)
}

// VerifC18_HTTPPlainErrorIsFault: a non-ServiceError maps to a 500 fault.
func VerifC18_HTTPPlainErrorIsFault() {
	msg := nondetString("msg", 2)
	var err error = &verifPlainErr{msg}
	if nondetBool("wrapped") {
		err = &verifWrap{msg: msg, inner: errors.New("inner")}
	}
	resp := NewErrorResponse(context.Background(), err).(*ErrorResponse)
	verifAssert("plain-fault-flag", resp.Fault && !resp.Timeout && !resp.Temporary)
	verifAssert("plain-name", resp.Name == "fault")
	verifAssert("plain-message", resp.Message == msg)
	verifAssert("plain-500", resp.StatusCode() == http.StatusInternalServerError)
}
