//go:build verif

package http

import (
	"net/http"
	"net/url"
)

// ---- C16: the router returns the original path values ----

type verifHit struct {
	route   int
	vars    map[string]string
	pattern string
}

// verifServe mounts the given routes on a fresh muxer, sends one request with
// the given method and request-target and reports which handler ran.
func verifServe(routes [][2]string, method, target string) (hit verifHit, w *verifRW, parsed bool) {
	m := NewMuxer()
	hit.route = -1
	for i, r := range routes {
		i := i
		m.Handle(r[0], r[1], func(w http.ResponseWriter, req *http.Request) {
			hit.route = i
			hit.vars = m.Vars(req)
			hit.pattern = m.ResolvePattern(req)
		})
	}
	u, err := url.ParseRequestURI(target)
	if err != nil {
		return hit, nil, false
	}
	req := &http.Request{Method: method, URL: u, Header: http.Header{}, RequestURI: target}
	w = &verifRW{h: http.Header{}}
	m.ServeHTTP(w, req)
	return hit, w, true
}

// verifPctLookalike: the value contains a literal '%' followed by two hex digits.
func verifPctLookalike(v string) bool {
	ishex := func(c byte) bool {
		return '0' <= c && c <= '9' || 'a' <= c && c <= 'f' || 'A' <= c && c <= 'F'
	}
	for i := 0; i+2 < len(v); i++ {
		if v[i] == '%' && ishex(v[i+1]) && ishex(v[i+2]) {
			return true
		}
	}
	return false
}

// verifValue draws a wildcard value from a family of templates.
func verifValue(id string, tmpl int) string {
	switch tmpl {
	case 0:
		return nondetString(id, 1)
	case 1:
		return nondetString(id, 2)
	case 2:
		return "%" + nondetString(id, 2)
	case 3:
		return nondetString(id+"a", 1) + "%" + nondetString(id+"b", 1) + "F"
	case 4:
		return nondetString(id, 3)
	default:
		return nondetString(id, 4)
	}
}

func verifCheckCapture(tag string, got map[string]string, name, v string) {
	g, ok := got[name]
	verifObserve(tag+"got", g)
	verifAssert(tag+"var-present", ok)
	if verifPctLookalike(v) {
		verifAssert(tag+"capture-inverse[pct-lookalike]", g == v)
	} else {
		verifAssert(tag+"capture-inverse", g == v)
	}
}

// /p/{x}
func verifCaptureSingle(tmpls int) {
	v := verifValue("v", nondetChoice("tmpl", tmpls))
	verifAssume(v != "")
	target := "/p/" + url.PathEscape(v)
	hit, _, parsed := verifServe([][2]string{{"GET", "/p/{x}"}}, "GET", target)
	verifAssert("target-parses", parsed)
	if !parsed {
		return
	}
	verifAssert("routed-to-pattern", hit.route == 0)
	if hit.route != 0 {
		return
	}
	verifAssert("one-var", len(hit.vars) == 1)
	verifCheckCapture("", hit.vars, "x", v)
	verifAssert("resolved-pattern", hit.pattern == "/p/{x}")
	verifReach("single-done")
}

func VerifC16_CaptureSingle()  { verifCaptureSingle(4) }
func VerifC16T_CaptureSingle3() { verifCaptureSingle(5) }

// /p/{x}/q and /{x}/{y}: wildcard in the middle, two wildcards
func VerifC16_CaptureMid() {
	v := verifValue("v", nondetChoice("tmpl", 2)*2) // templates 0 and 2
	verifAssume(v != "")
	hit, _, parsed := verifServe([][2]string{{"GET", "/p/{x}/q"}}, "GET", "/p/"+url.PathEscape(v)+"/q")
	verifAssert("mid:target-parses", parsed)
	if !parsed {
		return
	}
	verifAssert("mid:routed", hit.route == 0)
	if hit.route != 0 {
		return
	}
	verifCheckCapture("mid:", hit.vars, "x", v)
	verifAssert("mid:resolved-pattern", hit.pattern == "/p/{x}/q")
}

func VerifC16_CaptureTwo() {
	var x, y string
	switch nondetChoice("shape", 3) {
	case 0:
		x, y = nondetString("x", 1), nondetString("y", 1)
	case 1:
		x, y = verifValue("x", 2), "k"
	default:
		x, y = "k", verifValue("y", 2)
	}
	verifAssume(x != "" && y != "")
	hit, _, parsed := verifServe([][2]string{{"GET", "/{x}/{y}"}}, "GET", "/"+url.PathEscape(x)+"/"+url.PathEscape(y))
	verifAssert("two:target-parses", parsed)
	if !parsed {
		return
	}
	verifAssert("two:routed", hit.route == 0)
	if hit.route != 0 {
		return
	}
	verifAssert("two:two-vars", len(hit.vars) == 2)
	verifCheckCapture("two:x:", hit.vars, "x", x)
	verifCheckCapture("two:y:", hit.vars, "y", y)
	verifAssert("two:resolved-pattern", hit.pattern == "/{x}/{y}")
}

// trailing catch-all: the client escapes each segment and joins with '/'
func verifCatchAll(pattern, prefix string) {
	var a string
	two := false
	switch nondetChoice("shape", 3) {
	case 0:
		a = verifValue("a", 0)
	case 1:
		a = verifValue("a", 2)
	default:
		a, two = verifValue("a", 0), true
	}
	var v, target string
	if two {
		b := nondetString("b", 1)
		v = a + "/" + b
		target = prefix + url.PathEscape(a) + "/" + url.PathEscape(b)
	} else {
		v = a
		target = prefix + url.PathEscape(a)
	}
	hit, _, parsed := verifServe([][2]string{{"GET", pattern}}, "GET", target)
	verifAssert("catchall:target-parses", parsed)
	if !parsed {
		return
	}
	verifAssert("catchall:routed", hit.route == 0)
	if hit.route != 0 {
		return
	}
	verifAssert("catchall:one-var", len(hit.vars) == 1)
	// a '/' inside a segment value is escaped by the client and must come back
	verifCheckCapture("catchall:", hit.vars, "x", v)
	verifAssert("catchall:resolved-pattern", hit.pattern == pattern)
}

func VerifC16_CatchAll()     { verifCatchAll("/p/{*x}", "/p/") }
func VerifC16_RootCatchAll() { verifCatchAll("/{*x}", "/") }

// dispatch: two routes sharing a prefix, two methods on one pattern
func VerifC16_DispatchSharedPrefix() {
	v := nondetString("v", 1)
	verifAssume(v != "")
	long := nondetBool("long")
	target := "/p/" + url.PathEscape(v)
	if long {
		target += "/q"
	}
	routes := [][2]string{{"GET", "/p/{x}"}, {"GET", "/p/{y}/q"}, {"GET", "/p/lit"}}
	hit, _, parsed := verifServe(routes, "GET", target)
	verifAssert("dispatch:parses", parsed)
	if !parsed {
		return
	}
	switch {
	case long:
		verifAssert("dispatch:long-route", hit.route == 1 && hit.pattern == "/p/{y}/q")
		if hit.route == 1 {
			verifCheckCapture("dispatch:long:", hit.vars, "y", v)
		}
	case v == "lit":
		verifAssert("dispatch:literal-wins", hit.route == 2)
	default:
		verifAssert("dispatch:short-route", hit.route == 0 && hit.pattern == "/p/{x}")
		if hit.route == 0 {
			verifCheckCapture("dispatch:short:", hit.vars, "x", v)
		}
	}
}

func VerifC16_DispatchTwoMethods() {
	v := nondetString("v", 1)
	verifAssume(v != "")
	methods := []string{"GET", "POST", "DELETE"}
	mi := nondetChoice("method", 3)
	routes := [][2]string{{"GET", "/a/{*g}"}, {"POST", "/a/{*p}"}}
	hit, w, parsed := verifServe(routes, methods[mi], "/a/"+url.PathEscape(v))
	verifAssert("methods:parses", parsed)
	if !parsed {
		return
	}
	switch mi {
	case 0:
		verifAssert("methods:get-route", hit.route == 0 && hit.pattern == "/a/{*g}")
		if hit.route == 0 {
			verifCheckCapture("methods:get:", hit.vars, "g", v)
		}
	case 1:
		verifAssert("methods:post-route", hit.route == 1 && hit.pattern == "/a/{*p}")
		if hit.route == 1 {
			verifCheckCapture("methods:post:", hit.vars, "p", v)
		}
	default:
		verifAssert("methods:other-method-not-dispatched", hit.route == -1 && w.status == 405)
	}
}

// a middleware registered on the muxer reads the pattern and the variables
// before the request is routed; the handler reads them again afterwards
func VerifC16_Middleware() {
	patterns := []string{"/p/{x}", "/p/{*x}", "/p/{x}/f/{*y}"}
	pi := nondetChoice("pattern", len(patterns))
	v := nondetString("v", 1)
	verifAssume(v != "")
	target := "/p/" + url.PathEscape(v)
	if pi == 2 {
		target += "/f/t"
	}
	m := NewMuxer()
	var mwVars, hVars map[string]string
	var mwPattern, hPattern string
	mwRan, hRan := false, false
	m.Use(func(next http.Handler) http.Handler {
		return http.HandlerFunc(func(w http.ResponseWriter, r *http.Request) {
			mwRan = true
			if nondetBool("middleware-reads-pattern-first") {
				mwPattern, mwVars = m.ResolvePattern(r), m.Vars(r)
			} else {
				mwVars, mwPattern = m.Vars(r), m.ResolvePattern(r)
			}
			next.ServeHTTP(w, r)
		})
	})
	m.Handle("GET", patterns[pi], func(w http.ResponseWriter, r *http.Request) {
		hRan = true
		hVars, hPattern = m.Vars(r), m.ResolvePattern(r)
	})
	u, err := url.ParseRequestURI(target)
	verifAssert("middleware:target-parses", err == nil)
	if err != nil {
		return
	}
	m.ServeHTTP(&verifRW{h: http.Header{}}, &http.Request{Method: "GET", URL: u, Header: http.Header{}, RequestURI: target})
	verifAssert("middleware:both-ran", mwRan && hRan)
	if !mwRan || !hRan {
		return
	}
	verifAssert("middleware:handler-pattern-is-the-registered-one", hPattern == patterns[pi])
	verifCheckCapture("middleware:handler:", hVars, "x", v)
	if pi == 2 {
		verifAssert("middleware:handler-catch-all", hVars["y"] == "t" && len(hVars) == 2)
	} else {
		verifAssert("middleware:handler-one-var", len(hVars) == 1)
	}
	verifAssert("middleware:pattern-reported-is-the-registered-one", mwPattern == patterns[pi])
	verifCheckCapture("middleware:seen-by-middleware:", mwVars, "x", v)
}

// a request that matches no pattern gets one 404 response carrying goa's error body
func VerifC16_NotFound() {
	v := nondetString("v", 1)
	verifAssume(v != "")
	accepts := []string{"", "application/json", "application/xml", "text/html"}
	accept := accepts[nondetChoice("accept", len(accepts))]
	var target string
	switch nondetChoice("miss", 3) {
	case 0: // other literal prefix
		target = "/q/" + url.PathEscape(v)
	case 1: // one segment too many
		target = "/p/" + url.PathEscape(v) + "/more"
	default: // the bare prefix
		target = "/p"
	}
	m := NewMuxer()
	ran := false
	m.Handle("GET", "/p/{x}", func(w http.ResponseWriter, req *http.Request) { ran = true })
	u, err := url.ParseRequestURI(target)
	verifAssert("notfound:target-parses", err == nil)
	if err != nil {
		return
	}
	if u.RawPath == "" && v == "/" {
		return
	}
	hdr := http.Header{}
	if accept != "" {
		hdr.Set("Accept", accept)
	}
	w := &verifRW{h: http.Header{}}
	m.ServeHTTP(w, &http.Request{Method: "GET", URL: u, Header: hdr, RequestURI: target})
	verifAssert("notfound:no-handler-ran", !ran)
	verifAssert("notfound:exactly-one-404", w.wrote == 1 && w.status == http.StatusNotFound)
	if accept == "text/html" {
		// known: the text encoder cannot write an *ErrorResponse
		verifAssert("notfound:body-written[text-accept]", w.buf.Len() > 0)
		return
	}
	verifAssert("notfound:body-written", w.buf.Len() > 0)
	// the header as committed with the status line, not the live map
	ct := w.sent.Get("Content-Type")
	if accept == "application/xml" {
		verifAssert("notfound:negotiated-xml", ct == "application/xml")
	} else {
		verifAssert("notfound:json-by-default", ct == "application/json")
	}
}
