//go:build verif

package http

import (
	"net/http"
	"net/url"
)

// ---- C16: the router returns the original path values ----

type verifHit struct {
	route   int
	vars    map[string]string
	pattern string
}

// verifServe mounts the given routes on a fresh muxer, sends one request with
// the given method and request-target and reports which handler ran.
func verifServe(routes [][2]string, method, target string) (hit verifHit, w *verifRW, parsed bool) {
	m := NewMuxer()
	hit.route = -1
	for i, r := range routes {
		i := i
		m.Handle(r[0], r[1], func(w http.ResponseWriter, req *http.Request) {
			hit.route = i
			hit.vars = m.Vars(req)
			hit.pattern = m.ResolvePattern(req)
		})
	}
	u, err := url.ParseRequestURI(target)
	if err != nil {
		return hit, nil, false
	}
	req := &http.Request{Method: method, URL: u, Header: http.Header{}, RequestURI: target}
	w = &verifRW{h: http.Header{}}
	m.ServeHTTP(w, req)
	return hit, w, true
}

// verifPctLookalike: the value contains a literal '%' followed by two hex digits.
func verifPctLookalike(v string) bool {
	ishex := func(c byte) bool {
		return '0' <= c && c <= '9' || 'a' <= c && c <= 'f' || 'A' <= c && c <= 'F'
	}
	for i := 0; i+2 < len(v); i++ {
		if v[i] == '%' && ishex(v[i+1]) && ishex(v[i+2]) {
			return true
		}
	}
	return false
}

func verifCaptureSingle(n int) {
	v := nondetString("v", n)
	verifAssume(v != "")
	target := "/p/" + url.PathEscape(v)
	hit, _, parsed := verifServe([][2]string{{"GET", "/p/{x}"}}, "GET", target)
	verifAssert("target-parses", parsed)
	if !parsed {
		return
	}
	verifAssert("routed-to-pattern", hit.route == 0)
	if hit.route != 0 {
		return
	}
	got, ok := hit.vars["x"]
	verifObserve("got", got)
	verifAssert("var-present", ok && len(hit.vars) == 1)
	if verifPctLookalike(v) {
		verifAssert("capture-inverse[pct-lookalike]", got == v)
	} else {
		verifAssert("capture-inverse", got == v)
	}
	verifAssert("resolved-pattern", hit.pattern == "/p/{x}")
}

func VerifC16_CaptureSingle1() { verifCaptureSingle(1) }
func VerifC16_CaptureSingle2() { verifCaptureSingle(2) }
func VerifC16_CaptureSingle3() { verifCaptureSingle(3) }
func VerifC16T_CaptureSingle4() { verifCaptureSingle(4) }
