//go:build verif

package http

import (
	"context"
	"errors"
	"net/http"
	"net/url"
	"strings"

	goa "goa.design/goa/v3/pkg"
)

// ---- C20 (http): shared helpers under two concurrent invocations ----

type verifCapEnc struct{ got *[]any }

func (e verifCapEnc) Encode(v any) error { *e.got = append(*e.got, v); return nil }

func VerifC20_ErrorEncoder() {
	var formatter func(ctx context.Context, err error) Statuser
	if nondetBool("custom-formatter") {
		formatter = func(ctx context.Context, err error) Statuser { return NewErrorResponse(ctx, err) }
	}
	var got0, got1 []any
	factory := func(ctx context.Context, w http.ResponseWriter) Encoder {
		if w.(*verifRW).status == -1 {
			return verifCapEnc{&got1}
		}
		return verifCapEnc{&got0}
	}
	enc := ErrorEncoder(factory, formatter)
	m0, m1 := nondetString("m0", 1), nondetString("m1", 1)
	w0, w1 := &verifRW{h: http.Header{}}, &verifRW{h: http.Header{}, status: -1}
	verifInterleave(
		func() { enc(context.Background(), w0, goa.PermanentError("e0", "%s", m0)) },
		func() { enc(context.Background(), w1, errors.New(m1)) },
	)
	verifRaceFree("error-encoder")
	verifAssert("each-response-from-its-own-request", len(got0) == 1 && len(got1) == 1 &&
		got0[0].(*ErrorResponse).Message == m0 && got0[0].(*ErrorResponse).Name == "e0" && w0.status == 400 &&
		got1[0].(*ErrorResponse).Message == m1 && got1[0].(*ErrorResponse).Fault && w1.status == 500)
}

func VerifC20_EncodersDecoders() {
	accepts := []string{"", "application/xml", "application/json;q=1", "text/plain", "APPLICATION/GOB", "x"}
	a0, a1 := accepts[nondetChoice("a0", len(accepts))], accepts[nondetChoice("a1", len(accepts))]
	var k0, k1 int
	var h0, h1 string
	verifInterleave(
		func() { k0, _, h0, _, _ = verifRespRoundTrip(a0, "", "") },
		func() { k1, _, h1, _, _ = verifRespRoundTrip(a1, "", "") },
	)
	verifRaceFree("response-encoder")
	e0, _, g0, _, _ := verifRespRoundTrip(a0, "", "")
	e1, _, g1, _, _ := verifRespRoundTrip(a1, "", "")
	verifAssert("negotiation-depends-on-own-request-only", k0 == e0 && k1 == e1 && h0 == g0 && h1 == g1)
}

func VerifC20_MuxVars() {
	m := NewMuxer()
	var v0, v1 map[string]string
	var p0, p1 string
	m.Handle("GET", "/a/{x}", func(w http.ResponseWriter, r *http.Request) { v0, p0 = m.Vars(r), m.ResolvePattern(r) })
	m.Handle("GET", "/b/{*y}", func(w http.ResponseWriter, r *http.Request) { v1, p1 = m.Vars(r), m.ResolvePattern(r) })
	x, y := nondetString("x", 1), nondetString("y", 1)
	u0, err0 := url.ParseRequestURI("/a/" + url.PathEscape(x))
	u1, err1 := url.ParseRequestURI("/b/" + url.PathEscape(y))
	verifAssume(err0 == nil && err1 == nil && x != "")
	verifInterleave(
		func() { m.ServeHTTP(&verifRW{h: http.Header{}}, &http.Request{Method: "GET", URL: u0, Header: http.Header{}}) },
		func() { m.ServeHTTP(&verifRW{h: http.Header{}}, &http.Request{Method: "GET", URL: u1, Header: http.Header{}}) },
	)
	verifRaceFree("mounted-muxer")
	verifAssert("vars-of-own-request", v0["x"] == x && v1["y"] == y && p0 == "/a/{x}" && p1 == "/b/{*y}")
}

// VerifC20_MuxVarsFromMiddleware: Vars called from a muxer middleware, i.e.
// before the request has been routed (what logging/tracing middlewares do).
func VerifC20_MuxVarsFromMiddleware() {
	m := NewMuxer()
	var mv0, mv1, hv0, hv1 map[string]string
	m.Use(func(next http.Handler) http.Handler {
		return http.HandlerFunc(func(w http.ResponseWriter, r *http.Request) {
			if r.Header.Get("X-Req") == "1" {
				mv1 = m.Vars(r)
			} else {
				mv0 = m.Vars(r)
			}
			next.ServeHTTP(w, r)
		})
	})
	m.Handle("GET", "/a/{x}", func(w http.ResponseWriter, r *http.Request) { hv0 = m.Vars(r) })
	m.Handle("GET", "/b/{*y}", func(w http.ResponseWriter, r *http.Request) { hv1 = m.Vars(r) })
	x, y := nondetString("x", 1), nondetString("y", 1)
	u0, err0 := url.ParseRequestURI("/a/" + url.PathEscape(x))
	u1, err1 := url.ParseRequestURI("/b/" + url.PathEscape(y))
	verifAssume(err0 == nil && err1 == nil && x != "")
	verifInterleave(
		func() {
			m.ServeHTTP(&verifRW{h: http.Header{}}, &http.Request{Method: "GET", URL: u0, Header: http.Header{"X-Req": {"0"}}})
		},
		func() {
			m.ServeHTTP(&verifRW{h: http.Header{}}, &http.Request{Method: "GET", URL: u1, Header: http.Header{"X-Req": {"1"}}})
		},
	)
	verifRaceFree("muxer-middleware")
	verifAssert("middleware-sees-vars-of-own-request", mv0["x"] == x && mv1["y"] == y && len(mv0) == 1 && len(mv1) == 1)
	verifAssert("handler-sees-vars-of-own-request", hv0["x"] == x && hv1["y"] == y)
}

// VerifC20_TextDecoderBytes: the bytes decoded for one request are still that
// request's bytes after the next body has been decoded (no buffer shared
// between requests survives in a payload).
func VerifC20_TextDecoderBytes() {
	b0, b1 := nondetString("b0", 2), nondetString("b1", 2)
	ok := true
	for rep := 0; rep < verifNativeRepeat() && ok; rep++ {
		var o0, o1 []byte
		e0 := newTextDecoder(strings.NewReader(b0), "text/plain").Decode(&o0)
		e1 := newTextDecoder(strings.NewReader(b1), "text/plain").Decode(&o1)
		ok = e0 == nil && e1 == nil && string(o0) == b0 && string(o1) == b1
	}
	verifAssert("decoded-bytes-stay-those-of-their-own-request", ok)
	var s0 string
	var p0, p1 []byte
	verifInterleave(
		func() { newTextDecoder(strings.NewReader(b0), "text/plain").Decode(&p0) },
		func() { newTextDecoder(strings.NewReader(b1), "text/plain").Decode(&p1); newTextDecoder(strings.NewReader(b1), "text/html").Decode(&s0) },
	)
	verifRaceFree("text-decoder")
	verifAssert("concurrent-decodes-keep-their-own-bytes", string(p0) == b0 && string(p1) == b1 && s0 == b1)
}

// VerifC20_AcceptNegotiationInterleaved: after some earlier request, two
// requests negotiate their response encoding at the same time; the first one
// may be preempted at any of its synchronisation operations. Each gets the
// encoder of its own Accept header.
func VerifC20_AcceptNegotiationInterleaved() {
	accepts := []string{"application/xml; q=0.9", "application/json; q=0.8", "application/gob;q=1"}
	kinds := []int{kXML, kJSON, kGob}
	wi, i0, i1 := nondetChoice("earlier", 3), nondetChoice("a0", 3), nondetChoice("a1", 3)
	ok := true
	reps := verifNativeRepeat() // 1 in the executor (which explores the preemption points instead)
	if reps > 1 {
		reps *= 1500
	}
	for rep := 0; rep < reps && ok; rep++ {
		verifRespRoundTrip(accepts[wi], "", "") // an earlier request
		var k0, k1 int
		verifInterleave(
			func() { k0, _, _, _, _ = verifRespRoundTrip(accepts[i0], "", "") },
			func() { k1, _, _, _, _ = verifRespRoundTrip(accepts[i1], "", "") },
		)
		ok = k0 == kinds[i0] && k1 == kinds[i1]
	}
	verifRaceFree("accept-negotiation")
	verifAssert("negotiated-encoding-is-that-of-the-own-request-under-preemption", ok)
}
