//go:build verif

package http

import (
	"bytes"
	"context"
	"encoding/gob"
	"encoding/json"
	"encoding/xml"
	"errors"
	"io"
	"mime"
	"net/http"
	"strings"

	goa "goa.design/goa/v3/pkg"
)

// ---- C15: bodies are encoded as the Content-Type announces ----

type verifRW struct {
	h      http.Header
	buf    bytes.Buffer
	status int
	wrote  int
	// sent is the header as it stood when the response was committed (first
	// WriteHeader or Write), which is what net/http puts on the wire
	sent http.Header
}

func (w *verifRW) Header() http.Header { return w.h }
func (w *verifRW) Write(b []byte) (int, error) {
	if w.sent == nil {
		w.sent = w.h.Clone()
	}
	return w.buf.Write(b)
}
func (w *verifRW) WriteHeader(s int) {
	if w.sent == nil {
		w.sent = w.h.Clone()
	}
	w.status = s
	w.wrote++
}

const (
	kNil = iota
	kJSON
	kXML
	kGob
	kText
	kUnsupported
	kOther
)

func verifEncKind(e Encoder) int {
	switch e.(type) {
	case nil:
		return kNil
	case *json.Encoder:
		return kJSON
	case *xml.Encoder:
		return kXML
	case *gob.Encoder:
		return kGob
	case *textEncoder:
		return kText
	}
	return kOther
}

func verifDecKind(d Decoder) int {
	switch d.(type) {
	case nil:
		return kNil
	case *json.Decoder:
		return kJSON
	case *xml.Decoder:
		return kXML
	case *gob.Decoder:
		return kGob
	case *textDecoder:
		return kText
	case *unsupportedDecoder:
		return kUnsupported
	}
	return kOther
}

// verifTemplate returns a media-type string from a family of templates with
// n symbolic bytes ("holes").
func verifTemplate(id string, n int) string {
	switch nondetChoice(id+"-tmpl", 9) {
	case 0:
		return ""
	case 1:
		return nondetString(id+"-raw", n)
	case 2:
		return "application/" + nondetString(id+"-sub", n)
	case 3:
		return "text/" + nondetString(id+"-sub", n)
	case 4:
		return "application/json" + nondetString(id+"-tail", 2)
	case 5:
		return "application/xml;" + nondetString(id+"-param", 3)
	case 6:
		return nondetString(id+"-head", 1) + "pplication/gob"
	case 7:
		return "application/vnd.x+" + nondetString(id+"-suffix", n)
	default:
		return "text/plain" + nondetString(id+"-tail", 2)
	}
}

// verifTemplateT: further families for the thorough tier (lists, q-values,
// wildcards, parameters, structured suffixes, case).
func verifTemplateT(id string) string {
	switch nondetChoice(id+"-tmplT", 8) {
	case 0:
		return "application/json, " + nondetString(id+"-second", 2)
	case 1:
		return "*/*;q=" + nondetString(id+"-q", 2)
	case 2:
		return "application/gob;" + nondetString(id+"-param", 2) + "=1"
	case 3:
		return "text/html" + nondetString(id+"-tail", 1) + "charset=utf-8"
	case 4:
		return "application/xm" + nondetString(id+"-last", 1) + nondetStringUpTo(id+"-more", 1)
	case 5:
		return nondetString(id+"-type", 2) + "/plain"
	case 6:
		return "application/vnd.api+" + nondetString(id+"-sfx", 1) + "son"
	default:
		return "Text/" + nondetString(id+"-sub", 1) + "LAIN"
	}
}

func verifRespRoundTrip(accept, designed, preset string) (encKind, decKind int, hdr string, w *verifRW, enc Encoder) {
	w = &verifRW{h: http.Header{}}
	if preset != "" {
		w.h.Set("Content-Type", preset)
	}
	ctx := context.Background()
	if accept != "" {
		ctx = context.WithValue(ctx, AcceptTypeKey, accept)
	}
	if designed != "" {
		ctx = context.WithValue(ctx, ContentTypeKey, designed)
	}
	enc = ResponseEncoder(ctx, w)
	hdr = w.h.Get("Content-Type")
	resp := &http.Response{Header: w.h, Body: io.NopCloser(&w.buf)}
	dec := ResponseDecoder(resp)
	return verifEncKind(enc), verifDecKind(dec), hdr, w, enc
}

// VerifC15_AcceptNegotiation: no designed content type; every Accept value.
func VerifC15_AcceptNegotiation() { verifAcceptNegotiation(2) }

// thorough: wider holes
func VerifC15T_AcceptNegotiationMore() { verifAcceptNegotiation(0) }

// verifKindOf: the encoder kind documented for an exact media type.
func verifKindOf(mt string) int {
	switch mt {
	case "", "application/json":
		return kJSON
	case "application/xml":
		return kXML
	case "application/gob":
		return kGob
	case "text/html", "text/plain":
		return kText
	}
	return kNil
}

func verifAcceptNegotiation(n int) {
	var accept string
	if n == 0 {
		accept = verifTemplateT("accept")
	} else {
		accept = verifTemplate("accept", n)
	}
	ek, dk, hdr, _, _ := verifRespRoundTrip(accept, "", "")
	verifObserve("enc", ek)
	verifObserve("dec", dk)
	verifObserve("hdr", hdr)
	verifAssert("encoder-not-nil", ek != kNil && ek != kOther)
	verifAssert("header-set", hdr != "")
	verifAssert("encoder-matches-announced-type", ek == dk)
	// reference: exact supported value, else the value with parameters and
	// case normalised, else JSON
	want, wantHdr := verifKindOf(accept), accept
	if want == kNil {
		if mt, _, err := mime.ParseMediaType(accept); err == nil {
			want, wantHdr = verifKindOf(mt), mt
		}
	}
	if want == kNil || wantHdr == "" {
		want, wantHdr = kJSON, "application/json"
	}
	verifAssert("negotiated-kind", ek == want)
	verifAssert("negotiated-header", hdr == wantHdr)
	verifReach("accept-done")
}

// VerifC15_DesignedContentType: content type fixed in the design (parsable).
func VerifC15_DesignedContentType() { verifDesigned(2) }

func VerifC15T_DesignedContentTypeMore() { verifDesigned(0) }

func verifDesigned(n int) {
	var designed string
	if n == 0 {
		designed = verifTemplateT("designed")
	} else {
		designed = verifTemplate("designed", n)
	}
	verifAssume(designed != "")
	accept := ""
	if nondetBool("with-accept") {
		accept = "application/xml"
	}
	ek, dk, hdr, _, _ := verifRespRoundTrip(accept, designed, "")
	verifObserve("enc", ek)
	verifObserve("dec", dk)
	verifObserve("hdr", hdr)
	mt, _, err := mime.ParseMediaType(designed)
	if err != nil {
		// designed content type that is not a media type: documented default is JSON
		verifAssert("designed-unparsable:json-fallback", ek == kJSON && dk == kJSON)
		return
	}
	want := kJSON
	switch {
	case mt == "application/json" || strings.HasSuffix(mt, "+json"):
		want = kJSON
	case mt == "application/xml" || strings.HasSuffix(mt, "+xml"):
		want = kXML
	case mt == "application/gob" || strings.HasSuffix(mt, "+gob"):
		want = kGob
	case mt == "text/html" || mt == "text/plain" || strings.HasSuffix(mt, "+html") || strings.HasSuffix(mt, "+txt"):
		want = kText
	}
	verifAssert("designed:kind-by-type-or-suffix", ek == want)
	verifAssert("designed:encoder-matches-announced-type", ek == dk)
	verifAssert("designed:header-is-designed-type", hdr == mt)
	verifReach("designed-done")
}

// VerifC15_TextRoundTrip: text kinds carry the bytes unchanged; values a text
// encoder cannot take are an Encode error, not a silent mismatch.
func VerifC15_TextRoundTrip() {
	ct := "text/plain"
	if nondetBool("html") {
		ct = "text/html"
	}
	viaAccept := nondetBool("via-accept")
	var ek, dk int
	var w *verifRW
	var enc Encoder
	if viaAccept {
		ek, dk, _, w, enc = verifRespRoundTrip(ct, "", "")
	} else {
		ek, dk, _, w, enc = verifRespRoundTrip("", ct, "")
	}
	verifAssert("text-kinds", ek == kText && dk == kText)
	if ek != kText {
		return
	}
	body := nondetString("body", 3)
	switch nondetChoice("value-kind", 4) {
	case 0:
		verifAssert("text-encode-string", enc.Encode(body) == nil)
	case 1:
		verifAssert("text-encode-string-ptr", enc.Encode(&body) == nil)
	case 2:
		verifAssert("text-encode-bytes", enc.Encode([]byte(body)) == nil)
	default:
		verifAssert("text-encode-struct-is-error", enc.Encode(struct{ A int }{1}) != nil)
		return
	}
	resp := &http.Response{Header: w.h, Body: io.NopCloser(&w.buf)}
	dec := ResponseDecoder(resp)
	if nondetBool("into-bytes") {
		var got []byte
		verifAssert("text-decode-bytes-ok", dec.Decode(&got) == nil)
		verifAssert("text-round-trip-bytes", string(got) == body)
	} else {
		var got string
		verifAssert("text-decode-string-ok", dec.Decode(&got) == nil)
		verifAssert("text-round-trip", got == body)
	}
}

// VerifC15_RequestDecoder: supported request media types pick the matching
// decoder, unsupported ones are refused and map to 415.
func VerifC15_RequestDecoder() { verifRequestDecoder(2) }

func VerifC15T_RequestDecoderMore() { verifRequestDecoder(0) }

func verifRequestDecoder(n int) {
	var ct string
	if n == 0 {
		ct = verifTemplateT("ct")
	} else {
		ct = verifTemplate("ct", n)
	}
	r := &http.Request{Header: http.Header{}, Body: io.NopCloser(strings.NewReader("x"))}
	if ct != "" {
		r.Header.Set("Content-Type", ct)
	}
	dec := RequestDecoder(r)
	dk := verifDecKind(dec)
	verifObserve("dec", dk)
	verifAssert("decoder-not-nil", dk != kNil && dk != kOther)
	// reference: missing => JSON; otherwise the media type without
	// parameters (the raw value if it is not a media type) selects the
	// decoder and anything unsupported is refused
	norm := ct
	if mt, _, err := mime.ParseMediaType(ct); err == nil {
		norm = mt
	}
	want := verifKindOf(norm)
	if want == kNil {
		want = kUnsupported
	}
	verifAssert("request-decoder-kind", dk == want)
	if dk == kUnsupported {
		var v string
		err := dec.Decode(&v)
		verifAssert("unsupported-decode-fails", err != nil)
		var se *goa.ServiceError
		verifAssert("unsupported-error-name", errors.As(err, &se) && se.Name == goa.UnsupportedMediaType)
		st := NewErrorResponse(context.Background(), err)
		verifAssert("unsupported-maps-to-415", st.StatusCode() == http.StatusUnsupportedMediaType)
		verifReach("saw-415")
	}
}

// VerifC15_RequestEncoder: request bodies are JSON and announced as JSON when
// no content type was pre-set; RequestDecoder reads them back as JSON.
func VerifC15_RequestEncoder() {
	r := &http.Request{Header: http.Header{}}
	enc := RequestEncoder(r)
	verifAssert("req-enc-json", verifEncKind(enc) == kJSON)
	verifAssert("req-enc-header", r.Header.Get("Content-Type") == "application/json")
	verifAssert("req-enc-body-set", r.Body != nil)
	verifAssert("req-dec-json", verifDecKind(RequestDecoder(r)) == kJSON)
}

// VerifC15_PresetContentType: the handler (or a middleware) has already set a
// response Content-Type before goa's encoder runs.
func VerifC15_PresetContentType() {
	var preset string
	withParams, hasPlus := false, false
	xmlSuffix := false
	switch nondetChoice("preset", 7) {
	case 6:
		// a structured-syntax suffix spelled in any letter case
		suf := nondetString("suffix", 3)
		verifAssume(suf[0]|0x20 == 'x' && suf[1]|0x20 == 'm' && suf[2]|0x20 == 'l')
		preset = "application/vnd.z+" + suf
		if nondetBool("with-charset") {
			preset += "; charset=utf-8"
			withParams = true
		}
		hasPlus, xmlSuffix = true, true
	case 5:
		preset = "text/plain; profile=" + nondetString("profile", 2)
		verifAssume(visible(preset))
		withParams = true
	case 0:
		preset = "application/vnd.api"
	case 1:
		preset = "application/" + nondetString("sub", 2)
		verifAssume(visible(preset))
	case 2:
		preset = "text/plain; charset=utf-8"
		withParams = true
	case 3:
		preset = "application/vnd.x+json"
		hasPlus = true
	default:
		preset = "application/vnd.y;v=" + nondetString("ver", 1)
		verifAssume(visible(preset))
		withParams = true
	}
	// precondition on the caller: the header it set is a well-formed media type
	_, _, perr := mime.ParseMediaType(preset)
	verifAssume(perr == nil)
	accepts := []string{"", "application/json", "application/xml", "application/gob", "text/plain"}
	accept := accepts[nondetChoice("accept", len(accepts))]
	ek, dk, hdr, _, _ := verifRespRoundTrip(accept, "", preset)
	verifObserve("hdr", hdr)
	verifAssert("preset:encoder-not-nil", ek != kNil && ek != kOther)
	changed := hdr != preset
	// a structured-syntax suffix is part of the media type, not of its parameters
	for i := 0; i < len(preset) && preset[i] != ';'; i++ {
		if preset[i] == '+' {
			hasPlus = true
		}
	}
	switch {
	case !changed:
		// goa left the caller's header alone: the caller announced the format
	case withParams:
		verifAssert("preset:encoder-matches-rewritten-header-with-parameters", ek == dk)
	default:
		verifAssert("preset:encoder-matches-rewritten-header", ek == dk)
	}
	if !changed && xmlSuffix && ek == kXML {
		// media types are case-insensitive: the header the caller left announces XML
		verifAssert("preset:suffix-read-case-insensitively", dk == kXML)
	}
	if !changed && !hasPlus && (ek == kJSON || ek == kXML) {
		verifAssert("preset:suffix-appended-for-json-xml", false)
	}
}

func visible(s string) bool {
	for i := 0; i < len(s); i++ {
		if s[i] <= 0x20 || s[i] >= 0x7f {
			return false
		}
	}
	return true
}
