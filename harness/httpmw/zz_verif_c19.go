//go:build verif

package middleware

import (
	"context"
	"net/http"

	"goa.design/goa/v3/middleware"
	"net/url"
	"regexp"
	"io"
	"strings"
)

// ---- C19 (HTTP): request id, trace propagation, sampling, capture ----

type verifW struct {
	h       http.Header
	status  int
	written int
	short   func(n int) int
}

func (w *verifW) Header() http.Header { return w.h }
func (w *verifW) WriteHeader(s int) {
	// as net/http: informational (1xx) responses are interim, the first other
	// status is the one that is committed
	if w.status == 0 || (w.status >= 100 && w.status < 200) {
		w.status = s
	}
}
func (w *verifW) Write(b []byte) (int, error) {
	n := len(b)
	if w.short != nil {
		n = w.short(len(b))
	}
	w.written += n
	return n, nil
}

func verifStringCtx(ctx context.Context, key any) (string, bool) {
	v := ctx.Value(key)
	if v == nil {
		return "", false
	}
	s, ok := v.(string)
	return s, ok
}

// VerifC19_RequestIDHTTP: every option combination and inbound value.
func VerifC19_RequestIDHTTP() {
	var opts []middleware.RequestIDOption
	trust := false
	header := "X-Request-Id"
	switch nondetChoice("trust-option", 6) {
	case 0: // default: never trust
	case 1:
		opts = append(opts, UseXRequestIDHeaderOption(true))
		trust = true
	case 2:
		opts = append(opts, UseXRequestIDHeaderOption(false))
	case 3:
		opts = append(opts, RequestIDHeaderOption("Custom-Id"))
		trust, header = true, "Custom-Id"
	case 4: // header names are case-insensitive: a name that is not in canonical form
		opts = append(opts, RequestIDHeaderOption("x-correlation-id"))
		trust, header = true, "x-correlation-id"
	case 5:
		opts = append(opts, RequestIDHeaderOption("X-REQ-ID"))
		trust, header = true, "X-REQ-ID"
	}
	limit := 0
	if nondetBool("with-limit") {
		limit = nondetInt("limit")
		verifAssume(limit >= -1 && limit <= 6)
		opts = append(opts, XRequestHeaderLimitOption(limit))
	}
	r := &http.Request{Header: http.Header{}}
	inbound := ""
	if nondetBool("has-header") {
		inbound = nondetStringUpTo("inbound", 4)
		r.Header.Set(header, inbound)
	}
	if nondetBool("other-header-too") {
		// a value in the header that is *not* configured must be ignored
		other := "X-Request-Id"
		if header == other {
			other = "Custom-Id"
		}
		r.Header.Set(other, "zz")
	}
	var got string
	var ok, called bool
	h := RequestID(opts...)(http.HandlerFunc(func(w http.ResponseWriter, req *http.Request) {
		called = true
		got, ok = verifStringCtx(req.Context(), middleware.RequestIDKey)
	}))
	h.ServeHTTP(&verifW{h: http.Header{}}, r)
	verifObserve("called", called)
	verifAssert("handler-called", called)
	verifAssert("request-id-present-and-non-empty", ok && got != "")
	if trust && inbound != "" {
		want := inbound
		if limit > 0 && len(inbound) > limit {
			want = inbound[:limit]
		}
		verifObserve("got", got)
		verifAssert("trusted-inbound-id-truncated-to-limit", got == want)
	} else {
		verifAssert("fresh-id-when-not-trusted-or-absent", len(got) == 8 && got != inbound && got != "zz")
	}
}

type verifDoer struct {
	next http.Handler
	seen *http.Request
}

func (d *verifDoer) Do(r *http.Request) (*http.Response, error) {
	// the wire: a fresh server-side request carrying the same headers
	d.seen = r
	sr := &http.Request{Header: r.Header.Clone(), URL: r.URL}
	d.next.ServeHTTP(&verifW{h: http.Header{}}, sr)
	return &http.Response{StatusCode: 200, Header: http.Header{}}, nil
}

type verifSpan struct {
	traced              bool
	trace, span, parent string
}

func verifSpanOf(ctx context.Context) verifSpan {
	var s verifSpan
	s.trace, s.traced = verifStringCtx(ctx, middleware.TraceIDKey)
	s.span, _ = verifStringCtx(ctx, middleware.TraceSpanIDKey)
	s.parent, _ = verifStringCtx(ctx, middleware.TraceParentSpanIDKey)
	return s
}

// VerifC19_TraceHTTP: inbound trace kept, parent = caller's span, fresh span;
// sampling percentages 0 and 100 exact for every random draw.
func VerifC19_TraceHTTP() {
	pct := nondetInt("percent")
	verifAssume(pct >= 0 && pct <= 100)
	freshTrace, freshSpan := nondetString("fresh-trace", 2), nondetString("fresh-span", 2)
	verifAssume(freshTrace != "" && freshSpan != "")
	opts := []middleware.TraceOption{
		SamplingPercent(pct),
		TraceIDFunc(func() string { return freshTrace }),
		SpanIDFunc(func() string { return freshSpan }),
	}
	r := &http.Request{Header: http.Header{}}
	inTrace, inParent := "", ""
	if nondetBool("has-trace") {
		inTrace = nondetStringUpTo("in-trace", 2)
		r.Header.Set(TraceIDHeader, inTrace)
	}
	if nondetBool("has-parent") {
		inParent = nondetStringUpTo("in-parent", 2)
		r.Header.Set(ParentSpanIDHeader, inParent)
	}
	var got verifSpan
	called := false
	h := Trace(opts...)(http.HandlerFunc(func(w http.ResponseWriter, req *http.Request) {
		called = true
		got = verifSpanOf(req.Context())
	}))
	h.ServeHTTP(&verifW{h: http.Header{}}, r)
	verifAssert("trace:handler-called", called)
	if inTrace != "" {
		verifAssert("trace:inbound-trace-kept", got.traced && got.trace == inTrace)
		verifAssert("trace:parent-is-callers-span", got.parent == inParent)
		verifAssert("trace:fresh-span", got.span == freshSpan)
	} else {
		if pct == 0 {
			verifAssert("trace:percent-0-never-samples", !got.traced)
		}
		if pct == 100 {
			verifAssert("trace:percent-100-always-samples", got.traced)
		}
		if got.traced {
			verifAssert("trace:new-trace-uses-fresh-ids", got.trace == freshTrace && got.span == freshSpan)
		}
	}
}

// verifChain builds server -> traced client -> server ... of the given depth
// and checks that all hops share one trace and parent(n+1) = span(n).
func verifChain(depth int) {
	spans := make([]verifSpan, depth)
	ids := make([]string, depth)
	for i := range ids {
		ids[i] = nondetString("span"+string(rune('0'+i)), 1)
	}
	traceID := nondetString("trace", 2)
	verifAssume(traceID != "")
	forward := nondetBool("hops-forward-their-request-headers")
	var handlerAt func(i int) http.Handler
	handlerAt = func(i int) http.Handler {
		inner := http.HandlerFunc(func(w http.ResponseWriter, req *http.Request) {
			spans[i] = verifSpanOf(req.Context())
			if i+1 < depth {
				doer := WrapDoer(&verifDoer{next: handlerAt(i + 1)})
				hdr := http.Header{}
				if forward {
					hdr = req.Header.Clone() // a relaying hop keeps the headers it received
				}
				out := (&http.Request{Header: hdr}).WithContext(req.Context())
				doer.Do(out)
			}
		})
		return Trace(SamplingPercent(100),
			TraceIDFunc(func() string { return traceID }),
			SpanIDFunc(func() string { return ids[i] }))(inner)
	}
	first := &http.Request{Header: http.Header{}}
	if nondetBool("inbound-trace") {
		traceID2 := nondetString("inbound", 2)
		verifAssume(traceID2 != "")
		first.Header.Set(TraceIDHeader, traceID2)
		first.Header.Set(ParentSpanIDHeader, "origin")
		traceID = traceID2
	}
	handlerAt(0).ServeHTTP(&verifW{h: http.Header{}}, first)
	for i := 0; i < depth; i++ {
		verifAssert("chain:traced", spans[i].traced)
		verifAssert("chain:one-trace-id", spans[i].trace == traceID)
		verifAssert("chain:own-span", spans[i].span == ids[i])
		if i > 0 {
			verifAssert("chain:parent-is-previous-span", spans[i].parent == ids[i-1])
		}
	}
	verifReach("chain-done")
}

func VerifC19_TraceChain2()  { verifChain(2) }
func VerifC19_TraceChain3()  { verifChain(3) }
func VerifC19T_TraceChain4() { verifChain(4) }

// VerifC19_Capture: status passed to WriteHeader and the byte counts the
// inner writer actually reports (short writes included).
func VerifC19_Capture() {
	inner := &verifW{h: http.Header{}}
	k := 0
	inner.short = func(n int) int {
		k++
		got := nondetInt("wrote")
		verifAssume(got >= 0 && got <= n)
		return got
	}
	c := CaptureResponse(inner)
	code := nondetInt("code")
	verifAssume(code >= 100 && code <= 599)
	if nondetBool("informational-response-first") {
		info := nondetInt("informational")
		verifAssume(info >= 100 && info <= 199 && code >= 200)
		c.WriteHeader(info)
	}
	c.WriteHeader(code)
	total := 0
	writes := nondetChoice("writes", 3) + 1
	for i := 0; i < writes; i++ {
		b := []byte(nondetStringUpTo("chunk", 2))
		n, _ := c.Write(b)
		total += n
	}
	verifAssert("capture:status", c.StatusCode == code && inner.status == code)
	verifAssert("capture:bytes-actually-written", c.ContentLength == total && c.ContentLength == inner.written)
}

// VerifC19_TraceDiscard: paths matching a discard pattern are not traced unless
// the request already carries a trace ID.
func VerifC19_TraceDiscard() {
	path := "/" + nondetStringUpTo("path", 3)
	for i := 0; i < len(path); i++ {
		verifAssume(path[i] < 0x80)
	}
	verifMode("ascii-input")
	discard := regexp.MustCompile(`^/h[a-z]?$`)
	r := &http.Request{Header: http.Header{}, URL: &url.URL{Path: path}}
	inTrace := ""
	if nondetBool("has-trace") {
		inTrace = nondetString("in-trace", 1)
		r.Header.Set(TraceIDHeader, inTrace)
	}
	var got verifSpan
	h := Trace(SamplingPercent(100), DiscardFromTrace(discard),
		TraceIDFunc(func() string { return "T" }), SpanIDFunc(func() string { return "S" }))(
		http.HandlerFunc(func(w http.ResponseWriter, req *http.Request) { got = verifSpanOf(req.Context()) }))
	h.ServeHTTP(&verifW{h: http.Header{}}, r)
	matches := len(path) >= 2 && path[1] == 'h' && (len(path) == 2 || (len(path) == 3 && path[2] >= 'a' && path[2] <= 'z'))
	switch {
	case inTrace != "":
		verifAssert("discard:inbound-trace-overrides-discard", got.traced && got.trace == inTrace)
	case matches:
		verifAssert("discard:matching-path-not-traced", !got.traced)
	default:
		verifAssert("discard:other-paths-traced", got.traced && got.trace == "T")
	}
}

// VerifC19_AdaptiveSamplerWarmup: with adaptive sampling every request is
// traced until the first sample window is full.
func VerifC19_AdaptiveSamplerWarmup() {
	size := nondetChoice("sample-size", 3) + 2 // 2..4
	rate := nondetInt("max-rate")
	verifAssume(rate >= 1 && rate <= 1000)
	traced := 0
	h := Trace(MaxSamplingRate(rate), SampleSize(size),
		TraceIDFunc(func() string { return "T" }), SpanIDFunc(func() string { return "S" }))(
		http.HandlerFunc(func(w http.ResponseWriter, req *http.Request) {
			if verifSpanOf(req.Context()).traced {
				traced++
			}
		}))
	for i := 0; i < size-1; i++ {
		h.ServeHTTP(&verifW{h: http.Header{}}, &http.Request{Header: http.Header{}})
	}
	verifAssert("adaptive:every-request-of-the-first-window-traced", traced == size-1)
}

// verifWRF is a writer that, like net/http's, also implements io.ReaderFrom.
type verifWRF struct{ *verifW }

func (w verifWRF) ReadFrom(r io.Reader) (int64, error) {
	buf := make([]byte, 4)
	var total int64
	for {
		n, err := r.Read(buf)
		w.verifW.written += n
		total += int64(n)
		if err != nil {
			return total, nil
		}
	}
}

// VerifC19_CaptureCopy: bytes streamed through io.Copy (what http.ServeContent
// and file servers do) are counted like any others.
func VerifC19_CaptureCopy() {
	inner := &verifW{h: http.Header{}}
	c := CaptureResponse(verifWRF{inner})
	body := nondetStringUpTo("body", 3)
	first := nondetStringUpTo("first", 1)
	c.WriteHeader(200)
	if first != "" {
		c.Write([]byte(first))
	}
	// a source without WriteTo, so that io.Copy looks for ReaderFrom on the destination
	n, err := io.Copy(c, io.LimitReader(strings.NewReader(body), int64(len(body))))
	verifAssert("capture-copy:copied", err == nil && int(n) == len(body))
	verifAssert("capture-copy:bytes-actually-written", inner.written == len(first)+len(body) && c.ContentLength == inner.written)
}
