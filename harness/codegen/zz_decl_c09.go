//go:build verif

package codegen

func verifFS(name string, exists bool) string
func verifFSWrites() int
