//go:build verif

package codegen

import (
	"os"
	"path/filepath"
)

var verifFSDir, verifFSName string
var verifFSBefore []byte
var verifFSExisted bool

func verifFS(name string, exists bool) string {
	verifFSDir, _ = os.MkdirTemp("", "verif-fs")
	verifFSName, verifFSExisted = name, exists
	if exists {
		verifFSBefore = []byte("user edited content\n")
		os.WriteFile(filepath.Join(verifFSDir, name), verifFSBefore, 0o600)
	}
	return verifFSDir
}

// verifFSWrites: 1 if the file was created or its content/mtime changed
func verifFSWrites() int {
	defer os.RemoveAll(verifFSDir)
	b, err := os.ReadFile(filepath.Join(verifFSDir, verifFSName))
	if !verifFSExisted {
		if err == nil {
			return 1
		}
		return 0
	}
	if err != nil || string(b) != string(verifFSBefore) {
		return 1
	}
	return 0
}
