//go:build verif

package codegen

import "goa.design/goa/v3/expr"

// ---- C09 (kernels): map iteration order, SkipExist ----

// VerifC09_AttributeTags: struct tags do not depend on the iteration order of the metadata map.
func VerifC09_AttributeTags() {
	k1 := "struct:tag:" + nondetString("k1", 1)
	k2 := "struct:tag:" + nondetString("k2", 1)
	k3 := "other:" + nondetString("k3", 1)
	verifAssume(k1 != k2)
	mk := func() *expr.AttributeExpr {
		return &expr.AttributeExpr{Type: expr.String, Meta: expr.MetaExpr{k1: {"a", "b"}, k2: {"c"}, k3: {"d"}, "struct:tag:json": {"j"}}}
	}
	verifMapOrder(0)
	ref := AttributeTags(nil, mk())
	verifMapOrder(2) // every iteration order
	got := AttributeTags(nil, mk())
	verifMapOrder(0)
	verifAssert("attribute-tags-independent-of-map-order", got == ref)
}

// VerifC09_RenderSkipExist: a file marked SkipExist that already exists is never opened for writing.
func VerifC09_RenderSkipExist() {
	skip, exists := nondetBool("skip-exist"), nondetBool("file-exists")
	dir := verifFS("out.txt", exists)
	f := &File{Path: "out.txt", SkipExist: skip}
	path, err := f.Render(dir)
	writes := verifFSWrites()
	if skip && exists {
		verifAssert("existing-file-not-touched", writes == 0 && path == "" && err == nil)
	} else {
		verifAssert("file-written-otherwise", writes == 1 && err == nil)
	}
}
