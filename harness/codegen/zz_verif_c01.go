//go:build verif

package codegen

import (
	"go/token"
	"unicode"
	"unicode/utf8"
)

// ---- C01 (kernels): unique identifier allocation, identifier sanitising ----

type verifHash string

func (h verifHash) Hash() string { return string(h) }

// verifIdent: a raw name from a small family that provokes collisions with
// the numeric suffixes the scope appends ("a", "a2", "a22", "b", ...).
func verifIdent(id string) string {
	base := []string{"a", "b", "a2"}[nondetChoice(id+"-base", 3)]
	if nondetBool(id + "-digit") {
		d := nondetByte(id + "-d")
		verifAssume(d >= '1' && d <= '3')
		base += string(rune(d))
	}
	return base
}

// VerifC01_ScopeUnique: whatever names were requested before, Unique never
// hands out the same identifier twice.
func VerifC01_ScopeUnique() {
	s := NewNameScope()
	var issued []string
	n := 4
	for i := 0; i < n; i++ {
		name := verifIdent("n" + string(rune('0'+i)))
		var got string
		if nondetBool("with-suffix") {
			got = s.Unique(name, "Foo")
		} else {
			got = s.Unique(name)
		}
		for _, prev := range issued {
			verifAssert("unique-never-repeats-an-identifier", got != prev)
		}
		issued = append(issued, got)
	}
	verifReach("scope-done")
}

// VerifC01_HashedUnique: one identifier per hash, different hashes never share one.
func VerifC01_HashedUnique() {
	s := NewNameScope()
	h := []verifHash{"h0", "h1", "h2"}
	var names [3]string
	order := []int{nondetChoice("k0", 3), nondetChoice("k1", 3), nondetChoice("k2", 3), nondetChoice("k3", 3)}
	seen := [3]bool{}
	for i, k := range order {
		got := s.HashedUnique(h[k], verifIdent("n"+string(rune('0'+i))))
		if seen[k] {
			verifAssert("same-hash-same-identifier", got == names[k])
		}
		names[k], seen[k] = got, true
	}
	for i := 0; i < 3; i++ {
		for j := i + 1; j < 3; j++ {
			if seen[i] && seen[j] {
				verifAssert("different-hashes-different-identifiers", names[i] != names[j])
			}
		}
	}
}

func verifIsIdent(s string) bool {
	if s == "" {
		return false
	}
	for i, r := range s {
		if r == utf8.RuneError {
			return false
		}
		if !(r == '_' || unicode.IsLetter(r) || (i > 0 && unicode.IsDigit(r))) {
			return false
		}
	}
	return true
}

// VerifC01_GoifyIsIdentifier: the sanitised name is a legal, non-reserved Go identifier.
func VerifC01_GoifyIsIdentifier() {
	in := nondetStringUpTo("name", 3)
	for i := 0; i < len(in); i++ {
		verifAssume(in[i] < 0x80) // ASCII attribute names
	}
	upper := nondetBool("first-upper")
	out := Goify(in, upper)
	verifObserve("out", out)
	if in == "" {
		verifAssert("empty-in-empty-out", out == "")
		return
	}
	startsWithDigit := false
	for i := 0; i < len(in); i++ {
		c := in[i]
		if c >= '0' && c <= '9' {
			startsWithDigit = true
			break
		}
		if c >= 'a' && c <= 'z' || c >= 'A' && c <= 'Z' {
			break
		}
	}
	if startsWithDigit {
		verifAssert("goify-yields-identifier[name-whose-first-alphanumeric-is-a-digit]", verifIsIdent(out))
	} else {
		verifAssert("goify-yields-identifier", verifIsIdent(out))
	}
	verifAssert("goify-never-yields-keyword", !token.IsKeyword(out))
}
