//go:build verif

package openapi

import "goa.design/goa/v3/expr"

// VerifC09_TagsFromExpr: the tag list does not depend on map iteration order.
func VerifC09_TagsFromExpr() {
	n1, n2 := nondetString("n1", 1), nondetString("n2", 1)
	verifAssume(n1 != n2 && n1[0] >= 'a' && n1[0] <= 'z' && n2[0] >= 'a' && n2[0] <= 'z')
	mk := func() expr.MetaExpr {
		return expr.MetaExpr{
			"openapi:tag:" + n1:           {""},
			"openapi:tag:" + n1 + ":desc": {"d1"},
			"swagger:tag:" + n2:           {""},
			"openapi:tag:" + n2 + ":url":  {"u2"},
			"unrelated":                   {"x"},
		}
	}
	render := func(ts []*Tag) string {
		out := ""
		for _, t := range ts {
			out += t.Name + "|" + t.Description + "|"
			if t.ExternalDocs != nil {
				out += t.ExternalDocs.URL
			}
			out += ";"
		}
		return out
	}
	verifMapOrder(0)
	ref := render(TagsFromExpr(mk()))
	verifMapOrder(2)
	got := render(TagsFromExpr(mk()))
	verifMapOrder(0)
	verifAssert("tags-independent-of-map-order", got == ref)
}
