//go:build verif

package middleware

import (
	"context"

	"goa.design/goa/v3/middleware"
	"google.golang.org/grpc"
	"google.golang.org/grpc/metadata"
)

// ---- C19 (gRPC): request id, trace propagation (unary and stream) ----

type verifStream struct {
	grpc.ServerStream
	ctx context.Context
}

func (s *verifStream) Context() context.Context { return s.ctx }

func verifStr(ctx context.Context, key any) (string, bool) {
	v := ctx.Value(key)
	if v == nil {
		return "", false
	}
	s, ok := v.(string)
	return s, ok
}

// verifRunServer runs the unary or the stream interceptor and returns the
// context seen by the handler.
func verifRunServer(stream bool, unary grpc.UnaryServerInterceptor, str grpc.StreamServerInterceptor, ctx context.Context) (seen context.Context, called bool) {
	if stream {
		str(nil, &verifStream{ctx: ctx}, &grpc.StreamServerInfo{FullMethod: "/svc/m"}, func(srv any, ss grpc.ServerStream) error {
			called = true
			seen = ss.Context()
			return nil
		})
		return
	}
	unary(ctx, nil, &grpc.UnaryServerInfo{FullMethod: "/svc/m"}, func(c context.Context, req any) (any, error) {
		called = true
		seen = c
		return nil, nil
	})
	return
}

func verifRequestIDGRPC(stream bool) {
	var opts []middleware.RequestIDOption
	trust := false
	switch nondetChoice("trust-option", 3) {
	case 0:
	case 1:
		opts = append(opts, UseXRequestIDMetadataOption(true))
		trust = true
	case 2:
		opts = append(opts, UseXRequestIDMetadataOption(false))
	}
	limit := 0
	if nondetBool("with-limit") {
		limit = nondetInt("limit")
		verifAssume(limit >= -1 && limit <= 6)
		opts = append(opts, XRequestMetadataLimitOption(limit))
	}
	ctx := context.Background()
	inbound := ""
	if nondetBool("has-metadata") {
		inbound = nondetStringUpTo("inbound", 4)
		ctx = metadata.NewIncomingContext(ctx, metadata.Pairs(RequestIDMetadataKey, inbound))
	}
	seen, called := verifRunServer(stream, UnaryRequestID(opts...), StreamRequestID(opts...), ctx)
	verifAssert("grpc:handler-called", called)
	if !called {
		return
	}
	got, ok := verifStr(seen, middleware.RequestIDKey)
	verifAssert("grpc:request-id-present-and-non-empty", ok && got != "")
	if trust && inbound != "" {
		want := inbound
		if limit > 0 && len(inbound) > limit {
			want = inbound[:limit]
		}
		verifAssert("grpc:trusted-inbound-id-truncated-to-limit", got == want)
	} else {
		verifAssert("grpc:fresh-id-when-not-trusted-or-absent", len(got) == 8 && got != inbound)
	}
	md, _ := metadata.FromIncomingContext(seen)
	verifAssert("grpc:request-id-in-metadata", MetadataValue(md, RequestIDMetadataKey) == got)
}

func VerifC19_RequestIDGRPCUnary()  { verifRequestIDGRPC(false) }
func VerifC19_RequestIDGRPCStream() { verifRequestIDGRPC(true) }

type verifSpan struct {
	traced              bool
	trace, span, parent string
}

func verifSpanOf(ctx context.Context) verifSpan {
	var s verifSpan
	s.trace, s.traced = verifStr(ctx, middleware.TraceIDKey)
	s.span, _ = verifStr(ctx, middleware.TraceSpanIDKey)
	s.parent, _ = verifStr(ctx, middleware.TraceParentSpanIDKey)
	return s
}

func verifTraceGRPC(stream bool) {
	pct := nondetInt("percent")
	verifAssume(pct >= 0 && pct <= 100)
	freshTrace, freshSpan := nondetString("fresh-trace", 2), nondetString("fresh-span", 2)
	verifAssume(freshTrace != "" && freshSpan != "")
	opts := []middleware.TraceOption{
		SamplingPercent(pct),
		TraceIDFunc(func() string { return freshTrace }),
		SpanIDFunc(func() string { return freshSpan }),
	}
	md := metadata.MD{}
	inTrace, inParent := "", ""
	if nondetBool("has-trace") {
		inTrace = nondetStringUpTo("in-trace", 2)
		md.Set(TraceIDMetadataKey, inTrace)
	}
	if nondetBool("has-parent") {
		inParent = nondetStringUpTo("in-parent", 2)
		md.Set(ParentSpanIDMetadataKey, inParent)
	}
	ctx := metadata.NewIncomingContext(context.Background(), md)
	seen, called := verifRunServer(stream, UnaryServerTrace(opts...), StreamServerTrace(opts...), ctx)
	verifAssert("grpc-trace:handler-called", called)
	if !called {
		return
	}
	got := verifSpanOf(seen)
	if inTrace != "" {
		verifAssert("grpc-trace:inbound-trace-kept", got.traced && got.trace == inTrace)
		verifAssert("grpc-trace:parent-is-callers-span", got.parent == inParent)
		verifAssert("grpc-trace:fresh-span", got.span == freshSpan)
	} else {
		if pct == 0 {
			verifAssert("grpc-trace:percent-0-never-samples", !got.traced)
		}
		if pct == 100 {
			verifAssert("grpc-trace:percent-100-always-samples", got.traced)
		}
		if got.traced {
			verifAssert("grpc-trace:new-trace-uses-fresh-ids", got.trace == freshTrace && got.span == freshSpan)
		}
	}
}

func VerifC19_TraceGRPCUnary()  { verifTraceGRPC(false) }
func VerifC19_TraceGRPCStream() { verifTraceGRPC(true) }

// verifChainGRPC: server -> traced client -> server ... ; each hop may
// forward its incoming metadata to the outgoing context before calling on.
func verifChainGRPC(depth int, streamClient bool) {
	spans := make([]verifSpan, depth)
	ids := make([]string, depth)
	for i := range ids {
		ids[i] = nondetString("span"+string(rune('0'+i)), 1)
	}
	traceID := nondetString("trace", 2)
	verifAssume(traceID != "")
	forward := nondetBool("hops-forward-incoming-metadata")
	var hop func(i int, ctx context.Context)
	hop = func(i int, ctx context.Context) {
		server := UnaryServerTrace(SamplingPercent(100),
			TraceIDFunc(func() string { return traceID }),
			SpanIDFunc(func() string { return ids[i] }))
		server(ctx, nil, &grpc.UnaryServerInfo{FullMethod: "/svc/m"}, func(c context.Context, req any) (any, error) {
			spans[i] = verifSpanOf(c)
			if i+1 >= depth {
				return nil, nil
			}
			out := c
			if forward {
				if in, ok := metadata.FromIncomingContext(c); ok {
					out = metadata.NewOutgoingContext(c, in.Copy())
				}
			}
			wire := func(cc context.Context) {
				// the wire: outgoing metadata arrives as incoming metadata
				omd, _ := metadata.FromOutgoingContext(cc)
				hop(i+1, metadata.NewIncomingContext(context.Background(), omd.Copy()))
			}
			if streamClient {
				StreamClientTrace()(out, nil, nil, "/svc/m", func(cc context.Context, desc *grpc.StreamDesc, conn *grpc.ClientConn, method string, opts ...grpc.CallOption) (grpc.ClientStream, error) {
					wire(cc)
					return nil, nil
				})
			} else {
				UnaryClientTrace()(out, "/svc/m", nil, nil, nil, func(cc context.Context, method string, req, reply any, conn *grpc.ClientConn, opts ...grpc.CallOption) error {
					wire(cc)
					return nil
				})
			}
			return nil, nil
		})
	}
	first := context.Background()
	if nondetBool("inbound-trace") {
		in := nondetString("inbound", 2)
		verifAssume(in != "")
		first = metadata.NewIncomingContext(first, metadata.Pairs(TraceIDMetadataKey, in, ParentSpanIDMetadataKey, "origin"))
		traceID = in
	}
	hop(0, first)
	for i := 0; i < depth; i++ {
		verifAssert("grpc-chain:traced", spans[i].traced)
		verifAssert("grpc-chain:one-trace-id", spans[i].trace == traceID)
		verifAssert("grpc-chain:own-span", spans[i].span == ids[i])
		if i > 0 {
			verifAssert("grpc-chain:parent-is-previous-span", spans[i].parent == ids[i-1])
		}
	}
	verifReach("grpc-chain-done")
}

func VerifC19_TraceChainGRPC2()       { verifChainGRPC(2, false) }
func VerifC19_TraceChainGRPC3()       { verifChainGRPC(3, false) }
func VerifC19_TraceChainGRPCStream3() { verifChainGRPC(3, true) }
func VerifC19T_TraceChainGRPC4()      { verifChainGRPC(4, false) }
