//go:build verif

package vh

import (
	"net/http"
	"net/url"
)

func verifSetQuery(u *url.URL, v url.Values)
func verifMoveCookies(dst, src *http.Request)
func verifJSONCopy(dst, src any) error
func verifSchemaAccepts(doc, op string, parts map[string]any) bool
