//go:build verif

package vh

// Shared stubs for harnesses that drive generated goa code: the transport
// seams of the generated code (Muxer, Decoder, Encoder, ResponseWriter, Doer)
// are interfaces, so the harness supplies recording implementations.

import (
	"context"
	"net/http"
	"net/url"
	"strconv"

	goahttp "goa.design/goa/v3/http"
)

type stubMux struct{ vars map[string]string }

func (m *stubMux) Handle(method, pattern string, handler http.HandlerFunc) {}
func (m *stubMux) ServeHTTP(http.ResponseWriter, *http.Request)               {}
func (m *stubMux) Vars(*http.Request) map[string]string                       { return m.vars }

type stubDecoder struct{ fn func(v any) error }

func (d stubDecoder) Decode(v any) error { return d.fn(v) }

type stubEncoder struct{ fn func(v any) error }

func (e stubEncoder) Encode(v any) error { return e.fn(v) }

type recWriter struct {
	// h is what goes on the wire: the live header map until the response is
	// committed (first WriteHeader), a frozen copy of it afterwards, as net/http does
	h        http.Header
	live     http.Header
	status   int
	nHeaders int
	encoded  []any
}

func newRecWriter() *recWriter {
	h := http.Header{}
	return &recWriter{h: h, live: h}
}
func (w *recWriter) Header() http.Header         { return w.live }
func (w *recWriter) Write(b []byte) (int, error) { return len(b), nil }
func (w *recWriter) WriteHeader(s int) {
	if w.nHeaders == 0 {
		w.h = w.live.Clone()
	}
	w.status = s
	w.nHeaders++
}

// recEncoder returns the encoder factory handed to generated servers: it
// records every value the generated code encodes on the writer.
func recEncoder() func(context.Context, http.ResponseWriter) goahttp.Encoder {
	return func(ctx context.Context, w http.ResponseWriter) goahttp.Encoder {
		return stubEncoder{func(v any) error {
			if rw, ok := w.(*recWriter); ok {
				rw.encoded = append(rw.encoded, v)
			}
			return nil
		}}
	}
}

// newRequest builds a server-side request. Query values travel in a side
// table (verifSetQuery) instead of the escaped RawQuery text.
func newRequest(method string, query url.Values) *http.Request {
	u := &url.URL{Path: "/"}
	verifSetQuery(u, query)
	return &http.Request{Method: method, URL: u, Header: http.Header{}}
}

func errorName(w *recWriter) string {
	if len(w.encoded) == 0 {
		return ""
	}
	if er, ok := w.encoded[len(w.encoded)-1].(*goahttp.ErrorResponse); ok {
		return er.Name
	}
	return ""
}

// ---- wire values for parameters (query, header, path, cookie) ----
//
// The text of a numeric parameter is either the decimal rendering of an
// arbitrary number (strconv round trip: exact in the executor, real text in
// the native replay), or a piece of junk that is not a number, or absent.
// Present-but-empty values are outside the wire space (DESIGN.md 4a).

const (
	wAbsent = iota
	wNumber
	wJunk
)

type wireInt struct {
	kind int
	v    int64
	raw  string
}

func newWireInt(id string, optional bool) wireInt {
	n := 2
	if optional {
		n = 3
	}
	switch nondetChoice(id+"-kind", n) {
	case 0:
		v := nondetInt64(id)
		return wireInt{kind: wNumber, v: v, raw: strconv.FormatInt(v, 10)}
	case 1:
		return wireInt{kind: wJunk, raw: "1x"}
	}
	return wireInt{kind: wAbsent}
}

type wireUint struct {
	kind int
	v    uint64
	raw  string
}

func newWireUint(id string, optional bool) wireUint {
	n := 3
	if optional {
		n = 4
	}
	switch nondetChoice(id+"-kind", n) {
	case 0:
		v := nondetUint64(id)
		return wireUint{kind: wNumber, v: v, raw: strconv.FormatUint(v, 10)}
	case 1:
		return wireUint{kind: wJunk, raw: "1x"}
	case 2:
		return wireUint{kind: wJunk, raw: "-1"}
	}
	return wireUint{kind: wAbsent}
}

type wireFloat struct {
	kind int
	v    float64
	raw  string
}

func newWireFloat(id string, optional bool) wireFloat {
	n := 2
	if optional {
		n = 3
	}
	switch nondetChoice(id+"-kind", n) {
	case 0:
		v := nondetFloat64(id)
		return wireFloat{kind: wNumber, v: v, raw: strconv.FormatFloat(v, 'g', -1, 64)}
	case 1:
		return wireFloat{kind: wJunk, raw: "1x"}
	}
	return wireFloat{kind: wAbsent}
}

// jsonFloat: a float that a JSON document can carry (finite).
func jsonFloat(id string) float64 {
	f := nondetFloat64(id)
	verifAssume(f == f && f <= 1.7976931348623157e308 && f >= -1.7976931348623157e308)
	return f
}

func isNaN(f float64) bool { return f != f }

func visible(s string) bool {
	for i := 0; i < len(s); i++ {
		if s[i] <= 0x20 || s[i] >= 0x7f {
			return false
		}
	}
	return true
}


func itoa(v int) string { return strconv.Itoa(v) }

// deep(n): the bound n on the quick tier, n+2 on the thorough tier
func deep(n int) int {
	if verifDeep() {
		return n + 2
	}
	return n
}

// deep1(n): n on the quick tier, n+1 on the thorough tier
func deep1(n int) int {
	if verifDeep() {
		return n + 1
	}
	return n
}
