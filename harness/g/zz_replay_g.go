//go:build verif

package vh

import (
	"encoding/json"
	"net/http"
	"net/url"
)

func verifSetQuery(u *url.URL, v url.Values) { u.RawQuery = v.Encode() }
func verifMoveCookies(dst, src *http.Request) {
	for _, c := range src.Cookies() {
		dst.AddCookie(c)
	}
}

func verifJSONCopy(dst, src any) error {
	b, err := json.Marshal(src)
	if err != nil {
		return err
	}
	return json.Unmarshal(b, dst)
}
