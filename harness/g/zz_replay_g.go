//go:build verif

package vh

import (
	"net/http"
	"net/url"
)

func verifSetQuery(u *url.URL, v url.Values) { u.RawQuery = v.Encode() }
func verifMoveCookies(dst, src *http.Request) {
	for _, c := range src.Cookies() {
		dst.AddCookie(c)
	}
}
