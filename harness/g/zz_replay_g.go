//go:build verif

package vh

import (
	"encoding/json"
	"fmt"
	"net/http"
	"sort"
	"strconv"
	"strings"

	"github.com/getkin/kin-openapi/openapi3"
	"net/url"
)

func verifSetQuery(u *url.URL, v url.Values) { u.RawQuery = v.Encode() }
func verifMoveCookies(dst, src *http.Request) {
	for _, c := range src.Cookies() {
		dst.AddCookie(c)
	}
}

func verifJSONCopy(dst, src any) error {
	b, err := json.Marshal(src)
	if err != nil {
		return err
	}
	return json.Unmarshal(b, dst)
}

// verifSchemaAccepts natively: kin-openapi validates the request parts against
// the schemas of the emitted document.
func verifSchemaAccepts(doc, op string, parts map[string]any) bool {
	// goa writes numeric exclusiveMinimum/exclusiveMaximum (JSON Schema draft-06
	// style) into its 3.0.x documents; kin-openapi only loads the boolean 3.0
	// form, so rewrite them to the equivalent {minimum, exclusiveMinimum:true}
	var tree any
	if err := json.Unmarshal([]byte(doc), &tree); err != nil {
		panic(err)
	}
	var fix func(n any)
	fix = func(n any) {
		switch x := n.(type) {
		case map[string]any:
			for _, k := range [][2]string{{"exclusiveMinimum", "minimum"}, {"exclusiveMaximum", "maximum"}} {
				if v, ok := x[k[0]].(float64); ok {
					x[k[1]], x[k[0]] = v, true
				}
			}
			for _, v := range x {
				fix(v)
			}
		case []any:
			for _, v := range x {
				fix(v)
			}
		}
	}
	fix(tree)
	fixed, _ := json.Marshal(tree)
	d, err := openapi3.NewLoader().LoadFromData(fixed)
	if err != nil {
		panic(fmt.Sprintf("openapi document does not load: %v", err))
	}
	fields := strings.SplitN(op, " ", 2)
	item := d.Paths.Find(fields[1])
	if item == nil {
		return false
	}
	o := item.GetOperation(strings.ToUpper(fields[0]))
	if o == nil {
		return false
	}
	generic := func(v any) any {
		b, err := json.Marshal(v)
		if err != nil {
			panic(err)
		}
		var out any
		if err := json.Unmarshal(b, &out); err != nil {
			panic(err)
		}
		return out
	}
	for k, body := range parts {
		if !strings.HasPrefix(k, "response:") {
			continue
		}
		code, _ := strconv.Atoi(strings.TrimPrefix(k, "response:"))
		rr := o.Responses.Status(code)
		if rr == nil || rr.Value == nil {
			return false
		}
		if len(rr.Value.Content) == 0 {
			return body == nil
		}
		var names []string
		for mt := range rr.Value.Content {
			names = append(names, mt)
		}
		sort.Strings(names)
		pick := names[0]
		for _, mt := range names {
			if strings.Contains(mt, "json") {
				pick = mt
				break
			}
		}
		sch := rr.Value.Content[pick].Schema
		if sch == nil {
			return true
		}
		if body == nil {
			return false
		}
		return sch.Value.VisitJSON(generic(body)) == nil
	}
	for _, pr := range o.Parameters {
		p := pr.Value
		v, present := parts[p.In+":"+p.Name]
		if !present || v == nil {
			if p.Required {
				return false
			}
			continue
		}
		if p.Schema != nil && p.Schema.Value.VisitJSON(generic(v)) != nil {
			return false
		}
	}
	if o.RequestBody != nil {
		rb := o.RequestBody.Value
		if _, missing := parts["body-missing"]; missing {
			return !rb.Required
		}
		if _, bad := parts["body-malformed"]; bad {
			return false
		}
		body, present := parts["body"]
		if !present || body == nil {
			return !rb.Required
		}
		if mt := rb.Content.Get("application/json"); mt != nil && mt.Schema != nil {
			if mt.Schema.Value.VisitJSON(generic(body)) != nil {
				return false
			}
		}
	}
	return true
}
