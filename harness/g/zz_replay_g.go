//go:build verif

package vh

import "net/url"

func verifSetQuery(u *url.URL, v url.Values) { u.RawQuery = v.Encode() }
