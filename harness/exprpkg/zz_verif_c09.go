//go:build verif

package expr

// VerifC09_Schemes: scheme lists are sorted sets whatever the map order.
func VerifC09_Schemes() {
	uris := []URIExpr{"http://a", "https://b", "grpc://c", "grpcs://d", "http://e"}
	pick := func(id string) URIExpr { return uris[nondetChoice(id, len(uris))] }
	h1 := &HostExpr{Name: "h1", URIs: []URIExpr{pick("u1"), pick("u2")}}
	h2 := &HostExpr{Name: "h2", URIs: []URIExpr{pick("u4")}}
	srv := &ServerExpr{Name: "s", Hosts: []*HostExpr{h1, h2}}
	api := &APIExpr{Name: "a", Servers: []*ServerExpr{srv}}
	join := func(ss []string) string {
		out := ""
		for _, s := range ss {
			out += s + ","
		}
		return out
	}
	verifMapOrder(0)
	ref := join(api.Schemes())
	refHost := h1.Schemes()
	verifMapOrder(2) // every iteration order of every map ranged over below
	got := join(api.Schemes())
	verifMapOrder(0)
	verifAssert("schemes-independent-of-map-order", got == ref)
	for i := 1; i < len(refHost); i++ {
		verifAssert("schemes-sorted-and-distinct", refHost[i-1] < refHost[i])
	}
}

// VerifC09_InheritedErrorsOrder: the errors a method inherits from its service
// come after its own, in the order the service declares them, whatever order
// Go iterates maps in.
func VerifC09_InheritedErrorsOrder() {
	Root = &RootExpr{API: &APIExpr{Name: "a"}}
	mkErr := func(n string) *ErrorExpr {
		return &ErrorExpr{Name: n, AttributeExpr: &AttributeExpr{Type: ErrorResult}}
	}
	names := []string{"alpha", "beta", "gamma", "delta"}
	svc := &ServiceExpr{Name: "s"}
	for _, n := range names {
		svc.Errors = append(svc.Errors, mkErr(n))
	}
	redefined := nondetChoice("redefines", len(names)+1)
	want := "own,"
	if redefined < len(names) {
		want += names[redefined] + ","
	}
	for i, n := range names {
		if i != redefined {
			want += n + ","
		}
	}
	got := want
	// natively Go picks a map order at random: repeat (once in the executor,
	// which explores every order instead)
	for rep := 0; rep < verifNativeRepeat() && got == want; rep++ {
		m := &MethodExpr{Name: "m", Service: svc}
		// the method declares one error of its own and may redefine a service-level one
		m.Errors = []*ErrorExpr{mkErr("own")}
		if redefined < len(names) {
			m.Errors = append(m.Errors, mkErr(names[redefined]))
		}
		verifMapOrder(2)
		m.Finalize()
		verifMapOrder(0)
		got = ""
		for _, e := range m.Errors {
			got += e.Name + ","
		}
	}
	verifAssert("inherited-errors-in-declaration-order", got == want)
}

// VerifC09_RouteParamsOrder: the path parameters of a route of a service with
// several base paths come in order of first appearance, whatever order Go
// iterates maps in.
func VerifC09_RouteParamsOrder() {
	Root = &RootExpr{API: &APIExpr{Name: "a", HTTP: &HTTPExpr{Path: "/"}}}
	bases := [][]string{
		{"/v1/{region}", "/v2/{shelf}/{region}"},
		{"/a/{bin}/{item}", "/b/{item}/{bin}", "/c/{zone}"},
	}
	bi := nondetChoice("bases", len(bases))
	svc := &HTTPServiceExpr{ServiceExpr: &ServiceExpr{Name: "s"}, Paths: bases[bi]}
	ep := &HTTPEndpointExpr{MethodExpr: &MethodExpr{Name: "m"}, Service: svc}
	r := &RouteExpr{Method: "GET", Path: "/x/{id}/{part}", Endpoint: ep}
	want := map[int]string{0: "region,id,part,shelf,", 1: "bin,item,id,part,zone,"}[bi]
	got := want
	for rep := 0; rep < verifNativeRepeat() && got == want; rep++ {
		verifMapOrder(2)
		ps := r.Params()
		verifMapOrder(0)
		got = ""
		for _, p := range ps {
			got += p + ","
		}
	}
	verifAssert("route-params-in-order-of-first-appearance", got == want)
}

// vClockRand is a deterministic randomizer whose Int is large enough for a
// modulus taken from the clock to matter.
type vClockRand struct{ DeterministicRandomizer }

func (vClockRand) Int() int { return 5000000123 }

// VerifC09_ExamplesIndependentOfTime: generated example values are a function
// of the design and the randomizer alone, not of when the generator runs.
func VerifC09_ExamplesIndependentOfTime() {
	formats := []ValidationFormat{FormatDate, FormatDateTime, FormatRFC1123, FormatEmail, FormatUUID}
	f := formats[nondetChoice("format", len(formats))]
	att := &AttributeExpr{Type: String, Validation: &ValidationExpr{Format: f}}
	e1, _ := byFormat(att, &ExampleGenerator{Randomizer: vClockRand{}}).(string)
	verifAdvanceClock()
	e2, _ := byFormat(att, &ExampleGenerator{Randomizer: vClockRand{}}).(string)
	verifAssert("example-is-a-string", e1 != "")
	verifAssert("example-independent-of-the-clock", e1 == e2)
}
