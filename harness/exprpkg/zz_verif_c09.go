//go:build verif

package expr

// VerifC09_Schemes: scheme lists are sorted sets whatever the map order.
func VerifC09_Schemes() {
	uris := []URIExpr{"http://a", "https://b", "grpc://c", "grpcs://d", "http://e"}
	pick := func(id string) URIExpr { return uris[nondetChoice(id, len(uris))] }
	h1 := &HostExpr{Name: "h1", URIs: []URIExpr{pick("u1"), pick("u2")}}
	h2 := &HostExpr{Name: "h2", URIs: []URIExpr{pick("u4")}}
	srv := &ServerExpr{Name: "s", Hosts: []*HostExpr{h1, h2}}
	api := &APIExpr{Name: "a", Servers: []*ServerExpr{srv}}
	join := func(ss []string) string {
		out := ""
		for _, s := range ss {
			out += s + ","
		}
		return out
	}
	verifMapOrder(0)
	ref := join(api.Schemes())
	refHost := h1.Schemes()
	verifMapOrder(2) // every iteration order of every map ranged over below
	got := join(api.Schemes())
	verifMapOrder(0)
	verifAssert("schemes-independent-of-map-order", got == ref)
	for i := 1; i < len(refHost); i++ {
		verifAssert("schemes-sorted-and-distinct", refHost[i-1] < refHost[i])
	}
}
