//go:build verif

package expr

import "goa.design/goa/v3/eval"

// ---- C11 (expr): goa's own roots declare the dependencies eval sorts by ----

// VerifC11_BuiltinRootsOrder: the design root is processed before the root of
// generated result types whatever the registration order and however many
// result types have been generated so far (they may all be generated later,
// while the design root's DSL runs).
func VerifC11_BuiltinRootsOrder() {
	eval.Reset()
	Root = new(RootExpr)
	GeneratedResultTypes = new(ResultTypesRoot)
	n := nondetChoice("generated-so-far", 3)
	for i := 0; i < n; i++ {
		*GeneratedResultTypes = append(*GeneratedResultTypes, &ResultTypeExpr{UserTypeExpr: &UserTypeExpr{TypeName: "T" + string(rune('0'+i))}})
	}
	if nondetBool("generated-types-root-registered-first") {
		eval.Register(GeneratedResultTypes)
		eval.Register(Root)
	} else {
		eval.Register(Root)
		eval.Register(GeneratedResultTypes)
	}
	roots, err := eval.Context.Roots()
	verifAssert("builtin-roots:sorted", err == nil && len(roots) == 2)
	if err != nil || len(roots) != 2 {
		return
	}
	verifAssert("builtin-roots:design-root-first", roots[0] == eval.Root(Root) && roots[1] == eval.Root(GeneratedResultTypes))
}
