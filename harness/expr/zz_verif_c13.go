//go:build verif

package expr

// ---- C13: copies are independent, structural hashes match equality ----

var verifPrims = []Primitive{Boolean, Int, Int32, UInt64, Float64, String, Bytes}

func verifPrim(id string) Primitive { return verifPrims[nondetChoice(id, len(verifPrims))] }

// verifPrim2: two kinds are enough where the kind only has to differ
func verifPrim2(id string) Primitive { return verifPrims[4+nondetChoice(id, 2)] }

// verifName: a one-letter attribute name (symbolic, a..z or A..Z).
func verifName(id string) string {
	s := nondetString(id, 1)
	// letters of either case (two names may differ by case only)
	verifAssume(s[0]|0x20 >= 'a' && s[0]|0x20 <= 'z')
	return s
}

func verifFlags() (bool, bool, bool) {
	return nondetBool("ignoreFields"), nondetBool("ignoreNames"), nondetBool("ignoreTags")
}

// VerifC13_HashObjectPermutation: attribute declaration order is irrelevant.
func VerifC13_HashObjectPermutation() {
	n1, n2, n3 := verifName("n1"), verifName("n2"), verifName("n3")
	verifAssume(n1 != n2 && n1 != n3 && n2 != n3)
	t1, t2, t3 := verifPrim2("t1"), verifPrim2("t2"), verifPrim2("t3")
	mk := func(name string, t DataType) *NamedAttributeExpr {
		return &NamedAttributeExpr{Name: name, Attribute: &AttributeExpr{Type: t}}
	}
	a := &Object{mk(n1, t1), mk(n2, t2), mk(n3, t3)}
	perms := [][3]int{{0, 2, 1}, {1, 0, 2}, {1, 2, 0}, {2, 0, 1}, {2, 1, 0}}
	p := perms[nondetChoice("perm", len(perms))]
	src := []*NamedAttributeExpr{mk(n1, t1), mk(n2, t2), mk(n3, t3)}
	b := &Object{src[p[0]], src[p[1]], src[p[2]]}
	f, n, t := verifFlags()
	verifAssert("object-attribute-order-irrelevant", Hash(a, f, n, t) == Hash(b, f, n, t))
	ua := &UserTypeExpr{AttributeExpr: &AttributeExpr{Type: a}, TypeName: "T"}
	ub := &UserTypeExpr{AttributeExpr: &AttributeExpr{Type: b}, TypeName: "T"}
	verifAssert("user-type-attribute-order-irrelevant", Hash(ua, f, n, t) == Hash(ub, f, n, t))
	verifAssert("equal-under-permutation", Equal(ua, ub))
}

// VerifC13_HashUnionPermutation: union alternative order is irrelevant.
func VerifC13_HashUnionPermutation() {
	n1, n2, n3 := verifName("n1"), verifName("n2"), verifName("n3")
	verifAssume(n1 != n2 && n1 != n3 && n2 != n3)
	t1, t2, t3 := verifPrim2("t1"), verifPrim2("t2"), verifPrim2("t3")
	mk := func(name string, t DataType) *NamedAttributeExpr {
		return &NamedAttributeExpr{Name: name, Attribute: &AttributeExpr{Type: t}}
	}
	a := &Union{TypeName: "U", Values: []*NamedAttributeExpr{mk(n1, t1), mk(n2, t2), mk(n3, t3)}}
	perms := [][3]int{{0, 2, 1}, {1, 0, 2}, {1, 2, 0}, {2, 0, 1}, {2, 1, 0}}
	p := perms[nondetChoice("perm", len(perms))]
	src := []*NamedAttributeExpr{mk(n1, t1), mk(n2, t2), mk(n3, t3)}
	b := &Union{TypeName: "U", Values: []*NamedAttributeExpr{src[p[0]], src[p[1]], src[p[2]]}}
	f, n, t := verifFlags()
	verifAssert("union-alternative-order-irrelevant", Hash(a, f, n, t) == Hash(b, f, n, t))
}

// VerifC13_HashMetaOrder: the hash does not depend on Go's map iteration
// order over attribute metadata (run under two iteration orders).
func VerifC13_HashMetaOrder() {
	meta := func() MetaExpr {
		return MetaExpr{"struct:field:name": {"X"}, "struct:field:type": {"int"}, "other": {"o"}, "struct:tag:json": {"j"}}
	}
	onUserType := nondetBool("meta-on-user-type")
	build := func() DataType {
		att := &AttributeExpr{Type: String}
		obj := &Object{{Name: "a", Attribute: att}}
		ut := &UserTypeExpr{AttributeExpr: &AttributeExpr{Type: obj}, TypeName: "T"}
		if onUserType {
			ut.AttributeExpr.Meta = meta()
		} else {
			att.Meta = meta()
		}
		return ut
	}
	f, n, t := verifFlags()
	// natively Go picks a random iteration order per range loop: repeat
	for i := 0; i < verifNativeRepeat(); i++ {
		verifMapOrder(0)
		h0 := Hash(build(), f, n, t)
		verifMapOrder(1)
		h1 := Hash(build(), f, n, t)
		verifMapOrder(0)
		verifAssert("hash-independent-of-map-iteration-order", h0 == h1)
	}
}

// reference structural equality, written from the doc comment of Hash
func verifRefEq(a, b DataType, ignoreFields, ignoreNames, ignoreTags bool) bool {
	if a.Kind() != b.Kind() {
		return false
	}
	switch x := a.(type) {
	case Primitive:
		return true
	case *Array:
		return verifRefEq(x.ElemType.Type, b.(*Array).ElemType.Type, ignoreFields, ignoreNames, ignoreTags)
	case *Map:
		y := b.(*Map)
		return verifRefEq(x.KeyType.Type, y.KeyType.Type, ignoreFields, ignoreNames, ignoreTags) &&
			verifRefEq(x.ElemType.Type, y.ElemType.Type, ignoreFields, ignoreNames, ignoreTags)
	case *Object:
		y := b.(*Object)
		if len(*x) != len(*y) {
			return false
		}
		for _, na := range *x {
			other := y.Attribute(na.Name)
			if other == nil || !verifRefEq(na.Attribute.Type, other.Type, ignoreFields, ignoreNames, ignoreTags) {
				return false
			}
		}
		return true
	case UserType:
		y := b.(UserType)
		if (!ignoreNames || ignoreFields) && x.Name() != y.Name() {
			return false
		}
		if ignoreFields {
			return true
		}
		return verifRefEq(x.Attribute().Type, y.Attribute().Type, ignoreFields, ignoreNames, ignoreTags)
	}
	return false
}

// verifShape builds one member of a small family of acyclic type graphs.
func verifShape(id string) DataType {
	leaf := func(k string) DataType {
		name := "A"
		if nondetBool(id + k + "-named-B") {
			name = "B"
		}
		return &UserTypeExpr{TypeName: name, AttributeExpr: &AttributeExpr{Type: &Object{
			{Name: verifName(id + k + "-field"), Attribute: &AttributeExpr{Type: verifPrim(id + k + "-prim")}},
		}}}
	}
	switch nondetChoice(id+"-shape", 6) {
	case 0:
		return verifPrim(id + "-p")
	case 1:
		return leaf("u")
	case 2:
		return &Array{ElemType: &AttributeExpr{Type: leaf("e")}}
	case 3:
		return &Map{KeyType: &AttributeExpr{Type: String}, ElemType: &AttributeExpr{Type: leaf("e")}}
	case 4:
		return &Map{KeyType: &AttributeExpr{Type: leaf("k")}, ElemType: &AttributeExpr{Type: Int}}
	default:
		return &Object{{Name: "x", Attribute: &AttributeExpr{Type: leaf("x")}}, {Name: "y", Attribute: &AttributeExpr{Type: verifPrim(id + "-y")}}}
	}
}

// VerifC13_HashIffEqual: same hash exactly when structurally equal (acyclic shapes).
func VerifC13_HashIffEqual() {
	a, b := verifShape("a"), verifShape("b")
	f, n, t := verifFlags()
	ha, hb := Hash(a, f, n, t), Hash(b, f, n, t)
	eq := verifRefEq(a, b, f, n, t)
	verifAssert("hash-equal-iff-structurally-equal", (ha == hb) == eq)
	verifAssert("hash-repeatable", Hash(a, f, n, t) == ha)
}

func verifRecursive(field string, p Primitive) *UserTypeExpr {
	obj := &Object{{Name: field, Attribute: &AttributeExpr{Type: p}}}
	t := &UserTypeExpr{TypeName: "R", AttributeExpr: &AttributeExpr{Type: obj}}
	obj.Set("next", &AttributeExpr{Type: t})
	obj.Set("list", &AttributeExpr{Type: &Array{ElemType: &AttributeExpr{Type: t}}})
	return t
}

// verifRecursiveUnion: a recursive type whose cycle passes through a union alternative.
func verifRecursiveUnion(field string, p Primitive) *UserTypeExpr {
	obj := &Object{{Name: field, Attribute: &AttributeExpr{Type: p}}}
	t := &UserTypeExpr{TypeName: "E", AttributeExpr: &AttributeExpr{Type: obj}}
	u := &Union{TypeName: "Arg", Values: []*NamedAttributeExpr{
		{Name: "lit", Attribute: &AttributeExpr{Type: String}},
		{Name: "sub", Attribute: &AttributeExpr{Type: t}},
	}}
	obj.Set("arg", &AttributeExpr{Type: u})
	return t
}

// VerifC13_HashCyclicUnion: hashing and copying terminate when the cycle goes
// through a union alternative; equal graphs hash equally.
func VerifC13_HashCyclicUnion() {
	verifMode("depth-limit-is-nontermination")
	n1 := verifName("n1")
	p1 := verifPrim2("p1")
	a, a2 := verifRecursiveUnion(n1, p1), verifRecursiveUnion(n1, p1)
	f, n, t := verifFlags()
	h := Hash(a, f, n, t)
	verifAssert("cyclic-union-hash-repeatable", Hash(a, f, n, t) == h)
	verifAssert("cyclic-union-equal-graphs-same-hash", Hash(a2, f, n, t) == h)
	d := Dup(a)
	verifAssert("cyclic-union-dup-equal", Equal(d, a))
}

// VerifC13_HashCyclic: terminates on recursive types, repeated calls agree,
// separately built equal graphs hash equally, different ones differently.
func VerifC13_HashCyclic() {
	n1, n2 := verifName("n1"), verifName("n2")
	p1, p2 := verifPrim("p1"), verifPrim("p2")
	a, a2, b := verifRecursive(n1, p1), verifRecursive(n1, p1), verifRecursive(n2, p2)
	f, n, t := verifFlags()
	h := Hash(a, f, n, t)
	verifAssert("cyclic-hash-repeatable", Hash(a, f, n, t) == h)
	verifAssert("cyclic-equal-graphs-same-hash", Hash(a2, f, n, t) == h)
	if !f && (n1 != n2 || p1 != p2) {
		verifAssert("cyclic-different-graphs-different-hash", Hash(b, f, n, t) != h)
	}
	d := Dup(a)
	verifAssert("cyclic-dup-terminates-and-is-equal", Hash(d, false, false, false) == Hash(a, false, false, false))
}

// ---- Dup ----

type verifSeen struct {
	atts map[*AttributeExpr]bool
	objs map[*Object]bool
	vals map[*ValidationExpr]bool
	uts  map[UserType]bool
}

func verifWalk(dt DataType, s *verifSeen, visit func(att *AttributeExpr)) {
	var walkAtt func(att *AttributeExpr)
	walkAtt = func(att *AttributeExpr) {
		if att == nil || s.atts[att] {
			return
		}
		s.atts[att] = true
		if att.Validation != nil {
			s.vals[att.Validation] = true
		}
		if visit != nil {
			visit(att)
		}
		verifWalk(att.Type, s, visit)
	}
	switch x := dt.(type) {
	case *Array:
		walkAtt(x.ElemType)
	case *Map:
		walkAtt(x.KeyType)
		walkAtt(x.ElemType)
	case *Object:
		if s.objs[x] {
			return
		}
		s.objs[x] = true
		for _, na := range *x {
			walkAtt(na.Attribute)
		}
	case *Union:
		for _, na := range x.Values {
			walkAtt(na.Attribute)
		}
	case UserType:
		if s.uts[x] {
			return
		}
		s.uts[x] = true
		walkAtt(x.Attribute())
	}
}

func verifNewSeen() *verifSeen {
	return &verifSeen{atts: map[*AttributeExpr]bool{}, objs: map[*Object]bool{}, vals: map[*ValidationExpr]bool{}, uts: map[UserType]bool{}}
}

// verifDump renders everything Dup is supposed to copy, in a canonical order.
func verifDump(dt DataType) string {
	out := ""
	done := map[UserType]bool{}
	var dumpT func(dt DataType)
	var dumpA func(att *AttributeExpr)
	dumpA = func(att *AttributeExpr) {
		out += "<" + att.Description
		if v := att.Validation; v != nil {
			out += " V{p=" + v.Pattern + " f=" + string(v.Format)
			if v.MinLength != nil {
				out += " minlen"
			}
			if v.Maximum != nil {
				out += " max"
			}
			out += " req="
			for _, r := range v.Required {
				out += r + ","
			}
			out += "}"
		}
		for _, k := range []string{"k1", "k2", "added"} {
			if vs, ok := att.Meta[k]; ok {
				out += " M" + k + "="
				for _, v := range vs {
					out += v + ","
				}
			}
		}
		out += " "
		dumpT(att.Type)
		out += ">"
	}
	dumpT = func(dt DataType) {
		switch x := dt.(type) {
		case Primitive:
			out += x.Name()
		case *Array:
			out += "[]"
			dumpA(x.ElemType)
		case *Map:
			out += "map"
			dumpA(x.KeyType)
			dumpA(x.ElemType)
		case *Object:
			out += "{"
			for _, na := range *x {
				out += na.Name + ":"
				dumpA(na.Attribute)
			}
			out += "}"
		case UserType:
			out += "T:" + x.Name()
			if done[x] {
				return
			}
			done[x] = true
			dumpA(x.Attribute())
		}
	}
	dumpT(dt)
	return out
}

func verifDupSubject() *UserTypeExpr {
	one := 1
	f := 5.0
	inner := &UserTypeExpr{TypeName: "Inner", AttributeExpr: &AttributeExpr{
		Type:       &Object{{Name: "c", Attribute: &AttributeExpr{Type: Int, Validation: &ValidationExpr{Maximum: &f}}}},
		Validation: &ValidationExpr{Required: []string{"c"}},
	}}
	obj := &Object{
		{Name: "a", Attribute: &AttributeExpr{Type: String, Description: "da", Validation: &ValidationExpr{Pattern: "^a", MinLength: &one}, Meta: MetaExpr{"k1": {"v1"}}}},
		{Name: "b", Attribute: &AttributeExpr{Type: inner}},
		{Name: "l", Attribute: &AttributeExpr{Type: &Array{ElemType: &AttributeExpr{Type: inner, Validation: &ValidationExpr{Format: FormatDate}}}}},
		{Name: "m", Attribute: &AttributeExpr{Type: &Map{KeyType: &AttributeExpr{Type: String, Validation: &ValidationExpr{Pattern: "k"}}, ElemType: &AttributeExpr{Type: Int}}}},
	}
	t := &UserTypeExpr{TypeName: "Outer", AttributeExpr: &AttributeExpr{Type: obj, Validation: &ValidationExpr{Required: []string{"a"}}, Meta: MetaExpr{"k2": {"v2"}}}}
	if nondetBool("recursive") {
		obj.Set("self", &AttributeExpr{Type: t})
	}
	switch nondetChoice("extra-members", 4) {
	case 3:
		// one attribute object used for two members and as an array element
		shared := &AttributeExpr{Type: String, Description: "shared", Validation: &ValidationExpr{Pattern: "s"}, Meta: MetaExpr{"ks": {"vs"}}}
		obj.Set("s1", shared)
		obj.Set("s2", shared)
		obj.Set("sl", &AttributeExpr{Type: &Array{ElemType: shared}})
	case 1:
		// two result types whose identifiers differ only by structured-syntax suffix / case
		mkRT := func(id, field string) *ResultTypeExpr {
			return &ResultTypeExpr{Identifier: id, UserTypeExpr: &UserTypeExpr{TypeName: "RT" + field, AttributeExpr: &AttributeExpr{
				Type: &Object{{Name: field, Attribute: &AttributeExpr{Type: String}}}}}}
		}
		obj.Set("rj", &AttributeExpr{Type: mkRT("application/vnd.acme.item+json", "j")})
		obj.Set("rx", &AttributeExpr{Type: mkRT("application/vnd.Acme.Item+xml", "x")})
	case 2:
		// a user type that merely shares the name of the built-in Empty type
		obj.Set("e", &AttributeExpr{Type: &UserTypeExpr{TypeName: "Empty", AttributeExpr: &AttributeExpr{
			Type: &Object{{Name: "z", Attribute: &AttributeExpr{Type: Int, Validation: &ValidationExpr{Pattern: "z"}}}}}}})
	}
	return t
}

// VerifC13_DupIndependent: the copy is equal, shares no skeleton cell with
// the original, and no goa mutator applied to any attribute of the copy
// changes the original.
func VerifC13_DupIndependent() {
	orig := verifDupSubject()
	before := verifDump(orig)
	var cp DataType
	if nondetBool("via-DupAtt") {
		cp = DupAtt(&AttributeExpr{Type: orig}).Type
	} else {
		cp = Dup(orig)
	}
	verifAssert("dup-structurally-equal", verifDump(cp) == before)
	verifAssert("dup-hash-equal", Hash(cp, false, false, false) == Hash(orig, false, false, false))
	so, sc := verifNewSeen(), verifNewSeen()
	verifWalk(orig, so, nil)
	var nodes []*AttributeExpr
	verifWalk(cp, sc, func(att *AttributeExpr) { nodes = append(nodes, att) })
	for a := range sc.atts {
		verifAssert("dup-attributes-disjoint", !so.atts[a])
	}
	for o := range sc.objs {
		verifAssert("dup-objects-disjoint", !so.objs[o])
	}
	for v := range sc.vals {
		verifAssert("dup-validations-disjoint", !so.vals[v])
	}
	for u := range sc.uts {
		verifAssert("dup-user-types-disjoint", !so.uts[u])
	}
	// mutate one attribute of the copy with one of goa's own mutators
	att := nodes[nondetChoice("node", len(nodes))]
	switch nondetChoice("mutator", 9) {
	case 0:
		if att.Validation != nil {
			att.Validation.AddRequired("zz")
		}
	case 1:
		if att.Validation != nil {
			nine := 9
			att.Validation.Merge(&ValidationExpr{Pattern: "merged", Format: FormatEmail, MaxLength: &nine, Required: []string{"q"}})
		}
	case 2:
		if att.Validation != nil {
			att.Validation.RemoveRequired("a")
			att.Validation.RemoveRequired("c")
		}
	case 3:
		if att.Meta != nil {
			att.Meta.Merge(MetaExpr{"k1": {"more"}, "k2": {"more"}, "added": {"x"}})
		}
	case 4:
		if o, ok := att.Type.(*Object); ok {
			o.Set("new", &AttributeExpr{Type: String})
		}
	case 5:
		if o, ok := att.Type.(*Object); ok && len(*o) > 0 {
			o.Rename((*o)[0].Name, "renamed")
		}
	case 6:
		if o, ok := att.Type.(*Object); ok && len(*o) > 0 {
			o.Delete((*o)[0].Name)
		}
	case 7:
		att.Description = "changed"
		att.Type = Boolean
	case 8:
		if att.Validation != nil {
			att.Validation.Pattern = "direct"
			att.Validation.Required = append(att.Validation.Required, "direct")
		}
	}
	verifAssert("original-unchanged-by-mutating-copy", verifDump(orig) == before)
	verifReach("dup-done")
}
