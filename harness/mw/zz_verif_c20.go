//go:build verif

package middleware

// ---- C20 (middleware): samplers shared by concurrent requests ----

// VerifC20_Samplers: two requests ask one sampler at the same time.
func VerifC20_Samplers() {
	// the instants the adaptive sampler reads are not the subject here
	verifMode("concrete-clock")
	var s Sampler
	size := nondetChoice("sample-size", 3) + 1
	if nondetBool("adaptive") {
		rate := []int{1, 50, 100000}[nondetChoice("max-rate", 3)]
		s = NewAdaptiveSampler(rate, size)
		// some earlier traffic
		for i := 0; i < nondetChoice("earlier-requests", 3); i++ {
			s.Sample()
		}
	} else {
		pct := nondetInt("percent")
		verifAssume(pct >= 0 && pct <= 100)
		s = NewFixedSampler(pct)
	}
	var r0, r1 bool
	verifConcurrently(
		func() { r0 = s.Sample() },
		func() { r1 = s.Sample() },
	)
	verifRaceFree("sampler")
	_, _ = r0, r1
}
