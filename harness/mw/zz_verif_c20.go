//go:build verif

package middleware

// ---- C20 (middleware): samplers shared by concurrent requests ----

// VerifC20_Samplers: two requests ask one sampler at the same time.
func VerifC20_Samplers() {
	// the instants the adaptive sampler reads are not the subject here
	verifMode("concrete-clock")
	size := nondetChoice("sample-size", 3) + 1
	adaptive := nondetBool("adaptive")
	rate, earlier, pct := 1, 0, 0
	if adaptive {
		rate = []int{1, 50, 100000}[nondetChoice("max-rate", 3)]
		earlier = nondetChoice("earlier-requests", 3)
	} else {
		pct = nondetInt("percent")
		verifAssume(pct >= 0 && pct <= 100)
	}
	// natively the two goroutines are started many times so that the scheduler
	// meets the windows the executor explores as preemption points
	reps := verifNativeRepeat()
	if reps > 1 {
		reps *= 300
	}
	for rep := 0; rep < reps; rep++ {
		var s Sampler
		if adaptive {
			s = NewAdaptiveSampler(rate, size)
			for i := 0; i < earlier; i++ {
				s.Sample() // some earlier traffic
			}
		} else {
			s = NewFixedSampler(pct)
		}
		var r0, r1 bool
		verifInterleave(
			func() { r0 = s.Sample() },
			func() { r1 = s.Sample() },
		)
		_, _ = r0, r1
	}
	verifRaceFree("sampler")
}
