//go:build verif

package eval

import (
	"errors"
	"strings"
)

// ---- C11: DSL evaluation runs in global phases and dependency order ----

const (
	phDSL = iota
	phPrepare
	phValidate
	phFinalize
)

type vEvent struct{ phase, id int }

var vLog []vEvent

type vRoot struct {
	name  string
	id    int
	deps  []Root
	sets  func() []ExpressionSet
	rootV *vExpr // the root itself takes part in prepare/validate/finalize
}

func (r *vRoot) EvalName() string   { return r.name }
func (r *vRoot) DependsOn() []Root  { return r.deps }
func (r *vRoot) Packages() []string { return nil }
func (r *vRoot) WalkSets(w SetWalker) {
	if r.sets == nil {
		return
	}
	// sets are produced lazily, the way expr.Root walks collections that
	// earlier DSL executions have filled
	for i := 0; ; i++ {
		ss := r.sets()
		if i >= len(ss) {
			return
		}
		w(ss[i])
	}
}
func (r *vRoot) Prepare()        { vLog = append(vLog, vEvent{phPrepare, 100 + r.id}) }
func (r *vRoot) Validate() error { vLog = append(vLog, vEvent{phValidate, 100 + r.id}); return nil }
func (r *vRoot) Finalize()       { vLog = append(vLog, vEvent{phFinalize, 100 + r.id}) }

type vExpr struct {
	id          int
	dslErr      bool
	validateErr bool
	onDSL       func()
}

func (e *vExpr) EvalName() string { return "expr" }
func (e *vExpr) DSL() func() {
	return func() {
		vLog = append(vLog, vEvent{phDSL, e.id})
		if e.dslErr {
			Context.Record(&Error{GoError: errors.New("dsl error")})
		}
		if e.onDSL != nil {
			e.onDSL()
		}
	}
}
func (e *vExpr) Prepare() { vLog = append(vLog, vEvent{phPrepare, e.id}) }
func (e *vExpr) Validate() error {
	vLog = append(vLog, vEvent{phValidate, e.id})
	if e.validateErr {
		return errors.New("validation error")
	}
	return nil
}
func (e *vExpr) Finalize() { vLog = append(vLog, vEvent{phFinalize, e.id}) }

func verifPerm(n int) []int {
	// a symbolic permutation of 0..n-1 (free choice)
	rest := make([]int, n)
	for i := range rest {
		rest[i] = i
	}
	var out []int
	for len(rest) > 0 {
		k := 0
		if len(rest) > 1 {
			k = nondetChoice("order", len(rest))
		}
		out = append(out, rest[k])
		rest = append(rest[:k:k], rest[k+1:]...)
	}
	return out
}

// verifRootsOrder: every dependency matrix over n roots, every registration order.
func verifRootsOrder(n int, selfLoops bool) {
	Reset()
	vLog = nil
	names := []string{"r0", "r1", "r2", "r3", "r4"}
	roots := make([]*vRoot, n)
	for i := range roots {
		roots[i] = &vRoot{name: names[i], id: i}
	}
	var dep [5][5]bool
	for i := 0; i < n; i++ {
		for j := 0; j < n; j++ {
			if i == j && !selfLoops {
				continue
			}
			if nondetBool("dep") {
				dep[i][j] = true
				roots[i].deps = append(roots[i].deps, roots[j])
			}
		}
	}
	for _, i := range verifPerm(n) {
		if err := Register(roots[i]); err != nil {
			verifAssert("register-distinct-names", false)
		}
	}
	// reference: transitive closure
	clo := dep
	for k := 0; k < n; k++ {
		for i := 0; i < n; i++ {
			for j := 0; j < n; j++ {
				if clo[i][k] && clo[k][j] {
					clo[i][j] = true
				}
			}
		}
	}
	cyclic, selfOnly := false, true
	for i := 0; i < n; i++ {
		if clo[i][i] {
			cyclic = true
			// is there a cycle through another root?
			for j := 0; j < n; j++ {
				if j != i && clo[i][j] && clo[j][i] {
					selfOnly = false
				}
			}
		}
	}
	got, err := Context.Roots()
	if cyclic {
		if selfOnly {
			verifAssert("cycle-reported[self-dependency-only]", err != nil)
		} else {
			verifAssert("cycle-reported", err != nil)
		}
		return
	}
	verifAssert("acyclic-accepted", err == nil)
	if err != nil {
		return
	}
	verifAssert("all-roots-exactly-once", len(got) == n)
	pos := [5]int{-1, -1, -1, -1, -1}
	for p, r := range got {
		vr, ok := r.(*vRoot)
		verifAssert("result-is-registered-root", ok)
		if ok {
			verifAssert("no-root-twice", pos[vr.id] == -1)
			pos[vr.id] = p
		}
	}
	for i := 0; i < n; i++ {
		verifAssert("every-root-present", pos[i] >= 0)
		for j := 0; j < n; j++ {
			if clo[i][j] {
				verifAssert("dependencies-come-first", pos[j] < pos[i])
			}
		}
	}
	verifReach("order-checked")
}

func VerifC11_RootsOrder2()         { verifRootsOrder(2, false) }
func VerifC11_RootsOrder3()         { verifRootsOrder(3, false) }
func VerifC11_RootsSelfDependency() { verifRootsOrder(2, true) }
func VerifC11T_RootsOrder4()        { verifRootsOrder(4, false) }

// VerifC11_Phases: global phase barrier, late expressions, errors together,
// no finalize after an error.
func VerifC11_Phases() {
	Reset()
	vLog = nil
	var all []*vExpr
	mk := func(id int) *vExpr {
		e := &vExpr{id: id, dslErr: nondetBool("dsl-error"), validateErr: nondetBool("validate-error")}
		all = append(all, e)
		return e
	}
	r0 := &vRoot{name: "r0", id: 0}
	r1 := &vRoot{name: "r1", id: 1}
	if nondetBool("r0-depends-on-r1") {
		r0.deps = []Root{r1}
	}
	// r0: one static expression whose DSL adds a late expression to a second set
	var late ExpressionSet
	e0 := mk(0)
	addsLate := nondetBool("expr0-adds-late-expression")
	if addsLate {
		e0.onDSL = func() { late = append(late, mk(1)) }
	}
	r0.sets = func() []ExpressionSet { return []ExpressionSet{{e0}, late} }
	e2, e3 := mk(2), mk(3)
	r1.sets = func() []ExpressionSet { return []ExpressionSet{{e2, nil, e3}} }
	if nondetBool("register-r1-first") {
		Register(r1)
		Register(r0)
	} else {
		Register(r0)
		Register(r1)
	}
	err := RunDSL()
	// tallies
	count := func(phase, id int) int {
		n := 0
		for _, ev := range vLog {
			if ev.phase == phase && ev.id == id {
				n++
			}
		}
		return n
	}
	anyDSLErr, anyValErr := false, false
	nDSLErr := 0
	for _, e := range all {
		verifAssert("every-expression-dsl-executed-once", count(phDSL, e.id) == 1)
		if e.dslErr {
			anyDSLErr = true
			nDSLErr++
		}
		if e.validateErr {
			anyValErr = true
		}
	}
	if addsLate {
		verifAssert("late-expression-executed", count(phDSL, 1) == 1)
	}
	// phase barrier: no event of an earlier phase after an event of a later one
	maxPhase := -1
	for _, ev := range vLog {
		verifAssert("global-phase-barrier", ev.phase >= maxPhase)
		if ev.phase > maxPhase {
			maxPhase = ev.phase
		}
	}
	if anyDSLErr {
		verifAssert("dsl-errors-returned", err != nil)
		verifAssert("no-later-phase-after-dsl-error", maxPhase == phDSL)
		me, ok := err.(MultiError)
		verifAssert("all-dsl-errors-together", ok && len(me) == nDSLErr)
		return
	}
	for _, e := range all {
		verifAssert("every-expression-prepared-once", count(phPrepare, e.id) == 1)
		verifAssert("every-expression-validated-once", count(phValidate, e.id) == 1)
	}
	if anyValErr {
		verifAssert("validation-errors-returned", err != nil)
		verifAssert("no-finalize-after-validation-error", maxPhase == phValidate)
		// every failing expression is named in the returned error
		me, _ := err.(MultiError)
		named := 0
		for _, e := range me {
			var ve *ValidationErrors
			if errors.As(e.GoError, &ve) {
				named += len(ve.Errors)
			}
		}
		want := 0
		for _, e := range all {
			if e.validateErr {
				want++
			}
		}
		verifAssert("all-validation-errors-together", named == want)
		return
	}
	verifAssert("clean-design-accepted", err == nil)
	for _, e := range all {
		verifAssert("every-expression-finalized-once", count(phFinalize, e.id) == 1)
	}
	// dependency order across roots in every phase: r1 before r0 when r0 depends on r1
	if len(r0.deps) > 0 {
		first := func(phase int, ids ...int) int {
			for i, ev := range vLog {
				if ev.phase == phase {
					for _, id := range ids {
						if ev.id == id {
							return i
						}
					}
				}
			}
			return -1
		}
		for ph := phDSL; ph <= phFinalize; ph++ {
			verifAssert("dependency-root-processed-first", first(ph, 2, 3) < first(ph, 0, 1))
		}
	}
	verifReach("phases-done")
}

// VerifC11_LateRoot: a root registered while the DSL executes is executed,
// prepared, validated and finalized in the same run.
func VerifC11_LateRoot() {
	Reset()
	vLog = nil
	lateRoot := &vRoot{name: "late", id: 1}
	le := &vExpr{id: 10}
	lateRoot.sets = func() []ExpressionSet { return []ExpressionSet{{le}} }
	e0 := &vExpr{id: 0}
	e0.onDSL = func() { Register(lateRoot) }
	r0 := &vRoot{name: "r0", id: 0}
	r0.sets = func() []ExpressionSet { return []ExpressionSet{{e0}} }
	Register(r0)
	err := RunDSL()
	verifAssert("late-root:accepted", err == nil)
	ran := false
	for _, ev := range vLog {
		if ev.phase == phDSL && ev.id == 10 {
			ran = true
		}
	}
	verifAssert("late-root:dsl-executed[root-registered-during-execution]", ran)
}

// vReport reports an error on behalf of an expression: one source line for
// every caller, as when a design uses a shared helper or a loop.
func vReport(name string) { ReportError("bad %s", name) }

// VerifC11_ReportedErrorsAllListed: every error reported while the DSL runs is
// in the error RunDSL returns, also when they come from the same source line.
func VerifC11_ReportedErrorsAllListed() {
	Reset()
	vLog = nil
	names := []string{"alpha", "beta", "gamma"}
	fails := make([]bool, len(names))
	var set ExpressionSet
	for i := range names {
		i := i
		fails[i] = nondetBool("fails")
		e := &vExpr{id: i}
		if fails[i] {
			if nondetBool("through-shared-helper") {
				e.onDSL = func() { vReport(names[i]) }
			} else {
				e.onDSL = func() { ReportError("bad %s", names[i]) }
			}
		}
		set = append(set, e)
	}
	r := &vRoot{name: "r", id: 0}
	r.sets = func() []ExpressionSet { return []ExpressionSet{set} }
	Register(r)
	err := RunDSL()
	anyFails := fails[0] || fails[1] || fails[2]
	verifAssert("error-iff-some-expression-reported-one", (err != nil) == anyFails)
	if err == nil {
		return
	}
	msg := err.Error()
	for i, n := range names {
		verifAssert("reported-errors-listed-exactly", strings.Contains(msg, "bad "+n) == fails[i])
	}
}

// VerifC11_LateRoots2: two roots registered while the DSL executes, with an
// arbitrary dependency relation between them: dependency order in every phase,
// and a cycle among them is reported.
func VerifC11_LateRoots2() {
	Reset()
	vLog = nil
	c := &vRoot{name: "c", id: 1}
	d := &vRoot{name: "d", id: 2}
	ce, de := &vExpr{id: 10}, &vExpr{id: 20}
	c.sets = func() []ExpressionSet { return []ExpressionSet{{ce}} }
	d.sets = func() []ExpressionSet { return []ExpressionSet{{de}} }
	cOnD, dOnC := nondetBool("c-depends-on-d"), nondetBool("d-depends-on-c")
	if cOnD {
		c.deps = []Root{d}
	}
	if dOnC {
		d.deps = []Root{c}
	}
	dFirst := nondetBool("d-registered-first")
	e0 := &vExpr{id: 0}
	e0.onDSL = func() {
		if dFirst {
			Register(d)
			Register(c)
		} else {
			Register(c)
			Register(d)
		}
	}
	r0 := &vRoot{name: "r0", id: 0}
	r0.sets = func() []ExpressionSet { return []ExpressionSet{{e0}} }
	Register(r0)
	err := RunDSL()
	if cOnD && dOnC {
		verifAssert("late-roots:cycle-reported", err != nil)
		return
	}
	verifAssert("late-roots:accepted", err == nil)
	if err != nil {
		return
	}
	first := func(phase, id int) int {
		for i, ev := range vLog {
			if ev.phase == phase && ev.id == id {
				return i
			}
		}
		return -1
	}
	for ph := phDSL; ph <= phFinalize; ph++ {
		verifAssert("late-roots:every-phase-reaches-both", first(ph, 10) >= 0 && first(ph, 20) >= 0)
		if cOnD {
			verifAssert("late-roots:dependency-first", first(ph, 20) < first(ph, 10))
		}
		if dOnC {
			verifAssert("late-roots:dependency-first", first(ph, 10) < first(ph, 20))
		}
	}
}

// VerifC11_LateRootErrorsListed: errors reported by a root registered while
// the DSL executes are returned together with the errors of the roots that
// were registered up front (execution is one phase: all its errors come back).
func VerifC11_LateRootErrorsListed() {
	Reset()
	vLog = nil
	firstFails, lateFails := nondetBool("first-fails"), nondetBool("late-fails")
	le := &vExpr{id: 10}
	if lateFails {
		le.onDSL = func() { ReportError("bad late") }
	}
	l := &vRoot{name: "l", id: 1}
	l.sets = func() []ExpressionSet { return []ExpressionSet{{le}} }
	e0 := &vExpr{id: 0}
	e0.onDSL = func() {
		Register(l)
		if firstFails {
			ReportError("bad first")
		}
	}
	r0 := &vRoot{name: "r0", id: 0}
	r0.sets = func() []ExpressionSet { return []ExpressionSet{{e0}} }
	Register(r0)
	err := RunDSL()
	verifAssert("late-errors:error-iff-reported", (err != nil) == (firstFails || lateFails))
	if err == nil {
		return
	}
	msg := err.Error()
	verifAssert("late-errors:first-listed", strings.Contains(msg, "bad first") == firstFails)
	verifAssert("late-errors:late-listed", strings.Contains(msg, "bad late") == lateFails)
}
