//go:build verif

package goa

func VerifSmoke() {
	t1, t2 := nondetBool("t1"), nondetBool("t2")
	a := &ServiceError{Name: "a", Message: nondetString("m1", 2), Timeout: t1}
	b := &ServiceError{Name: "b", Message: nondetString("m2", 1), Timeout: t2}
	m1 := a.Message
	r := MergeErrors(a, b).(*ServiceError)
	verifAssert("timeout-and", r.Timeout == (t1 && t2))
	verifAssert("msg", r.Message == m1+"; "+b.Message)
	verifAssert("bogus", r.Message[0] != 'x')
}
