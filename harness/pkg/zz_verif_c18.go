//go:build verif

package goa

import "errors"

// ---- C18: error merging laws (pkg.MergeErrors, History, Unwrap) ----

type verifWrapErr struct {
	msg   string
	cause error
}

func (w *verifWrapErr) Error() string { return w.msg }
func (w *verifWrapErr) Unwrap() error { return w.cause }

// verifSpec describes one operand independently of the ServiceError built from it.
type verifSpec struct {
	isNil                     bool
	name                      string
	msg                       string
	timeout, temporary, fault bool
	hasField                  bool
	field                     string
	cause                     error // sentinel reachable through errors.Is, or nil
	isSvc                     bool
	wrapsSvc                  bool // a service error wrapped by user code (fmt.Errorf("...: %w", err))
}

var verifNames = []string{"error", "a", "b"}

// verifEmptyMessages: operands may carry an empty message (3-operand harnesses
// only: with 4 operands the extra length choice exceeds the path budget)
var verifEmptyMessages bool

// verifOperand draws the symbolic description of operand i.
func verifOperand(i string, kinds int) verifSpec {
	var s verifSpec
	k := nondetChoice("kind"+i, kinds)
	if verifEmptyMessages {
		s.msg = nondetStringUpTo("msg"+i, 1) // possibly empty
	} else {
		s.msg = nondetString("msg"+i, 1)
	}
	switch k {
	case 0: // service error without cause
		s.isSvc = true
		s.name = verifNames[nondetChoice("name"+i, 3)]
		s.timeout, s.temporary, s.fault = nondetBool("to"+i), nondetBool("te"+i), nondetBool("fa"+i)
		s.hasField = nondetBool("hf" + i)
		s.field = "f" + i
	case 1: // plain Go error
		s.name, s.fault = "error", true
		s.cause = errors.New(s.msg)
	case 2: // nil
		s.isNil = true
	case 3: // service error with cause
		s.isSvc = true
		s.name = verifNames[nondetChoice("name"+i, 3)]
		s.timeout, s.temporary, s.fault = nondetBool("to"+i), nondetBool("te"+i), nondetBool("fa"+i)
		s.cause = errors.New("cause" + i)
	case 4: // wrapped plain error
		s.name, s.fault = "error", true
		s.cause = errors.New("inner" + i)
	case 5: // service error wrapped by user code
		s.wrapsSvc = true
		s.name = verifNames[nondetChoice("name"+i, 3)]
		s.timeout, s.temporary, s.fault = nondetBool("to"+i), nondetBool("te"+i), nondetBool("fa"+i)
	}
	return s
}

// verifBuild makes a fresh error value for the spec (MergeErrors mutates its
// first argument, so every grouping gets its own copies).
func verifBuild(s verifSpec) error {
	switch {
	case s.isNil:
		return nil
	case s.wrapsSvc:
		inner := &ServiceError{Name: s.name, ID: "id", Message: s.msg, Timeout: s.timeout, Temporary: s.temporary, Fault: s.fault}
		return &verifWrapErr{msg: "w:" + s.msg, cause: inner}
	case s.isSvc:
		e := &ServiceError{Name: s.name, ID: "id", Message: s.msg, Timeout: s.timeout, Temporary: s.temporary, Fault: s.fault, err: s.cause}
		if s.hasField {
			f := s.field
			e.Field = &f
		}
		return e
	case s.cause != nil && s.cause.Error() == s.msg:
		return s.cause
	default:
		return &verifWrapErr{msg: s.msg, cause: s.cause}
	}
}

func verifCheckMerged(tag string, got error, specs []verifSpec, checkHistory bool) {
	var live []verifSpec
	for _, s := range specs {
		if !s.isNil {
			live = append(live, s)
		}
	}
	if len(live) == 0 {
		verifAssert(tag+"all-nil-gives-nil", got == nil)
		return
	}
	verifAssert(tag+"non-nil", got != nil)
	if got == nil {
		return
	}
	if len(live) == 1 {
		// merging with nil changes nothing: the lone operand comes back as it was
		s := live[0]
		if s.wrapsSvc {
			var inner *ServiceError
			verifAssert(tag+"nil-neutral-wrapped", got.Error() == "w:"+s.msg && errors.As(got, &inner) && inner.Name == s.name && inner.Message == s.msg)
			return
		}
		verifAssert(tag+"nil-neutral-message", got.Error() == s.msg)
		if s.isSvc {
			se, ok := got.(*ServiceError)
			verifAssert(tag+"nil-neutral-type", ok)
			if ok {
				verifAssert(tag+"nil-neutral-fields", se.Name == s.name && se.Timeout == s.timeout && se.Temporary == s.temporary && se.Fault == s.fault)
			}
		}
		if s.cause != nil {
			verifAssert(tag+"nil-neutral-cause", errors.Is(got, s.cause))
		}
		return
	}
	se, ok := got.(*ServiceError)
	verifAssert(tag+"merged-is-service-error", ok)
	if !ok {
		return
	}
	msg := live[0].msg
	name := live[0].name
	to, te, fa := live[0].timeout, live[0].temporary, live[0].fault
	for _, s := range live[1:] {
		msg += "; " + s.msg
		if name == "error" {
			name = s.name
		}
		to, te, fa = to && s.timeout, te && s.temporary, fa && s.fault
	}
	verifAssert(tag+"message-concat-in-order", se.Message == msg)
	verifAssert(tag+"timeout-is-conjunction", se.Timeout == to)
	verifAssert(tag+"temporary-is-conjunction", se.Temporary == te)
	verifAssert(tag+"fault-is-conjunction", se.Fault == fa)
	verifAssert(tag+"first-specific-name-wins", se.Name == name)
	for _, s := range live {
		if s.cause != nil {
			verifAssert(tag+"cause-reachable", errors.Is(se, s.cause))
		}
	}
	if checkHistory {
		h := se.History()
		verifAssert(tag+"history-one-entry-per-part", len(h) == len(live))
		if len(h) == len(live) {
			for i, s := range live {
				verifAssert(tag+"history-name", h[i].Name == s.name)
				verifAssert(tag+"history-message", h[i].Message == s.msg)
				if s.isSvc && s.hasField {
					verifAssert(tag+"history-field", h[i].Field != nil && *h[i].Field == s.field)
				} else {
					verifAssert(tag+"history-field", h[i].Field == nil)
				}
			}
		}
	}
}

func verifMerge3(kinds int, history bool) {
	verifEmptyMessages = true
	s := []verifSpec{verifOperand("0", kinds), verifOperand("1", kinds), verifOperand("2", kinds)}
	// ((a b) c)
	l := MergeErrors(MergeErrors(verifBuild(s[0]), verifBuild(s[1])), verifBuild(s[2]))
	verifCheckMerged("L:", l, s, history)
	// (a (b c))
	r := MergeErrors(verifBuild(s[0]), MergeErrors(verifBuild(s[1]), verifBuild(s[2])))
	verifCheckMerged("R:", r, s, history)
	verifReach("merge3-done")
}

// VerifC18_Merge3: all 6 operand kinds, laws except history.
func VerifC18_Merge3() { verifMerge3(6, false) }

// VerifC18_History3: history exactly-once with original name/field/message.
func VerifC18_History3() { verifMerge3(3, true) }

func verifMerge4(kinds int, history bool) {
	verifEmptyMessages = false
	s := []verifSpec{verifOperand("0", kinds), verifOperand("1", kinds), verifOperand("2", kinds), verifOperand("3", kinds)}
	b := func(i int) error { return verifBuild(s[i]) }
	m := MergeErrors
	verifCheckMerged("G1:", m(m(m(b(0), b(1)), b(2)), b(3)), s, history)
	verifCheckMerged("G2:", m(m(b(0), m(b(1), b(2))), b(3)), s, history)
	verifCheckMerged("G3:", m(m(b(0), b(1)), m(b(2), b(3))), s, history)
	verifCheckMerged("G4:", m(b(0), m(m(b(1), b(2)), b(3))), s, history)
	verifCheckMerged("G5:", m(b(0), m(b(1), m(b(2), b(3)))), s, history)
	verifReach("merge4-done")
}

// thorough tier
func VerifC18T_Merge4()   { verifMerge4(4, false) }
func VerifC18T_History4() { verifMerge4(3, true) }

// VerifC18_Constructors: the documented constructors set exactly their flags
// and merged validation errors keep name/field.
func VerifC18_Constructors() {
	msg := nondetString("m", 2)
	check := func(tag string, e *ServiceError, name string, to, te, fa bool) {
		verifAssert(tag+"-name", e.Name == name)
		verifAssert(tag+"-flags", e.Timeout == to && e.Temporary == te && e.Fault == fa)
		verifAssert(tag+"-msg", e.Message == msg)
		verifAssert(tag+"-history-self", len(e.History()) == 1 && e.History()[0] == e)
	}
	n := verifNames[nondetChoice("n", 3)]
	check("permanent", PermanentError(n, "%s", msg), n, false, false, false)
	check("temporary", TemporaryError(n, "%s", msg), n, false, true, false)
	check("perm-timeout", PermanentTimeoutError(n, "%s", msg), n, true, false, false)
	check("temp-timeout", TemporaryTimeoutError(n, "%s", msg), n, true, true, false)
	check("fault", Fault("%s", msg), "fault", false, false, true)
	cause := errors.New(msg)
	to, te, fa := nondetBool("to"), nondetBool("te"), nondetBool("fa")
	e := NewServiceError(cause, n, to, te, fa)
	check("new", e, n, to, te, fa)
	verifAssert("new-unwrap", errors.Unwrap(e) == cause && errors.Is(e, cause))
}
