//go:build verif

package goa

import "regexp"

// ---- C20 (pkg): pattern cache under two concurrent invocations ----

func VerifC20_ValidatePattern() {
	v0, v1 := nondetStringUpTo("v0", 2), nondetStringUpTo("v1", 2)
	pats := []string{"^[a-z]+$", "^x"}
	p0 := pats[nondetChoice("p0", 2)]
	p1 := pats[nondetChoice("p1", 2)]
	if nondetBool("warm-cache") {
		ValidatePattern("w", "w", p0)
	}
	var r0, r1 error
	verifInterleave(
		func() { r0 = ValidatePattern("a", v0, p0) },
		func() { r1 = ValidatePattern("b", v1, p1) },
	)
	verifRaceFree("pattern-cache")
	verifAssert("verdict-depends-on-own-inputs-only",
		(r0 == nil) == regexp.MustCompile(p0).MatchString(v0) && (r1 == nil) == regexp.MustCompile(p1).MatchString(v1))
}

// VerifC20_MergeErrorsIsolation: validation errors of two requests do not share state.
func VerifC20_MergeErrorsIsolation() {
	m0, m1 := nondetString("m0", 1), nondetString("m1", 1)
	var e0, e1 error
	verifInterleave(
		func() { e0 = MergeErrors(MissingFieldError(m0, "body"), InvalidLengthError(m0, m0, 1, 2, true)) },
		func() { e1 = MergeErrors(MissingFieldError(m1, "body"), InvalidLengthError(m1, m1, 1, 2, true)) },
	)
	verifRaceFree("merge-errors")
	verifAssert("errors-not-shared", e0 != nil && e1 != nil && *e0.(*ServiceError).Field == m0 && *e1.(*ServiceError).Field == m1)
}

// VerifC20_ValidationErrorConstructors: the validation error built for one
// request is made of that request's arguments only, also when both requests
// fail on a field of the same name.
func VerifC20_ValidationErrorConstructors() {
	kind := nondetChoice("kind", 5)
	v0, v1 := nondetString("v0", 1), nondetString("v1", 1)
	build := func(v string, second bool) error {
		switch kind {
		case 0:
			if second {
				return InvalidEnumValueError("status", v, []any{"c", "d", "e"})
			}
			return InvalidEnumValueError("status", v, []any{"a", "b"})
		case 1:
			if second {
				return InvalidPatternError("status", v, "^q")
			}
			return InvalidPatternError("status", v, "^p")
		case 2:
			if second {
				return InvalidRangeError("status", len(v), 7, false)
			}
			return InvalidRangeError("status", len(v), 3, true)
		case 3:
			if second {
				return InvalidLengthError("status", v, len(v), 9, false)
			}
			return InvalidLengthError("status", v, len(v), 2, true)
		default:
			if second {
				return InvalidFieldTypeError("status", v, "boolean")
			}
			return InvalidFieldTypeError("status", v, "integer")
		}
	}
	if nondetBool("earlier-request") {
		build("z", nondetBool("earlier-is-second-kind"))
	}
	var e0, e1 error
	verifInterleave(
		func() { e0 = build(v0, false) },
		func() { e1 = build(v1, true) },
	)
	verifRaceFree("validation-error-constructors")
	s0, ok0 := e0.(*ServiceError)
	s1, ok1 := e1.(*ServiceError)
	verifAssert("errors-built", ok0 && ok1)
	if !ok0 || !ok1 {
		return
	}
	has := func(s, sub string) bool {
		for i := 0; i+len(sub) <= len(s); i++ {
			if s[i:i+len(sub)] == sub {
				return true
			}
		}
		return false
	}
	var own0, own1 string
	switch kind {
	case 0:
		own0, own1 = `one of "a", "b" but`, `one of "c", "d", "e" but`
	case 1:
		own0, own1 = `"^p"`, `"^q"`
	case 2:
		own0, own1 = "greater or equal than 3 ", "lesser or equal than 7 "
	case 3:
		own0, own1 = "greater or equal than 2 ", "lesser or equal than 9 "
	default:
		own0, own1 = "must be a integer", "must be a boolean"
	}
	verifAssert("message-made-of-own-arguments", has(s0.Message, own0) && has(s1.Message, own1) && !has(s0.Message, own1) && !has(s1.Message, own0))
}
