//go:build verif

package goa

import "regexp"

// ---- C20 (pkg): pattern cache under two concurrent invocations ----

func VerifC20_ValidatePattern() {
	v0, v1 := nondetStringUpTo("v0", 2), nondetStringUpTo("v1", 2)
	pats := []string{"^[a-z]+$", "^x"}
	p0 := pats[nondetChoice("p0", 2)]
	p1 := pats[nondetChoice("p1", 2)]
	if nondetBool("warm-cache") {
		ValidatePattern("w", "w", p0)
	}
	var r0, r1 error
	verifConcurrently(
		func() { r0 = ValidatePattern("a", v0, p0) },
		func() { r1 = ValidatePattern("b", v1, p1) },
	)
	verifRaceFree("pattern-cache")
	verifAssert("verdict-depends-on-own-inputs-only",
		(r0 == nil) == regexp.MustCompile(p0).MatchString(v0) && (r1 == nil) == regexp.MustCompile(p1).MatchString(v1))
}

// VerifC20_MergeErrorsIsolation: validation errors of two requests do not share state.
func VerifC20_MergeErrorsIsolation() {
	m0, m1 := nondetString("m0", 1), nondetString("m1", 1)
	var e0, e1 error
	verifConcurrently(
		func() { e0 = MergeErrors(MissingFieldError(m0, "body"), InvalidLengthError(m0, m0, 1, 2, true)) },
		func() { e1 = MergeErrors(MissingFieldError(m1, "body"), InvalidLengthError(m1, m1, 1, 2, true)) },
	)
	verifRaceFree("merge-errors")
	verifAssert("errors-not-shared", e0 != nil && e1 != nil && *e0.(*ServiceError).Field == m0 && *e1.(*ServiceError).Field == m1)
}
