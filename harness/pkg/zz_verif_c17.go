//go:build verif

package goa

import (
	"net"
	"regexp"
)

// ---- C17: format and pattern validators ----

func verifIsAlnum(c byte) bool {
	return 'a' <= c && c <= 'z' || 'A' <= c && c <= 'Z' || '0' <= c && c <= '9'
}

// verifHostShape classifies s: good = strict RFC 1035/1123 host name (labels
// of letters, digits, hyphens, not starting or ending with a hyphen, separated
// by single dots); bad = malformed by construction (a character outside
// [A-Za-z0-9.-], an empty label, or a label with a leading/trailing hyphen).
func verifHostShape(s string) (good, bad bool) {
	if s == "" {
		return false, true
	}
	labelStart := true
	var prev byte
	for i := 0; i < len(s); i++ {
		c := s[i]
		switch {
		case c == '.':
			if labelStart || prev == '-' {
				bad = true
			}
			labelStart = true
		case c == '-':
			if labelStart {
				bad = true
			}
			labelStart = false
		case verifIsAlnum(c):
			labelStart = false
		default:
			bad = true
		}
		prev = c
	}
	if labelStart || prev == '-' {
		bad = true
	}
	return !bad, bad
}

func verifHostname(n int) {
	s := nondetStringUpTo("host", n)
	for i := 0; i < len(s); i++ {
		verifAssume(s[i] < 0x80)
	}
	accepted := ValidateFormat("h", s, FormatHostname) == nil
	verifObserve("accepted", accepted)
	good, bad := verifHostShape(s)
	hasAlnum := false
	for i := 0; i < len(s); i++ {
		hasAlnum = hasAlnum || verifIsAlnum(s[i])
	}
	if good {
		verifAssert("hostname:well-formed-accepted", accepted)
	}
	if bad {
		if hasAlnum {
			verifAssert("hostname:malformed-rejected", !accepted)
		} else {
			verifAssert("hostname:no-letter-or-digit-rejected", !accepted)
		}
	}
	if good && len(s) >= 2 && s[0] != '.' && s[1] != '.' {
		verifAssert("hostname:well-formed-with-long-first-label-accepted", accepted)
	}
}

func VerifC17_Hostname4()  { verifHostname(4) }
func VerifC17T_Hostname5() { verifHostname(5) }

// verifDottedQuad: s is d.d.d.d with 1-3 digit groups, each <= 255 and without
// a leading zero.
func verifDottedQuad(s string) bool {
	groups, digits, val := 0, 0, 0
	lead0 := false
	for i := 0; i <= len(s); i++ {
		if i == len(s) || s[i] == '.' {
			if digits == 0 || digits > 3 || val > 255 || (lead0 && digits > 1) {
				return false
			}
			groups++
			digits, val, lead0 = 0, 0, false
			continue
		}
		c := s[i]
		if c < '0' || c > '9' {
			return false
		}
		if digits == 0 && c == '0' {
			lead0 = true
		}
		digits++
		val = val*10 + int(c-'0')
	}
	return groups == 4
}

// VerifC17_IPFamilies: ip = ipv4 xor ipv6; ipv4 accepts exactly dotted quads.
func VerifC17_IPFamilies() {
	var s string
	switch nondetChoice("tmpl", 7) {
	case 0:
		s = nondetString("a", 1) + "." + nondetString("b", 1) + "." + nondetString("c", 1) + "." + nondetString("d", 1)
	case 1:
		s = nondetString("raw", 3) + ".0.0"
	case 2:
		s = "::ffff:" + nondetString("a", 1) + ".2.3." + nondetString("d", 1)
	case 3:
		s = "::" + nondetString("h", 2)
	case 4:
		s = nondetString("h", 1) + "::" + nondetString("l", 1)
	case 5:
		s = "25" + nondetString("x", 1) + ".1.1.1"
	default:
		s = "::ffff:" + nondetString("h", 2) + ":1"
	}
	ip := ValidateFormat("v", s, FormatIP) == nil
	v4 := ValidateFormat("v", s, FormatIPv4) == nil
	v6 := ValidateFormat("v", s, FormatIPv6) == nil
	verifObserve("ip", ip)
	verifObserve("v4", v4)
	verifObserve("v6", v6)
	verifAssert("ip-is-v4-or-v6", ip == (v4 || v6))
	verifAssert("never-both-families", !(v4 && v6))
	verifAssert("ipv4-iff-dotted-quad", v4 == verifDottedQuad(s))
	verifAssert("ipv6-iff-ip-and-not-dotted-quad", v6 == (net.ParseIP(s) != nil && !verifDottedQuad(s)))
}

// VerifC17_PatternAgreesWithRegexp: ValidatePattern agrees with regexp
// matching whatever was validated before (cache state), for every value.
func VerifC17_PatternAgreesWithRegexp() {
	pats := []string{`^[a-z]+$`, `^a|b$`, `[0-9]{2}`, `^$`, `x`}
	// arbitrary earlier history: 0-2 previous calls with other patterns/values
	hist := nondetChoice("history", 3)
	for i := 0; i < hist; i++ {
		hp := pats[nondetChoice("hist-pattern", len(pats))]
		// earlier validations happen under the same context name as the checked one
		// (two endpoints may validate a field of the same name with different patterns)
		ValidatePattern("v", nondetStringUpTo("hist-value", 2), hp)
	}
	p := pats[nondetChoice("pattern", len(pats))]
	v := nondetStringUpTo("value", 3)
	got := ValidatePattern("v", v, p) == nil
	want := regexp.MustCompile(p).MatchString(v)
	verifObserve("got", got)
	verifAssert("pattern-agrees-with-regexp", got == want)
	// and again: the verdict does not change on a second call
	verifAssert("pattern-verdict-stable", (ValidatePattern("v", v, p) == nil) == got)
}

// VerifC17_PatternCacheDistinguishesPatterns: the verdict for a pattern is
// that pattern's verdict whatever other pattern was validated before. Both
// patterns are symbolic (^ + 6 alphanumeric bytes + $), so a cache that
// identified two different patterns (e.g. by a hash) is found by the solver.
func VerifC17_PatternCacheDistinguishesPatterns() {
	s1, s2 := nondetString("s1", 6), nondetString("s2", 6)
	alnum := func(s string) bool {
		for i := 0; i < len(s); i++ {
			c := s[i]
			if c < '0' || (c > '9' && c < 'a') || c > 'z' {
				return false
			}
		}
		return true
	}
	verifAssume(alnum(s1) && alnum(s2) && s1 != s2)
	p1, p2 := "^"+s1+"$", "^"+s2+"$"
	hname := "v"
	if nondetBool("earlier-call-under-another-name") {
		hname = "h"
	}
	ValidatePattern(hname, s1, p1)
	got := ValidatePattern("v", s2, p2) == nil
	want := regexp.MustCompile(p2).MatchString(s2)
	verifAssert("verdict-of-this-pattern-not-of-an-earlier-one", got == want)
}

// ---- format "json": ValidateFormat accepts exactly the JSON texts of RFC 8259 ----

// verifJSONText is a reference recogniser written from RFC 8259 section 2-7
// (ws value ws; objects, arrays, strings with escapes, numbers, literals).
type verifJSON struct {
	s string
	i int
}

func (p *verifJSON) ws() {
	for p.i < len(p.s) && (p.s[p.i] == ' ' || p.s[p.i] == '\t' || p.s[p.i] == '\n' || p.s[p.i] == '\r') {
		p.i++
	}
}

func (p *verifJSON) lit(l string) bool {
	if p.i+len(l) <= len(p.s) && p.s[p.i:p.i+len(l)] == l {
		p.i += len(l)
		return true
	}
	return false
}

func (p *verifJSON) digits() bool {
	n := 0
	for p.i < len(p.s) && p.s[p.i] >= '0' && p.s[p.i] <= '9' {
		p.i++
		n++
	}
	return n > 0
}

func (p *verifJSON) number() bool {
	if p.i < len(p.s) && p.s[p.i] == '-' {
		p.i++
	}
	if p.i >= len(p.s) {
		return false
	}
	if p.s[p.i] == '0' {
		p.i++
	} else if p.s[p.i] >= '1' && p.s[p.i] <= '9' {
		p.digits()
	} else {
		return false
	}
	if p.i < len(p.s) && p.s[p.i] == '.' {
		p.i++
		if !p.digits() {
			return false
		}
	}
	if p.i < len(p.s) && (p.s[p.i] == 'e' || p.s[p.i] == 'E') {
		p.i++
		if p.i < len(p.s) && (p.s[p.i] == '+' || p.s[p.i] == '-') {
			p.i++
		}
		if !p.digits() {
			return false
		}
	}
	return true
}

func (p *verifJSON) str() bool {
	p.i++ // opening quote
	for p.i < len(p.s) {
		c := p.s[p.i]
		switch {
		case c == '"':
			p.i++
			return true
		case c < 0x20:
			return false
		case c == '\\':
			p.i++
			if p.i >= len(p.s) {
				return false
			}
			switch p.s[p.i] {
			case '"', '\\', '/', 'b', 'f', 'n', 'r', 't':
				p.i++
			case 'u':
				p.i++
				for k := 0; k < 4; k++ {
					if p.i >= len(p.s) {
						return false
					}
					h := p.s[p.i]
					if !(h >= '0' && h <= '9' || h >= 'a' && h <= 'f' || h >= 'A' && h <= 'F') {
						return false
					}
					p.i++
				}
			default:
				return false
			}
		default:
			p.i++
		}
	}
	return false
}

func (p *verifJSON) value(depth int) bool {
	p.ws()
	if p.i >= len(p.s) || depth > 8 {
		return false
	}
	switch c := p.s[p.i]; {
	case c == '{':
		p.i++
		p.ws()
		if p.i < len(p.s) && p.s[p.i] == '}' {
			p.i++
			return true
		}
		for {
			p.ws()
			if p.i >= len(p.s) || p.s[p.i] != '"' || !p.str() {
				return false
			}
			p.ws()
			if p.i >= len(p.s) || p.s[p.i] != ':' {
				return false
			}
			p.i++
			if !p.value(depth + 1) {
				return false
			}
			p.ws()
			if p.i < len(p.s) && p.s[p.i] == ',' {
				p.i++
				continue
			}
			if p.i < len(p.s) && p.s[p.i] == '}' {
				p.i++
				return true
			}
			return false
		}
	case c == '[':
		p.i++
		p.ws()
		if p.i < len(p.s) && p.s[p.i] == ']' {
			p.i++
			return true
		}
		for {
			if !p.value(depth + 1) {
				return false
			}
			p.ws()
			if p.i < len(p.s) && p.s[p.i] == ',' {
				p.i++
				continue
			}
			if p.i < len(p.s) && p.s[p.i] == ']' {
				p.i++
				return true
			}
			return false
		}
	case c == '"':
		return p.str()
	case c == 't':
		return p.lit("true")
	case c == 'f':
		return p.lit("false")
	case c == 'n':
		return p.lit("null")
	default:
		return p.number()
	}
}

func verifJSONText(s string) bool {
	p := &verifJSON{s: s}
	if !p.value(0) {
		return false
	}
	p.ws()
	return p.i == len(s)
}

func verifJSONFormat(n int) {
	s := nondetStringUpTo("s", n)
	got := ValidateFormat("v", s, FormatJSON) == nil
	verifObserve("got", got)
	verifAssert("json-format-iff-rfc8259-text", got == verifJSONText(s))
}

func VerifC17_JSONFormat4()  { verifJSONFormat(4) }
func VerifC17T_JSONFormat6() { verifJSONFormat(6) }

// ---- format "regexp": the verdict is that of regexp.Compile, however often asked ----

func VerifC17_RegexpFormatStable() {
	pats := []string{"(", "[a", "a+", "^x$", "*", "a{2,1}", ""}
	for i, n := 0, nondetChoice("history", 3); i < n; i++ {
		ValidateFormat("h", pats[nondetChoice("hist-pattern", len(pats))], FormatRegexp)
	}
	p := pats[nondetChoice("pattern", len(pats))]
	got := ValidateFormat("v", p, FormatRegexp) == nil
	_, err := regexp.Compile(p)
	verifAssert("regexp-format-iff-it-compiles", got == (err == nil))
	verifAssert("regexp-format-verdict-stable", (ValidateFormat("v", p, FormatRegexp) == nil) == got)
}

// ---- format "uuid": goa's own rule on top of the parser is the RFC 4122 variant ----

func VerifC17_UUIDVariant() {
	isHex := func(c byte) bool { return c >= '0' && c <= '9' || c|0x20 >= 'a' && c|0x20 <= 'f' }
	x, v := nondetString("variant-digit", 1), nondetString("version-digit", 1)
	forms := []string{"%s", "{%s}", "urn:uuid:%s"}
	body := "6ba7b810-9dad-" + v + "1d1-" + x + "0b4-00c04fd430c8"
	var s string
	switch nondetChoice("spelling", len(forms)) {
	case 0:
		s = body
	case 1:
		s = "{" + body + "}"
	default:
		s = "urn:uuid:" + body
	}
	got := ValidateFormat("v", s, FormatUUID) == nil
	// RFC 4122 variant: the two most significant bits of octet 8 are 10
	rfc := x[0] == '8' || x[0] == '9' || x[0]|0x20 == 'a' || x[0]|0x20 == 'b'
	verifObserve("got", got)
	verifAssert("uuid-format-iff-hex-and-rfc4122-variant", got == (isHex(x[0]) && isHex(v[0]) && rfc))
}

// ---- format "mac": IEEE 802 MAC-48, EUI-48, EUI-64 and 20-octet InfiniBand addresses ----

func VerifC17_MACFormat() {
	isHex := func(c byte) bool { return c >= '0' && c <= '9' || c|0x20 >= 'a' && c|0x20 <= 'f' }
	groups := []int{5, 6, 7, 8, 9, 20}[nondetChoice("octets", 6)]
	x := nondetString("digit", 1)
	sep := ":"
	if nondetBool("dash") {
		sep = "-"
	}
	s := "0" + x
	for i := 1; i < groups; i++ {
		s += sep + "a1"
	}
	got := ValidateFormat("v", s, FormatMAC) == nil
	want := (groups == 6 || groups == 8 || groups == 20) && isHex(x[0])
	verifObserve("got", got)
	verifAssert("mac-format-iff-6-8-or-20-octets-of-hex", got == want)
	// dotted form: 3, 4 or 10 groups of four hex digits
	dg := []int{2, 3, 4, 5, 10}[nondetChoice("dot-groups", 5)]
	d := "00a" + x
	for i := 1; i < dg; i++ {
		d += ".0a1b"
	}
	gotDot := ValidateFormat("v", d, FormatMAC) == nil
	verifAssert("mac-format-dotted-iff-3-4-or-10-groups", gotDot == ((dg == 3 || dg == 4 || dg == 10) && isHex(x[0])))
}
