//go:build verif

package grpc

import (
	goapb "goa.design/goa/v3/grpc/pb"
	goa "goa.design/goa/v3/pkg"
	"google.golang.org/grpc/codes"
	"google.golang.org/grpc/status"
)

type verifPlain struct{ msg string }

func (e *verifPlain) Error() string { return e.msg }

type verifWrap struct {
	msg   string
	inner error
}

func (e *verifWrap) Error() string { return e.msg }
func (e *verifWrap) Unwrap() error { return e.inner }

// VerifC18_GRPCCodeTable: the flag -> gRPC code mapping is total and follows
// the table of EncodeError (temporary > timeout > fault > unknown), and an
// encoded service error decodes back with the same name, id, message, flags.
func VerifC18_GRPCCodeTable() {
	to, te, fa := nondetBool("timeout"), nondetBool("temporary"), nondetBool("fault")
	name, id, msg := nondetString("name", 2), nondetString("id", 2), nondetString("msg", 2)
	se := &goa.ServiceError{Name: name, ID: id, Message: msg, Timeout: to, Temporary: te, Fault: fa}
	statusCause := nondetBool("cause-is-a-grpc-status-error")
	if statusCause {
		// what a generated MakeXxx(err) produces around a downstream gRPC error
		se = goa.NewServiceError(status.Error(codes.NotFound, msg), name, to, te, fa)
		id = se.ID
		msg = se.Message // the service error's message is the cause's text
	}
	var in error = se
	if nondetBool("wrapped") {
		in = &verifWrap{msg: msg, inner: se}
	}
	err := EncodeError(in)
	verifAssert("encode-non-nil", err != nil)
	st, ok := status.FromError(err)
	verifAssert("is-status-error", ok && st != nil)
	if !ok || st == nil {
		return
	}
	want := codes.Unknown
	switch {
	case te:
		want = codes.Unavailable
	case to:
		want = codes.DeadlineExceeded
	case fa:
		want = codes.Internal
	}
	if statusCause {
		// an error that is or wraps a gRPC status keeps that status' code
		want = codes.NotFound
	}
	verifObserve("code", uint32(st.Code()))
	verifAssert("code-table", st.Code() == want)
	verifAssert("status-message", st.Message() == msg)
	m := DecodeError(err)
	resp, ok := m.(*goapb.ErrorResponse)
	verifAssert("details-carry-error-response", ok && resp != nil)
	if !ok || resp == nil {
		return
	}
	back := NewServiceError(resp)
	verifAssert("round-trip-name", back.Name == name)
	verifAssert("round-trip-id", back.ID == id)
	verifAssert("round-trip-message", back.Message == msg)
	verifAssert("round-trip-flags", back.Timeout == to && back.Temporary == te && back.Fault == fa)
}

// VerifC18_GRPCPlainError: a non-service error is encoded as Unknown with the
// fault characteristic set.
func VerifC18_GRPCPlainError() {
	msg := nondetString("msg", 2)
	err := EncodeError(&verifPlain{msg})
	st, ok := status.FromError(err)
	verifAssert("plain-is-status", ok && st != nil)
	if !ok || st == nil {
		return
	}
	verifAssert("plain-unknown", st.Code() == codes.Unknown)
	resp, ok := DecodeError(err).(*goapb.ErrorResponse)
	verifAssert("plain-details", ok && resp != nil)
	if ok && resp != nil {
		verifAssert("plain-fault", resp.Fault && !resp.Timeout && !resp.Temporary && resp.Msg == msg)
	}
}

// VerifC18_GRPCStatusPassThrough: an error that already is a gRPC status keeps
// its code.
func VerifC18_GRPCStatusPassThrough() {
	c := codes.Code(nondetUint32("code"))
	verifAssume(c != codes.OK && c <= codes.Unauthenticated)
	msg := nondetString("msg", 2)
	err := EncodeError(status.New(c, msg).Err())
	st, ok := status.FromError(err)
	verifAssert("passthrough-status", ok && st != nil && st.Code() == c && st.Message() == msg)
}
