#!/usr/bin/env python3
"""record_seed.py <seeded-dir-name> <check-prop> [check args...]
Runs seedtest.sh for the stored patch and writes check_run/detected_by/check_result into meta.json."""
import json, re, subprocess, sys
name, prop, rest = sys.argv[1], sys.argv[2], sys.argv[3:]
d = f"/verif/seeded/{name}"
cmd = ["/verif/seedtest.sh", prop, f"{d}/patch.diff"] + rest
out = subprocess.run(cmd, stdout=subprocess.PIPE, stderr=subprocess.STDOUT, text=True).stdout
det = []
for m in re.finditer(r"^\s+((?:Verif|design:|history:)[\w:]+) assert=(\S+)", out, re.M):
    s = f"{m.group(1)} {m.group(2)}"
    if s not in det:
        det.append(s)
for m in re.finditer(r"^\s+(generated-\S+|proto\S*) .*$", out, re.M):
    det.append(m.group(0).strip()[:200])
rc = re.search(r"seedtest exit=(\d+)", out)
rc = int(rc.group(1)) if rc else -1
meta = json.load(open(f"{d}/meta.json"))
prev = meta.get("detected_by")
meta["check_run"] = " ".join(cmd) + "   (git -C /repo apply; ./check; git -C /repo checkout -- .)"
meta["check_result"] = "VIOLATION (exit 1)" if rc == 1 and "VIOLATION property=" in out else f"not detected (exit {rc})"
meta["detected_by"] = "; ".join(det[:6]) if det else None
if prev and prev != meta["detected_by"]:
    meta.setdefault("also_detected_by", prev)
json.dump(meta, open(f"{d}/meta.json", "w"), indent=1)
print(name, meta["check_result"], meta["detected_by"])
