#!/usr/bin/env python3
"""Engine self-test run by setup_cmd: the binary exists and can decide a trivial harness."""
import json, os, subprocess, sys, tempfile, shutil
V = "/verif"
tmp = tempfile.mkdtemp(prefix="verif_selftest_")
try:
    ov = os.path.join(tmp, "ov"); os.makedirs(ov)
    pre = open(os.path.join(V, "harness/common/prelude_decl.go.tmpl")).read().replace("PKGNAME", "goa")
    open(os.path.join(ov, "zz_verif_decl.go"), "w").write(pre)
    open(os.path.join(ov, "zz_verif_self.go"), "w").write('''//go:build verif

package goa

func VerifSelf() {
	x := nondetInt("x")
	s := nondetString("s", 2)
	verifAssume(x > 3 && x < 10)
	verifAssert("holds", x*2 > 6)
	verifAssert("fails", !(x == 7 && s == "ok"))
}
''')
    out = os.path.join(tmp, "r.json")
    env = dict(os.environ, GOFLAGS="-mod=mod", GOPROXY="off", GOSUMDB="off", GOTOOLCHAIN="local")
    r = subprocess.run([V + "/bin/gosym", "-dir", os.environ.get("VERIF_REPO", "/repo"), "-pkg", "goa.design/goa/v3/pkg", "-pkgdir", os.path.join(os.environ.get("VERIF_REPO", "/repo"), "pkg"), "-overlay", ov, "-harness", "^VerifSelf$", "-out", out], env=env, capture_output=True, text=True)
    res = json.load(open(out))
    h = res["harnesses"][0]
    v = [x["assert"] for x in h["violations"] or []]
    assert h["complete"] and v == ["fails"], (h, r.stderr)
    m = h["violations"][0]["model"]
    assert m["x"]["v"] == 7 and m["s"]["bytes"] == [111, 107], m
    print("selftest ok")
finally:
    shutil.rmtree(tmp, ignore_errors=True)
