#!/bin/bash
# usage: confirm_batch5.sh C16-m1 ...   (round 5: /tmp/seed5-<prop>/<m> -> /verif/seeded/<prop>-r5<m>)
for x in "$@"; do p=${x%-*}; m=${x#*-}; /verif/confirm_seed.sh $p $m /tmp/seed5- r5; done
