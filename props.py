"""Per-property configuration of the solver-based checks."""

PROPS = {}

PROPS["C18"] = {
    "xcheck": r"Constructors|HTTPStatusTable|GRPC",
    "level": "model_checking",
    "jobs": [
        {"name": "pkg", "pkg": "goa.design/goa/v3/pkg", "pkgdir": "pkg", "pkgname": "goa", "harness_dir": "pkg",
         "files": ["zz_verif_c18.go"], "quick": r"^VerifC18_", "thorough": r"^VerifC18T?_"},
        {"name": "http", "pkg": "goa.design/goa/v3/http", "pkgdir": "http", "pkgname": "http", "harness_dir": "http",
         "files": ["zz_verif_c18.go"], "quick": r"^VerifC18_", "thorough": r"^VerifC18T?_"},
        {"name": "grpc", "pkg": "goa.design/goa/v3/grpc", "pkgdir": "grpc", "pkgname": "grpc", "harness_dir": "grpc",
         "files": ["zz_verif_c18.go"], "quick": r"^VerifC18_", "thorough": r"^VerifC18T?_"},
    ],
    "bounds": {"quick": {"errors_merged": 3, "groupings": 2, "operand_kinds": 5, "message_bytes": 1},
               "thorough": {"errors_merged": 4, "groupings": 5, "operand_kinds": 4, "message_bytes": 1}},
    "assumptions": ["goa.NewErrorID returns an arbitrary 8-byte string", "fmt.Sprintf(\"%s\", s) is s"],
    "outside": ["more than 4 merged errors", "messages longer than the bound (the code never inspects message bytes)",
                "anypb marshalling of gRPC status details (identity container)"],
    "manifest": {
        "text": "Bounded model checking of the real pkg.MergeErrors/History/Unwrap, http.NewErrorResponse/StatusCode and grpc.EncodeError/DecodeError/NewServiceError code: for every combination of operand kinds (service error with/without cause, plain error, wrapped error, nil), every flag vector, every name choice and symbolic messages, and every parenthesisation of 3 (quick) / 4 (thorough) operands, the solver shows the merge laws, history exactly-once, cause reachability and nil-neutrality; the HTTP status and gRPC code tables are decided for all 8 flag vectors x special name, and the gRPC encode/decode round trip for symbolic name/id/message. Within these bounds the result covers all values, which the table tests cannot.",
        "note": "Trusted: gosym executor and z3 4.8.12; stubs: goa.NewErrorID = arbitrary 8 bytes, grpc status details as identity container, fmt %s/%v as concatenation. Counterexamples are only reported after native replay (go test -overlay); sampled witnesses of passing paths are re-run natively on every run.",
    },
}

PROPS["C15"] = {
    "xcheck": r"TextRoundTrip|RequestEncoder",
    "level": "model_checking",
    "jobs": [
        {"name": "http", "pkg": "goa.design/goa/v3/http", "pkgdir": "http", "pkgname": "http", "harness_dir": "http",
         "files": ["zz_verif_c15.go"], "quick": r"^VerifC15_", "thorough": r"^VerifC15T?_",
         "shards": {r"AcceptNegotiation$|DesignedContentType$|RequestDecoder$": 9, r"More$": 8}},
    ],
    "bounds": {"quick": {"templates": 9, "symbolic_bytes_per_template": "2 (full byte range)", "preset_content_types": "6 families (incl. parameters with symbolic bytes) x 5 Accept values"}, "thorough": {"templates": "9 + 8 further families (lists, q-values, wildcards, parameters, suffixes, case)", "symbolic_bytes_per_template": "2-3 (full byte range)"}},
    "assumptions": ["the stdlib json/xml/gob encoders write what their decoders read (only the *kind* of encoder/decoder is compared for them; text encoders/decoders are executed)",
                    "mime.ParseMediaType (executed symbolically from its own SSA) is the reference for 'the media type of a header value'"],
    "outside": ["header values outside the 9 template families or with more symbolic bytes", "pre-set response Content-Type headers that are not well-formed media types",
                "multipart and websocket bodies"],
    "manifest": {
        "text": "Bounded model checking of the real http.ResponseEncoder/ResponseDecoder/RequestDecoder/RequestEncoder/SetContentType/text encoder+decoder with the real mime.ParseMediaType and strings code interpreted on symbolic bytes: for every Accept / designed Content-Type / request Content-Type drawn from 9 template families with 2 fully symbolic bytes (thorough: 8 further template families), the encoder kind equals the kind of decoder the library selects from the header the call left behind, equals the documented choice (reference model written from the doc comments), unparsable or unsupported values fall back to JSON resp. are refused with unsupported_media_type -> 415, and text bodies round-trip byte for byte.",
        "note": "Trusted: gosym executor, z3; encoding/json|xml|gob are compared by kind only. Branch feasibility on single bytes is pre-decided by exact 256-value domains (cross-checkable with -no-dom); every assertion is discharged by the SMT solver; counterexamples and sampled witnesses are replayed natively.",
    },
}

PROPS["C16"] = {
    "xcheck": r"Dispatch",
    "level": "model_checking",
    "jobs": [
        {"name": "http", "pkg": "goa.design/goa/v3/http", "pkgdir": "http", "pkgname": "http", "harness_dir": "http",
         "files": ["zz_verif_c15.go", "zz_verif_c16.go"], "quick": r"^VerifC16_", "thorough": r"^VerifC16T?_",
         "shards": {r"CaptureSingle": 5, r"CaptureMid": 2, r"CaptureTwo|CatchAll": 3}},
    ],
    "bounds": {"quick": {"pattern_shapes": ["/p/{x}", "/p/{x}/q", "/{x}/{y}", "/p/{*x}", "/{*x}", "3 routes sharing a prefix", "2 methods on one catch-all pattern", "mux.Use middleware reading pattern/variables before routing on /p/{x}, /p/{*x}, /p/{x}/f/{*y}", "unmatched requests (other prefix, extra segment, bare prefix) under 4 Accept headers"],
                         "value_templates": ["1 byte", "2 bytes", "'%'+2 bytes", "byte+'%'+byte+'F'"], "bytes": "full 0..255 range per symbolic byte"},
               "thorough": {"value_templates": "adds 3 fully symbolic bytes for /p/{x}"}},
    "assumptions": ["net/http hands the handler a URL parsed by url.ParseRequestURI from the request-target (harness does the same)",
                    "chi v5.1.0 as in the module cache, interpreted from its own SSA (InsertRoute, routeHTTP, findRoute); sync.Pool as a fresh allocation"],
    "outside": ["empty value for a single-segment wildcard (chi does not match it)", "values longer than the templates", "content of the 404 body beyond presence and negotiated content type", "mux.Use after the first Handle (chi refuses it)", "regexp routes"],
    "manifest": {
        "text": "Bounded model checking of the real goa muxer (Handle, Vars, unescape, ResolvePattern, resolveWildcard, ensureContext) on top of the real chi router and the real net/url escaping/parsing code, all interpreted from SSA: for every wildcard value drawn from templates with 1-2 (quick) / 3 (thorough) fully symbolic bytes, the URL built by substituting PathEscape(value) into each of 5 pattern shapes is parsed, routed to the handler of that pattern, Vars returns exactly the original value (including '/', '%', %XX look-alikes, '+', blanks, non-ASCII), ResolvePattern returns the registered pattern, and dispatch picks the right route among routes sharing a prefix or differing by method.",
        "note": "Trusted: gosym executor, z3, regexp on the concrete mount-time patterns (run natively). Branch feasibility on single bytes pre-decided by exact byte domains; all assertions discharged by the SMT solver; counterexamples and witnesses replayed natively against real net/http+chi.",
    },
}

PROPS["C19"] = {
    "xcheck": r"RequestID|Capture|TraceHTTP",
    "level": "model_checking",
    "jobs": [
        {"name": "httpmw", "pkg": "goa.design/goa/v3/http/middleware", "pkgdir": "http/middleware", "pkgname": "middleware", "harness_dir": "httpmw",
         "files": ["zz_verif_c19.go"], "quick": r"^VerifC19_", "thorough": r"^VerifC19T?_"},
        {"name": "grpcmw", "pkg": "goa.design/goa/v3/grpc/middleware", "pkgdir": "grpc/middleware", "pkgname": "middleware", "harness_dir": "grpcmw",
         "files": ["zz_verif_c19.go"], "quick": r"^VerifC19_", "thorough": r"^VerifC19T?_"},
    ],
    "bounds": {"quick": {"inbound_id_bytes": "0..4", "limit": "-1..6 (symbolic)", "sampling_percent": "0..100 (symbolic)", "chain_depth": "2-3", "capture_writes": "1-3 with arbitrary short counts", "discard": "paths of 1-4 ASCII bytes against one discard pattern, with/without inbound trace", "adaptive_sampler": "sample size 2-4, max rate 1..1000: requests of the first window"},
               "thorough": {"chain_depth": "2-4"}},
    "assumptions": ["fresh ids (crypto/rand + base64) are arbitrary 8-byte strings; math/rand.Intn(n) returns an arbitrary value in [0,n)",
                    "the gRPC wire delivers the client's outgoing metadata as the server's incoming metadata; the HTTP wire delivers the request headers"],
    "outside": ["adaptive sampler rate arithmetic after the first window (float division by wall-clock durations)", "a request id already present in the context",
                "log middleware and xray/canceler sub-packages"],
    "manifest": {
        "text": "Bounded model checking of the real request-id and trace middlewares (middleware.GenerateRequestID, options, http/middleware.RequestID, Trace, tracedDoer, ResponseCapture; grpc/middleware unary+stream request-id and trace interceptors, setTrace, withTrace, MetadataValue, WrappedServerStream) with the real context, net/http header and grpc metadata code interpreted: for every option combination, every inbound header/metadata value up to 4 bytes, every limit in -1..6 and every sampling percentage 0..100 with an arbitrary random draw, the solver shows the context request id is non-empty and equals the truncated inbound value exactly when trusted, inbound traces are kept with the caller's span as parent and a fresh span, chains of 2-3 (thorough 4) hops through traced clients (HTTP and gRPC, unary and stream, with or without hops forwarding their incoming metadata) share one trace with parent(n+1)=span(n), percentages 0 and 100 are exact, and ResponseCapture reports the status passed and the byte counts the inner writer actually returned for arbitrary short writes.",
        "note": "Trusted: gosym executor, z3; stubs: crypto/rand+base64 ids as arbitrary 8-byte strings, math/rand.Intn as arbitrary in-range value, sync primitives as no-ops (single invocation). Counterexamples and witnesses replayed natively.",
    },
}

PROPS["C17"] = {
    "xcheck": r"IPFamilies",
    "level": "model_checking",
    "jobs": [
        {"name": "pkg", "pkg": "goa.design/goa/v3/pkg", "pkgdir": "pkg", "pkgname": "goa", "harness_dir": "pkg",
         "files": ["zz_verif_c17.go"], "quick": r"^VerifC17_", "thorough": r"^VerifC17T?_", "shards": {"Hostname5": 6, "JSONFormat6": 7},
         "limits": {"thorough": {"max_paths": 2000000, "timeout": 3600}}},
    ],
    "bounds": {"quick": {"hostname_chars": "0..4 ASCII bytes", "ip_templates": 7, "pattern_values": "0..3 bytes x 5 patterns x 0-2 earlier calls", "pattern_cache": "two symbolic patterns ^ + 6 alphanumeric bytes + $", "json_text": "every byte string of 0..4 bytes against an RFC 8259 reference recogniser"},
               "thorough": {"hostname_chars": "0..5 ASCII bytes", "json_text": "0..6 bytes"}},
    "assumptions": ["regexp matching on symbolic text is an exact simulation of the regexp/syntax program (one rune per byte: exact for ASCII-only classes / ASCII input)",
                    "net.ParseIP is executed symbolically from its own SSA (netip.ParseAddr)"],
    "outside": ["exactness of time.Parse, mail.ParseAddress, uuid.Parse, net.ParseMAC/ParseCIDR, url.ParseRequestURI for their formats (stdlib parsers, not goa code; json.Valid is interpreted from its own SSA and compared with a reference recogniser)",
                "host names longer than the bound; JSON texts longer than the bound",
                "1-16 goroutines on the pattern cache (lock discipline is part of C20)"],
    "manifest": {
        "text": "Bounded model checking of goa's own logic in pkg.ValidateFormat/ValidatePattern: the two regular expressions goa wrote (hostname, ipv4) are evaluated exactly on symbolic strings (NFA simulation of Go's regexp/syntax program as an SMT term) and compared with reference grammars (strict RFC 1035/1123 labels; dotted quad) for every ASCII string up to 4 (5) bytes; ip/ipv4/ipv6 are run with the real net.ParseIP on 7 template families and must satisfy ip = ipv4 xor ipv6 and ipv4 <=> dotted quad; ValidatePattern must agree with regexp matching for every value up to 3 bytes after any history of 0-2 earlier calls. Partial: the stdlib/third-party parsers behind the other formats are not decided.",
        "note": "Trusted: gosym executor, z3, regexp/syntax compiler (used to obtain the program that is simulated). Two genuine defects of hostnameRegex are listed in known_findings.json (not repairable without editing an existing test).",
    },
}

PROPS["C11"] = {
    "xcheck": r"RootsOrder2|RootsSelf|LateRoot",
    "level": "model_checking",
    "jobs": [
        {"name": "eval", "pkg": "goa.design/goa/v3/eval", "pkgdir": "eval", "pkgname": "eval", "harness_dir": "eval",
         "files": ["zz_verif_c11.go"], "quick": r"^VerifC11_", "thorough": r"^VerifC11T?_", "shards": {"RootsOrder4": 12}},
        {"name": "expr", "pkg": "goa.design/goa/v3/expr", "pkgdir": "expr", "pkgname": "expr", "harness_dir": "expr",
         "files": ["zz_verif_c11.go"], "quick": r"^VerifC11_", "thorough": r"^VerifC11T?_"},
    ],
    "bounds": {"quick": {"roots": "2-3, every dependency matrix (self loops for 2), every registration order", "phases": "2 roots, 4 expressions (+1 registered late), every error-bit vector", "reported_errors": "3 expressions reporting through eval.ReportError from one shared or from distinct source lines, every failure vector", "builtin_roots": "expr.Root and expr.GeneratedResultTypes with 0-2 types generated so far, both registration orders"},
               "thorough": {"roots": "4 (all 4096 matrices x 24 orders)"}},
    "assumptions": ["Go map iteration inside Roots() runs in insertion order in the executor (the cycle check's verdict does not depend on it; not separately explored here)"],
    "outside": ["5-6 roots", "the text of error locations (runtime.Caller is answered from SSA positions in the executor, by the Go runtime in replays)"],
    "manifest": {
        "text": "Bounded model checking of the real eval.Context.Roots/sortDependencies, Register, RunDSL, runSet/prepareSet/validateSet/finalizeSet: for every dependency matrix over 2-3 (thorough 4) roots and every registration order the solver-driven exploration shows that Roots() returns every root exactly once with all transitive dependencies first iff the graph is acyclic and an error otherwise; on an event log of instrumented roots/expressions it shows the global phase barrier, execution of expressions added and roots registered during execution, that all errors of a phase are returned together and that nothing is finalized after an execution or validation error, for every vector of error bits. The inputs are bits, so each explored path is one class of graphs the code cannot distinguish (closer to exhaustive case analysis; stated as such).",
        "note": "Trusted: gosym executor, z3. Two genuine defects found by this check were repaired (see known_findings.json 'fixed').",
    },
}

PROPS["C13"] = {
    "xcheck": r"HashCyclic|HashMetaOrder",
    "level": "model_checking",
    "jobs": [
        {"name": "expr", "pkg": "goa.design/goa/v3/expr", "pkgdir": "expr", "pkgname": "expr", "harness_dir": "expr",
         "files": ["zz_verif_c13.go"], "quick": r"^VerifC13_", "thorough": r"^VerifC13T?_", "shards": {"HashIffEqual": 6, "DupIndependent": 4}},
    ],
    "bounds": {"quick": {"permutation": "3 attributes / 3 union values, all 6 orders, symbolic one-letter names", "iff": "pairs from 6 shape families (primitive, user type, array, map elem, map key, object) with symbolic field names/kinds/type names, all 8 flag vectors",
                         "cyclic": "self-recursive user type (direct and through an array)", "dup": "nested user types with validations/meta on attribute, array element, map key; optional self reference; 9 mutators x every attribute of the copy"}},
    "assumptions": ["map iteration order is explored as insertion vs reverse order (verifMapOrder); natively the replay repeats the call 64 times"],
    "outside": ["attribute names containing the delimiter characters of the hash format ('-', '/', ...): collisions such as {a:String,b:Int} vs {\"a/string-b\":Int} are known and not covered by the bound",
                "hash '<=' direction on cyclic graphs under ignoreNames (partial hash strings, DESIGN.md C13)", "depth > 3, more than 3 attributes",
                "leaf cells Dup shares by design (Values, *float64 bounds, meta value slices, Bases, References, UserExamples, DefaultValue)"],
    "manifest": {
        "text": "Bounded model checking of the real expr.Hash/hash*/sorted/Equal and Dup/DupAtt/dupper/ValidationExpr.Dup/MetaExpr.Dup/Object.Set..: permutation invariance for objects and unions with symbolic names under all 8 flag vectors, independence from map iteration order, Hash(A)=Hash(B) <=> reference structural equality (written from Hash's doc comment) on pairs of acyclic graphs from 6 shape families, termination/repeatability/equality on recursive types, and for Dup: equal dump, disjoint skeleton (attributes, objects, validations, user types) and original unchanged after any of 9 goa mutators is applied to any attribute of the copy.",
        "note": "Trusted: gosym executor, z3; sort.Slice modelled as insertion sort calling the real less closure. Two genuine defects found by this check were repaired (known_findings.json 'fixed').",
    },
}


# ---------------------------------------------------------------- family G
import os as _os, concurrent.futures as _cf


def g_prepare(P, tier, tmp, seed, infra):
    """Runs the real generator on every catalogue design of the property and returns the jobs."""
    import gdesign
    repo = _os.environ.get("VERIF_REPO", "/repo")
    designs = P["designs"](tier) if callable(P["designs"]) else P["designs"]
    jobs = []
    with _cf.ThreadPoolExecutor(max_workers=8) as ex:
        futs = {d: ex.submit(gdesign.generate, d, repo, tmp, P.get("protoc_dir")) for d in designs}
    P["_programs"] = 0
    P["_design_errors"] = {}
    for d in designs:
        moddir, err = futs[d].result()
        if err:
            P["_design_errors"][d] = err
            infra.append(f"design {d}: generator failed: {err[-600:]}")
            continue
        P["_programs"] += 1
        V = _os.path.dirname(_os.path.abspath(__file__))
        ddir = _os.path.join(V, "designs", d)
        tag = P.get("harness_tags", {}).get(d, P["harness_tag"])
        files = sorted(_os.path.join(ddir, f) for f in _os.listdir(ddir) if f.startswith("zz_h_" + tag) and f.endswith(".go"))
        if not files:
            continue
        shared = sorted(_os.path.join(ddir, f) for f in _os.listdir(ddir) if f.startswith("zz_s_") and f.endswith(".go"))
        # the OpenAPI 3 document the generator just wrote, as a Go constant for the harness package
        import json as _json
        docp = _os.path.join(moddir, "gen", "http", "openapi3.json")
        doc = open(docp).read() if _os.path.exists(docp) else "{}"
        _os.makedirs(_os.path.join(moddir, "_aux"), exist_ok=True)
        gfile = _os.path.join(moddir, "_aux", "zz_g_openapi.go")
        open(gfile, "w").write("//go:build verif\n\npackage vh\n\nconst openapiDoc = " + _json.dumps(doc) + "\n")
        shared.append(gfile)
        jobs.append({"name": "g_" + d, "moddir": moddir, "pkg": "vdesign/vh", "pkgdir": "vh", "pkgname": "vh", "harness_dir": "g",
                     "files": files, "support": ["zz_stubs.go"] + shared, "extra_decl": ["zz_decl_g.go"], "extra_replay": ["zz_replay_g.go"],
                     "quick": P["quick"], "thorough": P["thorough"], "shards": P.get("shards", {}), "race": P.get("race_g", False),
                     "assert_include": P.get("assert_include"), "assert_exclude": P.get("assert_exclude")})
    return jobs


PROPS["C04"] = {
    "level": "translation_validation",
    "prepare": g_prepare,
    "jobs": [],
    "designs": ["v1", "v2", "v3", "v4", "v5", "v6", "v7"],
    "harness_tag": "c04",
    "assert_exclude": r"^openapi:",
    "quick": r"^VerifC04_", "thorough": r"^VerifC04T?_",
    "bounds": {"designs": {"v1": "ints: body Int min/max required, Int64 enum; query Int min; path Int max; header Int32 min",
                           "v2": "floats: exclusive min+max, min, query Int/Float64 exclusive max, UInt max; strings: rune min/max length, enum, pattern, ipv4 format, header max length",
                           "v3": "array min/max length + element min, map length + key length + elem max, required nested user type, array of user types, map key pattern inside nested user type, query array min length",
                           "v4": "two body types sharing member names; required Int and ArrayOf(String) query parameters with a default; body made of one required+defaulted attribute, request without a body", "v6": "payload extending two bases whose required lists overlap; Reference restating required attributes, two Required calls; an inherited validated attribute re-declared with other validations by two payloads; Reference to a type with a required attribute plus an own Required of another name", "v7": "validating primitive aliases as array elements, map keys and values, query and path parameters, with and without attribute-level validations; inline object; required+default body attribute; user type validated only through primitive array elements; body = array of arrays of a user type validated only by Required; two methods validating a same-named body attribute with different patterns, served one after the other", "v5": "required cookie with min length after a validated query parameter; map and array of a user type with a required member; body default with minimum"},
               "values": "every numeric leaf a full-width symbolic integer/float; strings up to 4 symbolic bytes (valid UTF-8); parameter texts = decimal rendering of an arbitrary number | junk | absent; arrays up to 3 elements, maps up to 2 entries; body: JSON document | empty | malformed"},
    "assumptions": ["JSON decoding of the request body into the generated body struct follows encoding/json's documented struct mapping (absent/null -> nil pointer); modelled by the harness filling the body struct",
                    "strconv Format/Parse are inverse (exact in the executor through provenance, real text in native replays)",
                    "the router hands non-empty single-segment captures to the decoder (C16)"],
    "outside": ["designs outside the catalogue (the generator cannot be executed on a symbolic design)", "present-but-empty parameter texts", "XML/gob/form/multipart bodies, websocket streaming",
                "client-side validation of responses (C03 harnesses)", "text of error messages"],
    "manifest": {
        "text": "Translation validation of the code the real generator emits for each catalogue design: the generated server handler (NewXHandler, DecodeXRequest, ValidateX*, NewXPayload, goa's ErrorEncoder/NewErrorResponse/MergeErrors and validators, all interpreted from SSA) is run on a fully symbolic wire request and the solver decides, for all values within the bounds, that the service endpoint runs iff an oracle written from the design (not derived from goa) accepts the request, that a rejected request gets exactly one 400 response whose error name is one of the violated rules, and that an accepted payload carries the wire values. Over designs the claim is only 'every design of the catalogue'.",
        "note": "Trusted: gosym executor, z3, the hand-written oracle of each catalogue design. Regenerated from /repo on every run in a scratch module (replace goa => /repo). Six genuine divergences are listed in known_findings.json.",
    },
}

PROPS["C02"] = {
    "level": "translation_validation",
    "prepare": g_prepare,
    "jobs": [],
    "designs": ["a1", "a2", "a3", "a4", "a5", "a6", "a7"],
    "harness_tag": "c02",
    "quick": r"^VerifC02_", "thorough": r"^VerifC02T?_",
    "shards": {"a1_put": 4},
    "bounds": {'designs': {'a1': 'PUT /items/{id}/v/{ver}: 2 path, 4 query (one with default), 2 header, 1 cookie, 6 body attributes (string, int with default, float, array, nested user type, map)', 'a2': 'alias-typed optional/required query and header parameters', 'a3': 'map-typed query parameters, array query/header parameters, optional pointer primitives', 'a4': 'two base paths with the same wildcards (string, int) in a different order: every path constructor; absolute route with a trailing slash; relative route under a service base path', 'a5': 'array and map attributes with defaults (unset / explicitly empty / populated), GET and DELETE catch-all wildcards with different names on one pattern', 'a6': 'service-level path parameter, header and query parameter inherited by two methods that define the parameter differently; UInt/Float32/Bytes, nested arrays, UInt32 array in a header, defaulted Int array in the query', 'a7': 'primitive (String) payload; one method on two routes; Boolean header with default, required Float64 header, optional UInt header; bodies made of one attribute (string array, optional Bytes)'}, 'values': 'full-width symbolic numbers, strings of 1-2 arbitrary bytes (headers/cookies: visible ASCII), one attribute group varied at a time'},
    "assumptions": ['HTTP transports header/cookie/query values unchanged (identity containers); header strings are visible ASCII'],
    "outside": ["path values containing '/' and zero-valued defaulted parameters are known findings", 'strings longer than 2 bytes', 'designs outside the catalogue (the generator cannot be executed on a symbolic design)', 'XML/gob/form/multipart bodies, websocket streaming, file servers', 'present-but-empty parameter texts'],
    "manifest": {"text": 'Translation validation of generated client and server against each other: a symbolic payload is pushed through the generated client (BuildXRequest, EncodeXRequest, path functions, body constructors), over a wire model (request-target re-parsed by the real net/url, headers, cookies, JSON body by tag name) into the generated server mounted on the real goa muxer+chi, and the solver decides for all values within the bounds that the payload received by the service method equals the payload sent (defaults applied), attribute by attribute.', "note": 'Trusted: gosym executor, z3, the hand-written oracle of each catalogue design; transport seams modelled as identity containers (encoding/json by tag name - real encoding/json in native replays -, url.Values, cookies, Basic auth). The generator runs for real on every run in a scratch module (replace goa => /repo); counterexamples and sampled witnesses are replayed natively against the generated code.'},
}

PROPS["C03"] = {
    "level": "translation_validation",
    "prepare": g_prepare,
    "jobs": [],
    "designs": ["a1", "a2", "a3", "a5", "a6", "a7"],
    "harness_tag": "c03",
    "assert_exclude": r"^openapi:",
    "quick": r"^VerifC03_", "thorough": r"^VerifC03T?_",
    "bounds": {'designs': {'a1': 'result with body attributes (string, int with default, nested user type, array) and two header attributes', 'a2': 'three responses selected by tag value (200/202/201), IPv6-formatted attribute validated by the client', 'a3': 'array and optional primitives in response headers', 'a5': 'result array/map with defaults (unset / explicitly empty / populated); tagged response whose explicit body leaves the tag attribute out', 'a6': 'two success responses with their own headers (string array, UInt64), Float32/Bytes in the body; three response cookies (string required, string optional, integer optional)', 'a7': 'array-of-Int result, map-of-user-type result, response whose body is one map attribute with another attribute in a header'}, 'values': 'full-width symbolic numbers, strings up to 2 bytes'},
    "assumptions": ['HTTP transports header values unchanged; header strings are visible ASCII'],
    "outside": ['designs outside the catalogue (the generator cannot be executed on a symbolic design)', 'XML/gob/form/multipart bodies, websocket streaming, file servers', 'present-but-empty parameter texts'],
    "manifest": {"text": 'Translation validation of generated server encoder against generated client decoder: a symbolic result returned by the service is encoded by the generated server (status selection by tag, headers, body constructors), carried back over the wire model and decoded/validated by the generated client; the solver decides that status = designed status, exactly one response is written, header attributes travel in headers, and the client result equals the service result with defaults applied; a result violating a format is refused by the client.', "note": 'Trusted: gosym executor, z3, the hand-written oracle of each catalogue design; transport seams modelled as identity containers (encoding/json by tag name - real encoding/json in native replays -, url.Values, cookies, Basic auth). The generator runs for real on every run in a scratch module (replace goa => /repo); counterexamples and sampled witnesses are replayed natively against the generated code.'},
}

PROPS["C06"] = {
    "level": "translation_validation",
    "prepare": g_prepare,
    "jobs": [],
    "designs": ["s1", "s2", "s3"],
    "harness_tag": "c06",
    "quick": r"^VerifC06_", "thorough": r"^VerifC06T?_",
    "bounds": {'designs': {'s1': 'Basic, JWT (2 scopes), API key; service-level Basic; method with two alternative requirements basic | (jwt & api_key with required scope); method inheriting the service requirement; NoSecurity method; credentials in Authorization (Basic), custom header (token), query (key)', 's2': 'API-level API-key requirement inherited; service-level JWT with scopes; method-level OAuth2 (query); implicit Authorization with Body("name") and with an inline body; NoSecurity', 's3': 'JWT | OAuth2 alternatives whose credentials both arrive in Authorization, with and without scheme prefix; Security at API level (basic) and a stricter one at service level (basic+jwt with scope) inherited by a method'}, 'values': 'all 8 callback outcome vectors, credentials of 0-2 (token up to 5) symbolic bytes, presence of every credential'},
    "assumptions": ["Basic user ids contain no ':' (RFC 7617); header credentials are visible ASCII"],
    "outside": ['OAuth2 flows', 'API-level requirements', 'designs outside the catalogue (the generator cannot be executed on a symbolic design)', 'XML/gob/form/multipart bodies, websocket streaming, file servers', 'present-but-empty parameter texts'],
    "manifest": {"text": "Translation validation of the generated endpoint wrappers and credential plumbing: with recording authorization callbacks whose outcomes are symbolic, the solver decides that the service method runs iff the design's OR-of-ANDs requirement formula holds, that a refusal returns one of the callbacks' errors, that each callback receives the payload's credential for its scheme with the designed scopes, that a satisfied requirement had all its schemes consulted, that NoSecurity methods run without callbacks and inherited requirements apply; over HTTP, credentials written by the generated client are the ones the callbacks receive behind the generated server.", "note": 'Trusted: gosym executor, z3, the hand-written oracle of each catalogue design; transport seams modelled as identity containers (encoding/json by tag name - real encoding/json in native replays -, url.Values, cookies, Basic auth). The generator runs for real on every run in a scratch module (replace goa => /repo); counterexamples and sampled witnesses are replayed natively against the generated code.'},
}

PROPS["C05"] = {
    "level": "translation_validation",
    "prepare": g_prepare,
    "jobs": [],
    "designs": ["e1", "e2", "e3"],
    "harness_tag": "c05",
    "assert_exclude": r"^openapi:",
    "quick": r"^VerifC05_", "thorough": r"^VerifC05T?_",
    "bounds": {'designs': {'e1': 'service-level error, method errors of ErrorResult, a custom object type shared by two errors on one status (409), a primitive error type; 10 kinds of returned error incl. wrapped, undeclared with every flag vector, plain Go error, custom type with undeclared name; errors whose Timeout/Temporary/Fault flags are fixed in the design', 'e1+': 'undeclared service error wrapped by user code (kind 15)', 'e3': 'errors declared at API level, mapped at API level (410) and service level (409), re-declared by two methods in either order; custom error type with three attributes in response cookies (one renamed, one optional)', 'e2': 'two errors of one type on one status with different mappings (attribute in a header), two ErrorResult errors on one status (message in a header), status set with Code() inside the response function at method and service level'}},
    "assumptions": [],
    "outside": ['request-decoding failures (covered by C04 harnesses)', 'error headers / goa-attribute-* headers', 'designs outside the catalogue (the generator cannot be executed on a symbolic design)', 'XML/gob/form/multipart bodies, websocket streaming, file servers', 'present-but-empty parameter texts'],
    "manifest": {"text": "Translation validation of the generated error encoder and client error decoding together with goa's default ErrorEncoder/NewErrorResponse/StatusCode: for every kind of error the service can return the solver decides that exactly one response is written, the status is the designed one or follows the documented flag table, the goa-error header names the error, errors sharing a status are told apart, and the generated client returns an error of the designed Go type with the same name and attribute values.", "note": 'Trusted: gosym executor, z3, the hand-written oracle of each catalogue design; transport seams modelled as identity containers (encoding/json by tag name - real encoding/json in native replays -, url.Values, cookies, Basic auth). The generator runs for real on every run in a scratch module (replace goa => /repo); counterexamples and sampled witnesses are replayed natively against the generated code.'},
}

PROPS["C08"] = {
    "level": "translation_validation",
    "prepare": g_prepare,
    "jobs": [],
    "designs": ["w1", "w2", "w3"],
    "harness_tag": "c08",
    "assert_exclude": r"^openapi:",
    "quick": r"^VerifC08_", "thorough": r"^VerifC08T?_",
    "bounds": {'designs': {'w1': 'result type with views default/tiny, nested result type with per-view override, collection, method with the view fixed in the design', 'w2': 'nested attribute carrying a view at type level and a different per-view override; dynamic and fixed-view methods on one result type; collection declared with a DSL that defines no view', 'w3': 'view that omits the attribute a tagged response is selected by; nested result type without a chosen view whose type also defines the parent view; client validation of a fixed-view response (missing required attribute, pattern); result type below two array levels whose default view hides an attribute; two look-alike result types with different views in one parent'}, 'values': 'symbolic attribute values, view names default/tiny/empty, labels: every string up to 7 visible bytes that is not a defined view'},
    "assumptions": [],
    "outside": ['recursive result types (the generator emits duplicate types for them, C01)', 'designs outside the catalogue (the generator cannot be executed on a symbolic design)', 'XML/gob/form/multipart bodies, websocket streaming, file servers', 'present-but-empty parameter texts'],
    "manifest": {"text": 'Translation validation of generated view projection (NewViewedX, newXView*, server response bodies per view, goa-view header, client decode + views-package validation + NewX): the solver decides that the wire document (inspected through its JSON member names) carries exactly the attributes of the selected view, recursively with per-attribute overrides and for collections, that the view name accompanies the response, that the client rebuilds equal in-view attributes and leaves out-of-view attributes unset, that the empty name means default, and that every undefined view label is refused.', "note": 'Trusted: gosym executor, z3, the hand-written oracle of each catalogue design; transport seams modelled as identity containers (encoding/json by tag name - real encoding/json in native replays -, url.Values, cookies, Basic auth). The generator runs for real on every run in a scratch module (replace goa => /repo); counterexamples and sampled witnesses are replayed natively against the generated code.'},
}

PROPS["C20"] = {
    "level": "other",
    "jobs": [
        {"name": "pkg", "pkg": "goa.design/goa/v3/pkg", "pkgdir": "pkg", "pkgname": "goa", "harness_dir": "pkg",
         "files": ["zz_verif_c20.go"], "quick": r"^VerifC20_", "thorough": r"^VerifC20T?_", "race": True},
        {"name": "http", "pkg": "goa.design/goa/v3/http", "pkgdir": "http", "pkgname": "http", "harness_dir": "http",
         "files": ["zz_verif_c15.go", "zz_verif_c20.go"], "quick": r"^VerifC20_", "thorough": r"^VerifC20T?_", "race": True},
        {"name": "mw", "pkg": "goa.design/goa/v3/middleware", "pkgdir": "middleware", "pkgname": "middleware", "harness_dir": "mw",
         "files": ["zz_verif_c20.go"], "quick": r"^VerifC20_", "thorough": r"^VerifC20T?_", "race": True},
    ],
    "prepare": g_prepare,
    "designs": ["v1"],
    "harness_tag": "c20",
    "quick": r"^VerifC20_", "thorough": r"^VerifC20T?_",
    "race_g": True,
    "bounds": {"invocations": 2, "entry_points": ["pkg.ValidatePattern (cold and warm cache, same/different pattern)", "pkg.MergeErrors + validation error constructors", "http.ErrorEncoder closure (nil and custom formatter)",
                                                  "http.ResponseEncoder/ResponseDecoder", "mounted muxer: ServeHTTP/Vars/ResolvePattern from handlers and from a mux.Use middleware (before routing)", "pkg validation error constructors on one field name (sync.Map modelled)", "middleware samplers (fixed, adaptive with 1-3 window sizes and 0-2 earlier requests)", "http text decoder into []byte (pooled buffers)", "ResponseEncoder Accept negotiation under schedules with one preemption of the first request (after an earlier request)", "generated handler NewIntsHandler of design v1 (valid, invalid and failing requests mixed)"]},
    "assumptions": ["sync.Mutex/RWMutex/atomic follow the Go memory model; two accesses are ordered iff they hold a common mutex, at least one in write mode, or both are atomic",
                    "the two invocations are executed one after the other by the executor; conflicts are computed on the recorded accesses (loads, stores, map reads/writes of cells that existed before the invocations)"],
    "outside": ["the body of goa.NewErrorID (replaced by a fresh-id intrinsic; seed C20-r5m1, a shared scratch buffer there, is therefore missed)", "schedules with more than one preemption or more than two requests, 3-64 goroutines", "chi internals beyond the accesses the two invocations perform, net/http itself", "StreamCanceler, SkipResponseWriter, websocket (goroutines, channels: unsupported by the executor)",
                "designs other than v1 for the generated-handler entry"],
    "explanation": "Mostly not a schedule exploration (one harness explores schedules with a single preemption of the first invocation at its synchronisation operations): for each per-request entry point the executor runs two invocations with independent symbolic inputs from one constructed state, records every access to pre-existing memory with the locks held, and the check asserts (a) no pair of accesses of the two invocations conflicts without a common ordering mutex (a conflict is replayed natively with two goroutines under go test -race), and (b) each invocation's observable result is a function of its own inputs only (decided by the SMT solver for all input values).",
    "manifest": {
        "text": "Partial. Sharing analysis by symbolic execution of two invocations per entry point (runtime helpers and one generated handler): absence of unordered conflicting accesses to state shared between requests, and per-request isolation of results for all input values. A reported conflict is confirmed by the Go race detector on a native two-goroutine replay before it is reported. Schedules are explored only in the bounded form of one preemption of one of two invocations (verifInterleave); load is not.",
        "note": "Trusted: gosym executor (access recording, lock model), z3, the race detector for confirmation. One genuine race found by this check (ErrorEncoder) was repaired, see known_findings.json.",
        "technique": "bounded symbolic execution of two invocations from go/ssa with access/lockset recording; SMT decides the isolation assertions; conflicts replayed under go test -race",
    },
}

ALL_DESIGNS = ["v1", "v2", "v3", "v4", "v5", "v6", "v7", "d1", "a1", "a2", "a3", "a4", "a5", "e1", "e2", "e3", "s1", "s2", "s3", "w1", "w2", "w3", "p1", "c1", "c2", "c3", "c4", "c5", "c6", "c7", "c8", "c9", "c10", "c11", "c12", "d2", "a6", "a7"]

PROPS["C01"] = {
    "level": "other",
    "jobs": [
        {"name": "codegen", "pkg": "goa.design/goa/v3/codegen", "pkgdir": "codegen", "pkgname": "codegen", "harness_dir": "codegen",
         "files": ["zz_verif_c01.go"], "quick": r"^VerifC01_", "thorough": r"^VerifC01T?_"},
    ],
    "compile_designs": ALL_DESIGNS,
    "bounds": {"scope": "4 (Unique) / 4 (HashedUnique over 3 hashes) calls with names from {a,b,a2}+optional digit 1-3, optional suffix", "goify": "every ASCII name of 0..3 bytes, both case modes",
               "by_product": "all catalogue designs (len(ALL_DESIGNS), see catalogue_designs_generated in coverage) generated by the real generator and compiled with go build (concrete, not a solver result)"},
    "assumptions": [],
    "outside": ["everything template-level for designs outside the catalogue: the property quantifies over all designs and the generator (text/template, go/format, imports) cannot be executed symbolically",
                "the example generator's output (imports goa.design/clue, which is not in the offline module cache, so it cannot be type-checked here)", "non-ASCII attribute names"],
    "explanation": "Partial. Two kernels the property is anchored in are decided by symbolic execution + SMT: NameScope.Unique/HashedUnique never hand out one identifier twice (for every sequence of requests within the bound) and Goify returns a legal non-keyword identifier for every ASCII name up to 3 bytes. In addition, as a concrete by-product of the front end (not a solver result), every catalogue design is pushed through eval.RunDSL + generator.Generate and the generated gen/ packages are compiled; a design that is accepted but does not compile is a confirmed violation whose replay is the design itself.",
    "manifest": {
        "text": "Partial. Solver-decided: uniqueness of generated identifiers for every bounded request sequence to the name scope; Goify output is a legal, non-reserved identifier for every ASCII name up to 3 bytes. Concrete by-product: the 18 catalogue designs are generated by the real generator and the emitted packages compiled with the Go compiler. The universal claim over designs is not decided.",
        "note": "Trusted: gosym executor, z3, the Go compiler for the by-product. Three genuine defects are listed in known_findings.json (attribute names shadowing generated locals, duplicate body type for recursive views, Goify of names starting with a digit).",
        "technique": "bounded symbolic execution + SMT for the identifier kernels; concrete generate-and-compile of the catalogue designs as a by-product",
    },
}

PROPS["C09"] = {
    "level": "other",
    "jobs": [
        {"name": "codegen", "pkg": "goa.design/goa/v3/codegen", "pkgdir": "codegen", "pkgname": "codegen", "harness_dir": "codegen",
         "files": ["zz_verif_c09.go"], "extra_decl": ["zz_decl_c09.go"], "extra_replay": ["zz_replay_c09.go"], "quick": r"^VerifC09_", "thorough": r"^VerifC09T?_"},
        {"name": "openapi", "pkg": "goa.design/goa/v3/http/codegen/openapi", "pkgdir": "http/codegen/openapi", "pkgname": "openapi", "harness_dir": "openapi",
         "files": ["zz_verif_c09.go"], "quick": r"^VerifC09_", "thorough": r"^VerifC09T?_"},
        {"name": "expr", "pkg": "goa.design/goa/v3/expr", "pkgdir": "expr", "pkgname": "expr", "harness_dir": "exprpkg",
         "files": ["zz_verif_c09.go"], "quick": r"^VerifC09_", "thorough": r"^VerifC09T?_"},
    ],
    "history_designs": ["d1", "a1", "w1", "d2"],
    "bounds": {"kernels": ["codegen.AttributeTags (4 meta keys, 2 symbolic)", "openapi.TagsFromExpr (5 meta keys, 2 symbolic names)", "expr HostExpr/ServerExpr/APIExpr.Schemes (3 URIs from 5)", "expr MethodExpr.Finalize (4 service-level errors inherited, one optionally redefined)", "expr RouteExpr.Params (2-3 service base paths, 2 route wildcards)", "expr byFormat examples under an advancing clock (5 formats)", "codegen.File.Render SkipExist x exists (file system stubbed)"],
               "map_orders": "every iteration order of every map ranged over (symbolic permutation)",
               "by_product": "designs d1, a1, w1: gen;gen in one directory, 3 (quick) / 10 (thorough) further fresh processes, example;edit;example, gen after example - compared byte for byte (concrete)"},
    "assumptions": [],
    "outside": ["byte identity of whole generator runs for designs outside the three by-product designs (a concrete experiment, not decidable by a solver)", "range-over-map sites inside large graph-walking generator functions (e.g. openapi v3 responseFromExpr) - covered only by the by-product",
                "expr.Hash map-order independence is decided under C13"],
    "explanation": "Partial. Solver-decided: four generator leaf kernels return the same value under every iteration order of the maps they range over (Go's unspecified order is a symbolic permutation in the executor), and one Render step never opens an existing SkipExist file. Concrete by-product (not a solver result, stated as such): for three catalogue designs the real generator is run repeatedly (same directory, fresh processes, gen/example/edit/example/gen histories) and outputs are compared byte for byte; detection of order dependence there is probabilistic in the number of processes.",
    "manifest": {
        "text": "Partial. Symbolic map-iteration order: generator leaf kernels (struct tags, OpenAPI tags, scheme lists) are order-insensitive for every permutation; File.Render never writes an existing SkipExist file. Plus a concrete repeat-generation experiment on three designs (byte-identical output across processes and histories, example files preserved).",
        "note": "Trusted: gosym executor, z3; os.Stat/OpenFile stubbed for the Render step. The by-product is a concrete run, reported separately in the evidence.",
        "technique": "bounded symbolic execution with symbolic map-iteration permutations + SMT for kernels; concrete repeated generation as by-product",
    },
}

PROPS["C14"] = {
    "level": "translation_validation",
    "prepare": g_prepare,
    "jobs": [],
    "designs": ["v1", "v2", "v3", "v4", "v6", "v7", "w1", "w2", "w3", "e1", "e2", "e3", "a5"],
    "harness_tag": "c04",
    "harness_tags": {"w1": "c08", "w2": "c08", "w3": "c08", "e1": "c05", "e2": "c05", "e3": "c05", "a5": "c03"},
    "assert_include": r"^openapi:|^no-panic$",
    "quick": r"^VerifC04_v[123467]_(ints|nums|strs|colls|first|second|third|merge|restate|aliases|redeclared|inherited_required|grid|codes)$|^VerifC08_w1_(get|list_fixed)$|^VerifC08_w2|^VerifC08_w3_(dyn|nested_arrays|lookalike_types)$|^VerifC05_e[123]_|^VerifC03_a5_(coll_result|tagged_body)$",
    "thorough": r"^VerifC04_v[123467]_(ints|nums|strs|colls|first|second|third|merge|restate|aliases|redeclared|inherited_required|grid|codes)$|^VerifC08_w1_(get|list_fixed)$|^VerifC08_w2|^VerifC08_w3_(dyn|nested_arrays|lookalike_types)$|^VerifC05_e[123]_|^VerifC03_a5_(coll_result|tagged_body)$",
    "bounds": {"designs": {"v1": "ints (body, query, path, header)", "v2": "floats with exclusive bounds, UInt, strings with length/enum/pattern", "v3": "arrays, maps, nested user types, query array",
                           "v4": "two body types sharing member names, required query parameters (Int, ArrayOf(String)) with a default", "v6": "payload extending two bases with overlapping required lists; Reference restating required attributes",
                           "w1": "responses: result type under run-time and design-fixed views, collection", "w2": "responses: nested view override, collection declared with a DSL",
                           "e1": "responses: declared errors (ErrorResult, custom type, primitive) against the schema of their status code", "e2": "responses: errors sharing a status code, Code() inside the response function, error attributes in headers",
                           "a5": "responses: collections with defaults, tagged response with explicit body"},
               "values": "the symbolic wire requests of the C04 harnesses and the symbolic responses of the C03/C05/C08 harnesses (same harnesses, OpenAPI assertions only)"},
    "assumptions": ["the OpenAPI document is read as goa writes it: numeric exclusiveMinimum/exclusiveMaximum are taken with JSON-Schema draft-06 meaning (a 3.0.x validator such as kin-openapi refuses them; the native replay rewrites them to the boolean form first)",
                    "format: int32/int64 are range constraints, other formats are advisory and not compared", "NaN parameters, explicit JSON null and unknown extra members are outside the schema's value space"],
    "outside": ["response headers and cookies against their documented schemas (bodies and status codes only)", "undeclared errors (default 400/500 responses are not documented by goa)", "validity of the document itself (C07)", "designs outside the catalogue"],
    "manifest": {"text": "Translation validation between two artefacts the real generator emits for each catalogue design: the parameter and request-body schemas of gen/http/openapi3.json (parsed at check time, evaluated as an SMT predicate over the symbolic wire request by the executor's JSON-schema evaluator) and the generated server (run symbolically as in C04). The solver decides schema(request) <=> server accepts(request) for all values within the bounds, and, for the success and declared-error responses the generated server produces in the C03/C05/C08 harnesses, that the status code is documented and the response body conforms to the schema documented for it; natively every counterexample and witness is re-validated with kin-openapi against the generated server code.",
                 "note": 'Trusted: gosym executor and its JSON-schema evaluator (cross-checked natively by kin-openapi on every counterexample/witness), z3, the C04 wire model. Nine genuine divergences are listed in known_findings.json.'},
}

PROPS["C10"] = {
    "level": "translation_validation",
    "prepare": g_prepare,
    "jobs": [],
    "designs": ["p1", "p2"],
    "protoc_dir": "/verif/tools/fakeprotoc",
    "proto_errors_are_violations": True,
    "harness_tag": "c10",
    "quick": r"^VerifC10_", "thorough": r"^VerifC10T?_",
    "bounds": {"designs": {"p1": "unary method: string, optional sint32 (Minimum 1), sint64, bool, double, uint32, repeated string, nested message, map<string,sint32>, required metadata attribute, optional metadata attribute with Enum, UInt64 array in metadata; UInt64 scalar in metadata; explicit response message with required members (and a message lacking one); validated user types nested two levels deep in request and response (method move); goa's client invoker with 3 shapes of caller metadata; result with nested message",
                           "p2": "OneOf with alias-typed alternatives (proto text only)"},
               "values": "full-width symbolic numbers, strings up to 2 bytes, one attribute group at a time"},
    "assumptions": ["protoc, protoc-gen-go and protoc-gen-go-grpc are not installed: /verif/tools/fakeprotoc/protoc turns goa's .proto into stand-in Go message structs with protoc-gen-go's field naming and the service client/server interfaces; protobuf marshalling of a message is the identity on those structs",
                    "the gRPC wire delivers the client's outgoing metadata as the server's incoming metadata"],
    "outside": ["well-formedness of the proto text beyond what the stand-in parser checks (positive unique field numbers and names per message, parsable fields/rpcs)", "streaming rpcs, oneof conversion code, response headers/trailers (the generator emits uncompilable code for them, see C01 finding c5)", "designs outside the catalogue"],
    "manifest": {"text": "Partial. Translation validation of the generated gRPC conversion code on stand-in protobuf structs: a symbolic payload goes through the generated client encoder (message + metadata), the wire model, and the generated server handler (goa's UnaryHandler, DecodeXRequest, ValidateX, NewXPayload); the solver decides that user code runs iff the message satisfies the design (validation, required metadata) and that the payload received equals the payload sent, and likewise for results. By-product (concrete): the stand-in protoc refuses non-positive or duplicate field numbers/names in the emitted .proto.",
                 "note": "Trusted: gosym executor, z3, the stand-in protoc (not the real protobuf toolchain). One genuine divergence (Int travels as sint32) is listed in known_findings.json."},
}
