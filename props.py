"""Per-property configuration of the solver-based checks."""

PROPS = {}

PROPS["C18"] = {
    "level": "model_checking",
    "jobs": [
        {"name": "pkg", "pkg": "goa.design/goa/v3/pkg", "pkgdir": "pkg", "pkgname": "goa", "harness_dir": "pkg",
         "files": ["zz_verif_c18.go"], "quick": r"^VerifC18_", "thorough": r"^VerifC18T?_"},
        {"name": "http", "pkg": "goa.design/goa/v3/http", "pkgdir": "http", "pkgname": "http", "harness_dir": "http",
         "files": ["zz_verif_c18.go"], "quick": r"^VerifC18_", "thorough": r"^VerifC18T?_"},
        {"name": "grpc", "pkg": "goa.design/goa/v3/grpc", "pkgdir": "grpc", "pkgname": "grpc", "harness_dir": "grpc",
         "files": ["zz_verif_c18.go"], "quick": r"^VerifC18_", "thorough": r"^VerifC18T?_"},
    ],
    "bounds": {"quick": {"errors_merged": 3, "groupings": 2, "operand_kinds": 5, "message_bytes": 1},
               "thorough": {"errors_merged": 4, "groupings": 5, "operand_kinds": 4, "message_bytes": 1}},
    "assumptions": ["goa.NewErrorID returns an arbitrary 8-byte string", "fmt.Sprintf(\"%s\", s) is s"],
    "outside": ["more than 4 merged errors", "messages longer than the bound (the code never inspects message bytes)",
                "anypb marshalling of gRPC status details (identity container)"],
    "manifest": {
        "text": "Bounded model checking of the real pkg.MergeErrors/History/Unwrap, http.NewErrorResponse/StatusCode and grpc.EncodeError/DecodeError/NewServiceError code: for every combination of operand kinds (service error with/without cause, plain error, wrapped error, nil), every flag vector, every name choice and symbolic messages, and every parenthesisation of 3 (quick) / 4 (thorough) operands, the solver shows the merge laws, history exactly-once, cause reachability and nil-neutrality; the HTTP status and gRPC code tables are decided for all 8 flag vectors x special name, and the gRPC encode/decode round trip for symbolic name/id/message. Within these bounds the result covers all values, which the table tests cannot.",
        "note": "Trusted: gosym executor and z3 4.8.12; stubs: goa.NewErrorID = arbitrary 8 bytes, grpc status details as identity container, fmt %s/%v as concatenation. Counterexamples are only reported after native replay (go test -overlay); sampled witnesses of passing paths are re-run natively on every run.",
    },
}
