"""Per-property configuration of the solver-based checks."""

PROPS = {}

PROPS["C18"] = {
    "level": "model_checking",
    "jobs": [
        {"name": "pkg", "pkg": "goa.design/goa/v3/pkg", "pkgdir": "pkg", "pkgname": "goa", "harness_dir": "pkg",
         "files": ["zz_verif_c18.go"], "quick": r"^VerifC18_", "thorough": r"^VerifC18T?_"},
        {"name": "http", "pkg": "goa.design/goa/v3/http", "pkgdir": "http", "pkgname": "http", "harness_dir": "http",
         "files": ["zz_verif_c18.go"], "quick": r"^VerifC18_", "thorough": r"^VerifC18T?_"},
        {"name": "grpc", "pkg": "goa.design/goa/v3/grpc", "pkgdir": "grpc", "pkgname": "grpc", "harness_dir": "grpc",
         "files": ["zz_verif_c18.go"], "quick": r"^VerifC18_", "thorough": r"^VerifC18T?_"},
    ],
    "bounds": {"quick": {"errors_merged": 3, "groupings": 2, "operand_kinds": 5, "message_bytes": 1},
               "thorough": {"errors_merged": 4, "groupings": 5, "operand_kinds": 4, "message_bytes": 1}},
    "assumptions": ["goa.NewErrorID returns an arbitrary 8-byte string", "fmt.Sprintf(\"%s\", s) is s"],
    "outside": ["more than 4 merged errors", "messages longer than the bound (the code never inspects message bytes)"],
}
