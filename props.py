"""Per-property configuration of the solver-based checks."""

PROPS = {}

PROPS["C18"] = {
    "level": "model_checking",
    "jobs": [
        {"name": "pkg", "pkg": "goa.design/goa/v3/pkg", "pkgdir": "pkg", "pkgname": "goa", "harness_dir": "pkg",
         "files": ["zz_verif_c18.go"], "quick": r"^VerifC18_", "thorough": r"^VerifC18T?_"},
        {"name": "http", "pkg": "goa.design/goa/v3/http", "pkgdir": "http", "pkgname": "http", "harness_dir": "http",
         "files": ["zz_verif_c18.go"], "quick": r"^VerifC18_", "thorough": r"^VerifC18T?_"},
        {"name": "grpc", "pkg": "goa.design/goa/v3/grpc", "pkgdir": "grpc", "pkgname": "grpc", "harness_dir": "grpc",
         "files": ["zz_verif_c18.go"], "quick": r"^VerifC18_", "thorough": r"^VerifC18T?_"},
    ],
    "bounds": {"quick": {"errors_merged": 3, "groupings": 2, "operand_kinds": 5, "message_bytes": 1},
               "thorough": {"errors_merged": 4, "groupings": 5, "operand_kinds": 4, "message_bytes": 1}},
    "assumptions": ["goa.NewErrorID returns an arbitrary 8-byte string", "fmt.Sprintf(\"%s\", s) is s"],
    "outside": ["more than 4 merged errors", "messages longer than the bound (the code never inspects message bytes)",
                "anypb marshalling of gRPC status details (identity container)"],
    "manifest": {
        "text": "Bounded model checking of the real pkg.MergeErrors/History/Unwrap, http.NewErrorResponse/StatusCode and grpc.EncodeError/DecodeError/NewServiceError code: for every combination of operand kinds (service error with/without cause, plain error, wrapped error, nil), every flag vector, every name choice and symbolic messages, and every parenthesisation of 3 (quick) / 4 (thorough) operands, the solver shows the merge laws, history exactly-once, cause reachability and nil-neutrality; the HTTP status and gRPC code tables are decided for all 8 flag vectors x special name, and the gRPC encode/decode round trip for symbolic name/id/message. Within these bounds the result covers all values, which the table tests cannot.",
        "note": "Trusted: gosym executor and z3 4.8.12; stubs: goa.NewErrorID = arbitrary 8 bytes, grpc status details as identity container, fmt %s/%v as concatenation. Counterexamples are only reported after native replay (go test -overlay); sampled witnesses of passing paths are re-run natively on every run.",
    },
}

PROPS["C15"] = {
    "level": "model_checking",
    "jobs": [
        {"name": "http", "pkg": "goa.design/goa/v3/http", "pkgdir": "http", "pkgname": "http", "harness_dir": "http",
         "files": ["zz_verif_c15.go"], "quick": r"^VerifC15_", "thorough": r"^VerifC15T?_",
         "shards": {r"AcceptNegotiation|DesignedContentType|RequestDecoder": 9}},
    ],
    "bounds": {"quick": {"templates": 9, "symbolic_bytes_per_template": "2 (full byte range)"}, "thorough": {"templates": 9, "symbolic_bytes_per_template": "3 (full byte range)"}},
    "assumptions": ["the stdlib json/xml/gob encoders write what their decoders read (only the *kind* of encoder/decoder is compared for them; text encoders/decoders are executed)",
                    "mime.ParseMediaType (executed symbolically from its own SSA) is the reference for 'the media type of a header value'"],
    "outside": ["header values outside the 9 template families or with more symbolic bytes", "pre-set response Content-Type headers (SetContentType suffix logic) - not yet covered",
                "multipart and websocket bodies"],
    "manifest": {
        "text": "Bounded model checking of the real http.ResponseEncoder/ResponseDecoder/RequestDecoder/RequestEncoder/SetContentType/text encoder+decoder with the real mime.ParseMediaType and strings code interpreted on symbolic bytes: for every Accept / designed Content-Type / request Content-Type drawn from 9 template families with 2 (quick) or 3 (thorough) fully symbolic bytes, the encoder kind equals the kind of decoder the library selects from the header the call left behind, equals the documented choice (reference model written from the doc comments), unparsable or unsupported values fall back to JSON resp. are refused with unsupported_media_type -> 415, and text bodies round-trip byte for byte.",
        "note": "Trusted: gosym executor, z3; encoding/json|xml|gob are compared by kind only. Branch feasibility on single bytes is pre-decided by exact 256-value domains (cross-checkable with -no-dom); every assertion is discharged by the SMT solver; counterexamples and sampled witnesses are replayed natively.",
    },
}
