#!/bin/sh
# usage: run_all.sh [quick|thorough]  - runs every claimed check and prints one line each
tier=${1:-quick}
cd /verif
for p in $(python3 -c "import json;print(' '.join(c['property_id'] for c in json.load(open('MANIFEST.json'))['checks']))"); do
  s=$(date +%s)
  out=$(./check $p --tier $tier 2>&1); rc=$?
  echo "$p rc=$rc $(( $(date +%s) - s ))s $(echo "$out" | grep -c '^KNOWN-FINDING') known | $(echo "$out" | tail -1 | cut -c1-150)"
done
