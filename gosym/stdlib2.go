package main

// sort, context, time, rand, io and goa environment stubs.

import (
	"fmt"
	"go/types"
	"net/textproto"
	"net/url"

	"golang.org/x/tools/go/ssa"
)

func init() {
	// goa environment: error ids are random
	reg("goa.design/goa/v3/pkg.NewErrorID", func(ex *Exec, fr *frame, fn *ssa.Function, args []Value) Value {
		ex.stub("goa.NewErrorID: fresh unconstrained 8-byte id (crypto/rand)")
		return ex.freshEnvStr("errid", 8)
	})

	// sort.Slice / SliceStable: insertion sort calling the real less closure
	sortSlice := func(ex *Exec, fr *frame, fn *ssa.Function, args []Value) Value {
		iv := args[0].(Iface)
		s := iv.v.(Slice)
		less := args[1]
		n := len(s.a)
		for i := 1; i < n; i++ {
			for j := i; j > 0; j-- {
				r := ex.callValue(fr, less, []Value{i64(int64(j)), i64(int64(j - 1))}, nil).(*Term)
				if !ex.decide(r) {
					break
				}
				a, b := copyVal(s.a[j]), copyVal(s.a[j-1])
				ex.store(&s.a[j], b)
				ex.store(&s.a[j-1], a)
			}
		}
		return nil
	}
	reg("sort.Slice", sortSlice)
	reg("sort.SliceStable", sortSlice)
	sortIface := func(ex *Exec, fr *frame, fn *ssa.Function, args []Value) Value {
		data := args[0].(Iface)
		n := ex.concreteInt(ex.callMethod(fr, data, "Len").(*Term), "sort len")
		for i := 1; i < n; i++ {
			for j := i; j > 0; j-- {
				r := ex.callMethod(fr, data, "Less", i64(int64(j)), i64(int64(j-1))).(*Term)
				if !ex.decide(r) {
					break
				}
				ex.callMethod(fr, data, "Swap", i64(int64(j)), i64(int64(j-1)))
			}
		}
		return nil
	}
	reg("sort.Sort", sortIface)
	reg("sort.Stable", sortIface)
	sortStrings := func(ex *Exec, fr *frame, fn *ssa.Function, args []Value) Value {
		s := args[0].(Slice)
		n := len(s.a)
		for i := 1; i < n; i++ {
			for j := i; j > 0; j-- {
				if !ex.decide(strLess(s.a[j].(Str), s.a[j-1].(Str))) {
					break
				}
				a, b := s.a[j], s.a[j-1]
				ex.store(&s.a[j], b)
				ex.store(&s.a[j-1], a)
			}
		}
		return nil
	}
	reg("sort.Strings", sortStrings)
	reg("slices.Sort[[]string string]", sortStrings)
	reg("sort.Ints", func(ex *Exec, fr *frame, fn *ssa.Function, args []Value) Value {
		s := args[0].(Slice)
		n := len(s.a)
		for i := 1; i < n; i++ {
			for j := i; j > 0; j-- {
				if !ex.decide(mkCmp(OpSLT, s.a[j].(*Term), s.a[j-1].(*Term))) {
					break
				}
				a, b := s.a[j], s.a[j-1]
				ex.store(&s.a[j], b)
				ex.store(&s.a[j-1], a)
			}
		}
		return nil
	})

	// context.WithValue: build the valueCtx directly (skips reflectlite check)
	reg("context.WithValue", func(ex *Exec, fr *frame, fn *ssa.Function, args []Value) Value {
		parent := args[0].(Iface)
		if parent.t == nil {
			ex.goPanic("cannot create context from nil parent")
		}
		key := args[1].(Iface)
		if key.t == nil {
			ex.goPanic("nil key")
		}
		vc := fn.Pkg.Type("valueCtx")
		var v Value = Struct{parent, key, args[2]}
		return Iface{t: types.NewPointer(vc.Type()), v: &v}
	})

	// net/textproto canonical header keys: concrete keys natively
	reg("net/textproto.CanonicalMIMEHeaderKey", func(ex *Exec, fr *frame, fn *ssa.Function, args []Value) Value {
		s, ok := args[0].(Str).concrete()
		if !ok {
			ex.unsupported("CanonicalMIMEHeaderKey on symbolic key")
		}
		return mkStr(textproto.CanonicalMIMEHeaderKey(s))
	})
	reg("net/http.CanonicalHeaderKey", func(ex *Exec, fr *frame, fn *ssa.Function, args []Value) Value {
		s, ok := args[0].(Str).concrete()
		if !ok {
			ex.unsupported("CanonicalHeaderKey on symbolic key")
		}
		return mkStr(textproto.CanonicalMIMEHeaderKey(s))
	})

	// time: fresh non-decreasing instants
	reg("time.Now", func(ex *Exec, fr *frame, fn *ssa.Function, args []Value) Value {
		if ex.modes["concrete-clock"] {
			// harness asked for a concrete clock (one millisecond per reading):
			// the instants themselves are not the subject of the check
			n, _ := ex.pathState["clock"].(int64)
			n += 1000000
			ex.pathState["clock"] = n
			return Struct{mkBV(64, 0), i64(n), (*Value)(nil)}
		}
		ex.stub("time.Now: arbitrary non-decreasing instants")
		// time.Time{wall uint64, ext int64, loc *Location}; use ext as nanoseconds
		t := ex.freshEnvTerm("now", KBV, 64)
		if ex.x != nil {
			if prev, ok := ex.pathState["time.last"].(*Term); ok {
				ex.x.assume(mkCmp(OpSLE, prev, t))
			}
			ex.x.assume(mkCmp(OpSLE, i64(0), t))
			ex.x.assume(mkCmp(OpSLE, t, i64(1<<50)))
			ex.pathState["time.last"] = t
		}
		return Struct{mkBV(64, 0), t, (*Value)(nil)}
	})
	reg("time.Since", func(ex *Exec, fr *frame, fn *ssa.Function, args []Value) Value {
		if ex.modes["concrete-clock"] {
			n, _ := ex.pathState["clock"].(int64)
			n += 1000000
			ex.pathState["clock"] = n
			return mkBin(OpSub, i64(n), args[0].(Struct)[1].(*Term))
		}
		ex.stub("time.Since: difference to a fresh non-decreasing instant")
		t := ex.freshEnvTerm("now", KBV, 64)
		if ex.x != nil {
			if prev, ok := ex.pathState["time.last"].(*Term); ok {
				ex.x.assume(mkCmp(OpSLE, prev, t))
			}
			ex.x.assume(mkCmp(OpSLE, i64(0), t))
			ex.x.assume(mkCmp(OpSLE, t, i64(1<<50)))
			ex.pathState["time.last"] = t
		}
		start := args[0].(Struct)[1].(*Term)
		return mkBin(OpSub, t, start)
	})
	reg("(time.Time).Sub", func(ex *Exec, fr *frame, fn *ssa.Function, args []Value) Value {
		a := args[0].(Struct)[1].(*Term)
		b := args[1].(Struct)[1].(*Term)
		return mkBin(OpSub, a, b)
	})
	reg("(time.Duration).Seconds", func(ex *Exec, fr *frame, fn *ssa.Function, args []Value) Value {
		d := args[0].(*Term)
		return mkFBin(OpFDiv, mkI2F(d, true, 64), mkFP(64, 1e9))
	})

	// math/rand
	reg("math/rand.Intn", func(ex *Exec, fr *frame, fn *ssa.Function, args []Value) Value {
		ex.stub("math/rand.Intn: arbitrary value in [0,n)")
		n := args[0].(*Term)
		r := ex.freshEnvTerm("intn", KBV, 64)
		if ex.x != nil {
			ex.x.assume(mkAnd(mkCmp(OpSLE, i64(0), r), mkCmp(OpSLT, r, n)))
		}
		return r
	})
	reg("math/rand.Int63", func(ex *Exec, fr *frame, fn *ssa.Function, args []Value) Value {
		ex.stub("math/rand.Int63: arbitrary non-negative value")
		r := ex.freshEnvTerm("int63", KBV, 64)
		if ex.x != nil {
			ex.x.assume(mkCmp(OpSLE, i64(0), r))
		}
		return r
	})
	reg("math/rand.Int", func(ex *Exec, fr *frame, fn *ssa.Function, args []Value) Value {
		ex.stub("math/rand.Int: arbitrary non-negative value")
		r := ex.freshEnvTerm("randint", KBV, 64)
		if ex.x != nil {
			ex.x.assume(mkCmp(OpSLE, i64(0), r))
		}
		return r
	})
	reg("crypto/rand.Read", func(ex *Exec, fr *frame, fn *ssa.Function, args []Value) Value {
		ex.stub("crypto/rand.Read: arbitrary bytes")
		b := args[0].(Slice)
		s := ex.freshEnvStr("rand", len(b.a))
		for i := range b.a {
			ex.store(&b.a[i], s.b[i])
		}
		return Tuple{i64(int64(len(b.a))), Iface{}}
	})
	reg("io.ReadFull", func(ex *Exec, fr *frame, fn *ssa.Function, args []Value) Value {
		// used with crypto/rand.Reader
		ex.stub("io.ReadFull(rand.Reader): arbitrary bytes")
		b := args[1].(Slice)
		s := ex.freshEnvStr("rand", len(b.a))
		for i := range b.a {
			ex.store(&b.a[i], s.b[i])
		}
		return Tuple{i64(int64(len(b.a))), Iface{}}
	})
	reg("(*encoding/base64.Encoding).EncodeToString", func(ex *Exec, fr *frame, fn *ssa.Function, args []Value) Value {
		src := bytesOf(args[1])
		if c, ok := (Str{src}).concrete(); ok {
			_ = c
		}
		ex.stub("base64.EncodeToString: opaque text of the right length")
		n := (len(src) + 2) / 3 * 4
		return ex.freshEnvStr("b64", n)
	})
}

func init() {
	harnessExt["verifSetQuery"] = func(ex *Exec, fr *frame, fn *ssa.Function, args []Value) Value {
		u := args[0].(*Value)
		ex.pathState[fmt.Sprintf("query:%p", u)] = args[1]
		ex.stub("URL query: url.Values carried in a side table (escaping of the query string is net/url's job)")
		return nil
	}
	reg("(*net/url.URL).Query", func(ex *Exec, fr *frame, fn *ssa.Function, args []Value) Value {
		u := args[0].(*Value)
		if u == nil {
			ex.goPanic("nil *url.URL")
		}
		if v, ok := ex.pathState[fmt.Sprintf("query:%p", u)]; ok {
			src, _ := v.(*Map)
			m := newMap()
			if src != nil {
				for _, e := range src.live() {
					vals := e.v.(Slice)
					cp := make([]Value, len(vals.a))
					copy(cp, vals.a)
					ex.mapSet(m, e.k, Slice{cp})
				}
			}
			return m
		}
		copyMap := func(src *Map) *Map {
			m := newMap()
			for _, e := range src.live() {
				vals := e.v.(Slice)
				cp := make([]Value, len(vals.a))
				copy(cp, vals.a)
				ex.mapSet(m, e.k, Slice{cp})
			}
			return m
		}
		if src, ok := ex.queryFromToken((*u).(Struct)[8].(Str)); ok {
			return copyMap(src)
		}
		// no side table: RawQuery must be concrete
		raw, ok := (*u).(Struct)[8].(Str).concrete()
		if !ok {
			ex.unsupported("URL.Query on symbolic RawQuery")
		}
		vals, _ := url.ParseQuery(raw)
		m := newMap()
		for k, vs := range vals {
			a := make([]Value, len(vs))
			for i, x := range vs {
				a[i] = mkStr(x)
			}
			ex.mapSet(m, mkStr(k), Slice{a})
		}
		return m
	})
}

var _ = fmt.Sprintf

func init() {
	// runtime.Caller(skip): file and line of the active call site `skip` frames
	// up the interpreter stack, from the SSA positions. skip=0 is the caller of
	// runtime.Caller itself.
	reg("runtime.Caller", func(ex *Exec, fr *frame, fn *ssa.Function, args []Value) Value {
		skip := ex.concreteInt(args[0].(*Term), "runtime.Caller skip")
		f := fr
		for i := 0; i < skip && f != nil; i++ {
			f = f.caller
		}
		if f == nil || f.cur == nil || f.fn.Prog == nil {
			return Tuple{mkBV(64, 0), mkStr(""), i64(0), tFalse}
		}
		pos := f.fn.Prog.Fset.Position(f.cur.Pos())
		if !pos.IsValid() {
			return Tuple{mkBV(64, 0), mkStr("?"), i64(0), tTrue}
		}
		return Tuple{mkBV(64, 0), mkStr(pos.Filename), i64(int64(pos.Line)), tTrue}
	})
	reg("os.Getwd", func(ex *Exec, fr *frame, fn *ssa.Function, args []Value) Value {
		ex.stub("os.Getwd: fixed working directory /wd")
		return Tuple{mkStr("/wd"), Iface{}}
	})
}

// passThrough is returned by an intrinsic that only inspects the arguments and
// lets the executor interpret the function body.
type passThroughT struct{}

var passThrough = &passThroughT{}

func hasSymbolic(v Value) bool {
	switch x := v.(type) {
	case *Term:
		return !x.isConst()
	case Struct:
		for _, f := range x {
			if hasSymbolic(f) {
				return true
			}
		}
	case Str:
		_, ok := x.concrete()
		return !ok
	}
	return false
}

func init() {
	// calendar arithmetic and formatting of a *symbolic* instant is not
	// modelled (64-bit divisions by large constants stall every solver): the
	// path is given up as unsupported, which hands its inputs to the native
	// fallback; concrete instants are interpreted from the time package's SSA
	guardTime := func(ex *Exec, fr *frame, fn *ssa.Function, args []Value) Value {
		if hasSymbolic(args[0]) {
			ex.unsupported("%s on a symbolic instant", fn.Name())
		}
		return passThrough
	}
	for _, m := range []string{"Format", "AppendFormat", "String", "Date", "Clock", "Year", "Month", "Day", "Weekday", "YearDay", "MarshalJSON", "MarshalText"} {
		reg("(time.Time)."+m, guardTime)
	}
}
