package main

import (
	"fmt"
	"go/token"
	"go/types"

	"golang.org/x/tools/go/ssa"
)

func (ex *Exec) unop(fr *frame, instr *ssa.UnOp, x Value) Value {
	switch instr.Op {
	case token.MUL: // load
		if sp, ok := x.(*SymPtr); ok {
			v, _ := ex.symSelect(sp.arr, sp.idx)
			return v
		}
		p, ok := x.(*Value)
		if !ok {
			panic(engineError{fmt.Sprintf("load through %T in %s", x, fr.fn)})
		}
		return ex.load(p)
	case token.NOT:
		return mkNot(x.(*Term))
	case token.SUB:
		t := x.(*Term)
		if t.kind == KFP {
			return mkFNeg(t)
		}
		return mkNeg(t)
	case token.XOR:
		return mkBNot(x.(*Term))
	case token.ARROW:
		ex.unsupported("channel receive in %s", fr.fn)
	}
	panic(engineError{fmt.Sprintf("unsupported: unop %v", instr.Op)})
}

func (ex *Exec) binop(op token.Token, xt types.Type, x, y Value, yt types.Type) Value {
	switch op {
	case token.EQL:
		return ex.equalTerm(x, y)
	case token.NEQ:
		return mkNot(ex.equalTerm(x, y))
	}
	switch a := x.(type) {
	case Str:
		b := y.(Str)
		switch op {
		case token.ADD:
			nb := make([]*Term, 0, len(a.b)+len(b.b))
			nb = append(nb, a.b...)
			nb = append(nb, b.b...)
			return Str{nb}
		case token.LSS:
			return strLess(a, b)
		case token.GTR:
			return strLess(b, a)
		case token.LEQ:
			return mkNot(strLess(b, a))
		case token.GEQ:
			return mkNot(strLess(a, b))
		}
	case *Term:
		b := y.(*Term)
		if a.kind == KFP {
			switch op {
			case token.ADD:
				return mkFBin(OpFAdd, a, b)
			case token.SUB:
				return mkFBin(OpFSub, a, b)
			case token.MUL:
				return mkFBin(OpFMul, a, b)
			case token.QUO:
				return mkFBin(OpFDiv, a, b)
			case token.LSS:
				return mkFCmp(OpFLT, a, b)
			case token.LEQ:
				return mkFCmp(OpFLE, a, b)
			case token.GTR:
				return mkFCmp(OpFLT, b, a)
			case token.GEQ:
				return mkFCmp(OpFLE, b, a)
			}
			break
		}
		if a.kind == KBool {
			switch op {
			case token.AND, token.LAND:
				return mkAnd(a, b)
			case token.OR, token.LOR:
				return mkOr(a, b)
			}
			break
		}
		signed := isSigned(xt)
		switch op {
		case token.ADD:
			return mkBin(OpAdd, a, b)
		case token.SUB:
			return mkBin(OpSub, a, b)
		case token.MUL:
			return mkBin(OpMul, a, b)
		case token.QUO, token.REM:
			if b.isConst() {
				if b.c == 0 {
					ex.goPanic("runtime error: integer divide by zero")
				}
			} else if ex.decide(mkEq(b, mkBV(b.w, 0))) {
				ex.goPanic("runtime error: integer divide by zero")
			}
			if op == token.QUO {
				if signed {
					return mkBin(OpSDiv, a, b)
				}
				return mkBin(OpUDiv, a, b)
			}
			if signed {
				return mkBin(OpSRem, a, b)
			}
			return mkBin(OpURem, a, b)
		case token.AND:
			return mkBin(OpBAnd, a, b)
		case token.OR:
			return mkBin(OpBOr, a, b)
		case token.XOR:
			return mkBin(OpBXor, a, b)
		case token.AND_NOT:
			return mkBin(OpBAnd, a, mkBNot(b))
		case token.SHL, token.SHR:
			// shift count: unsigned semantics, saturating
			cnt := b
			if isSigned(yt) && !b.isConst() {
				// negative shift count panics
				if ex.decide(mkCmp(OpSLT, b, mkBV(b.w, 0))) {
					ex.goPanic("runtime error: negative shift amount")
				}
			}
			var c *Term
			if cnt.w == a.w {
				c = cnt
			} else if cnt.w < a.w {
				c = mkZExt(cnt, a.w)
			} else {
				big := mkCmp(OpULE, mkBV(cnt.w, uint64(a.w)), cnt)
				c = mkIte(big, mkBV(a.w, uint64(a.w)), mkExtract(cnt, a.w-1, 0))
			}
			if op == token.SHL {
				return mkBin(OpShl, a, c)
			}
			if signed {
				return mkBin(OpAShr, a, c)
			}
			return mkBin(OpLShr, a, c)
		case token.LSS:
			if signed {
				return mkCmp(OpSLT, a, b)
			}
			return mkCmp(OpULT, a, b)
		case token.LEQ:
			if signed {
				return mkCmp(OpSLE, a, b)
			}
			return mkCmp(OpULE, a, b)
		case token.GTR:
			if signed {
				return mkCmp(OpSLT, b, a)
			}
			return mkCmp(OpULT, b, a)
		case token.GEQ:
			if signed {
				return mkCmp(OpSLE, b, a)
			}
			return mkCmp(OpULE, b, a)
		}
	}
	panic(engineError{fmt.Sprintf("unsupported: binop %v on %T", op, x)})
}

func (ex *Exec) convert(from, to types.Type, x Value) Value {
	uf, ut := from.Underlying(), to.Underlying()
	// pointer / unsafe conversions: pass through
	if _, ok := ut.(*types.Pointer); ok {
		return x
	}
	if b, ok := ut.(*types.Basic); ok && b.Kind() == types.UnsafePointer {
		return x
	}
	switch v := x.(type) {
	case *Term:
		tb, ok := ut.(*types.Basic)
		if !ok {
			break
		}
		switch {
		case v.kind == KFP:
			switch {
			case tb.Info()&types.IsFloat != 0:
				return mkF2F(v, widthOf(tb))
			case tb.Info()&types.IsInteger != 0:
				return mkF2I(v, isSigned(tb), widthOf(tb))
			}
		case v.kind == KBV:
			switch {
			case tb.Info()&types.IsInteger != 0:
				w := widthOf(tb)
				if w <= v.w {
					return mkExtract(v, w-1, 0)
				}
				if isSigned(uf) {
					return mkSExt(v, w)
				}
				return mkZExt(v, w)
			case tb.Info()&types.IsFloat != 0:
				return mkI2F(v, isSigned(uf), widthOf(tb))
			case tb.Info()&types.IsString != 0:
				// string(rune)
				var r *Term
				if isSigned(uf) {
					r = mkSExt(v, 32)
				} else {
					r = mkZExt(v, 32)
				}
				if v.w > 32 {
					r = mkExtract(v, 31, 0)
				}
				return Str{ex.encodeRune(r)}
			}
		}
	case Str:
		if sl, ok := ut.(*types.Slice); ok {
			eb := sl.Elem().Underlying().(*types.Basic)
			if eb.Kind() == types.Uint8 {
				a := make([]Value, len(v.b))
				for i, t := range v.b {
					a[i] = t
				}
				return Slice{a}
			}
			if eb.Kind() == types.Int32 {
				var a []Value
				rest := v.b
				for len(rest) > 0 {
					r, n := ex.decodeRune(rest)
					a = append(a, r)
					rest = rest[n:]
				}
				if a == nil {
					a = []Value{}
				}
				return Slice{a}
			}
		}
		if isString(ut) {
			return v
		}
	case Slice:
		if isString(ut) {
			eb := uf.(*types.Slice).Elem().Underlying().(*types.Basic)
			if eb.Kind() == types.Uint8 {
				b := make([]*Term, len(v.a))
				for i, t := range v.a {
					b[i] = t.(*Term)
				}
				return Str{b}
			}
			if eb.Kind() == types.Int32 {
				var b []*Term
				for _, t := range v.a {
					b = append(b, ex.encodeRune(t.(*Term))...)
				}
				return Str{b}
			}
		}
		if _, ok := ut.(*types.Slice); ok {
			return v
		}
	case *Value:
		return v
	}
	panic(engineError{fmt.Sprintf("unsupported: conversion %v -> %v (%T)", from, to, x)})
}

func (ex *Exec) callBuiltin(fr *frame, b *ssa.Builtin, args []Value, cc *ssa.CallCommon) Value {
	switch b.Name() {
	case "append":
		if len(args) == 1 {
			return args[0]
		}
		dst := args[0].(Slice)
		var src []Value
		switch s := args[1].(type) {
		case Slice:
			src = s.a
		case Str:
			src = make([]Value, len(s.b))
			for i, t := range s.b {
				src[i] = t
			}
		}
		if len(src) == 0 {
			return dst
		}
		n := len(dst.a)
		if n+len(src) <= cap(dst.a) {
			// in-place growth: writes into shared backing array
			na := dst.a[:n+len(src)]
			for i, v := range src {
				ex.store(&na[n+i], v)
			}
			return Slice{na}
		}
		nc := (n + len(src)) * 2
		na := make([]Value, n+len(src), nc)
		for i := range dst.a {
			na[i] = copyVal(dst.a[i])
		}
		for i, v := range src {
			na[n+i] = copyVal(v)
		}
		if ex.hooks != nil && ex.hooks.onAlloc != nil {
			full := na[:cap(na)]
			for i := range full {
				ex.hooks.onAlloc(&full[i])
			}
		}
		return Slice{na}
	case "copy":
		dst := args[0].(Slice)
		var src []Value
		switch s := args[1].(type) {
		case Slice:
			src = s.a
		case Str:
			src = make([]Value, len(s.b))
			for i, t := range s.b {
				src[i] = t
			}
		}
		n := len(dst.a)
		if len(src) < n {
			n = len(src)
		}
		tmp := make([]Value, n)
		for i := 0; i < n; i++ {
			tmp[i] = copyVal(src[i])
		}
		for i := 0; i < n; i++ {
			ex.store(&dst.a[i], tmp[i])
		}
		return mkBV(64, uint64(n))
	case "len":
		switch x := args[0].(type) {
		case Str:
			return mkBV(64, uint64(len(x.b)))
		case Slice:
			return mkBV(64, uint64(len(x.a)))
		case *Map:
			if x == nil {
				return mkBV(64, 0)
			}
			if ex.hooks != nil && ex.hooks.onMapRead != nil {
				ex.hooks.onMapRead(x)
			}
			return mkBV(64, uint64(x.length()))
		case Array:
			return mkBV(64, uint64(len(x)))
		case *Value:
			if x == nil {
				// len of nil *array is the array length; use type
				if pt, ok := cc.Args[0].Type().Underlying().(*types.Pointer); ok {
					return mkBV(64, uint64(pt.Elem().Underlying().(*types.Array).Len()))
				}
			}
			return mkBV(64, uint64(len((*x).(Array))))
		case Native:
			return mkBV(64, 0)
		}
	case "cap":
		switch x := args[0].(type) {
		case Slice:
			return mkBV(64, uint64(cap(x.a)))
		case Array:
			return mkBV(64, uint64(len(x)))
		case *Value:
			return mkBV(64, uint64(len((*x).(Array))))
		}
	case "delete":
		ex.mapDel(args[0].(*Map), args[1])
		return nil
	case "print", "println":
		return nil
	case "recover":
		return ex.doRecover(fr)
	case "min", "max":
		res := args[0]
		for _, a := range args[1:] {
			var lt *Term
			switch x := res.(type) {
			case *Term:
				y := a.(*Term)
				if x.kind == KFP {
					lt = mkFCmp(OpFLT, y, x)
				} else if isSigned(cc.Args[0].Type()) {
					lt = mkCmp(OpSLT, y, x)
				} else {
					lt = mkCmp(OpULT, y, x)
				}
				if b.Name() == "max" {
					lt = mkNot(mkOr(lt, mkEq(x, y)))
					if x.kind == KFP {
						lt = mkFCmp(OpFLT, x, y)
					}
				}
				res = mkIte(lt, y, x)
			case Str:
				y := a.(Str)
				var c *Term
				if b.Name() == "min" {
					c = strLess(y, x)
				} else {
					c = strLess(x, y)
				}
				if ex.decide(c) {
					res = y
				}
			}
		}
		return res
	case "clear":
		switch x := args[0].(type) {
		case *Map:
			if x != nil {
				for _, e := range x.live() {
					ex.mapDel(x, e.k)
				}
			}
		case Slice:
			et := cc.Args[0].Type().Underlying().(*types.Slice).Elem()
			for i := range x.a {
				ex.store(&x.a[i], zero(et))
			}
		}
		return nil
	case "ssa:wrapnilchk":
		recv := args[0]
		if p, ok := recv.(*Value); ok && p == nil {
			ex.goPanic("value method called using nil pointer")
		}
		return recv
	}
	panic(engineError{fmt.Sprintf("unsupported: builtin %s on %T", b.Name(), args)})
}

func (ex *Exec) doRecover(fr *frame) Value {
	// recover() is called from a deferred function: the panicking frame is
	// the caller of the function containing the recover call.
	caller := fr.caller
	if caller != nil && caller.panicking {
		caller.panicking = false
		gp := caller.panicVal.(goPanicVal)
		caller.panicVal = nil
		if gp.v == nil {
			return Iface{}
		}
		if iv, ok := gp.v.(Iface); ok {
			return iv
		}
		return Iface{t: types.Typ[types.String], v: mkStr(gp.msg)}
	}
	return Iface{}
}
