package main

// Hash-consed SMT terms with eager constant folding.

import (
	"fmt"
	"math"
	"math/bits"
	"strconv"
	"strings"
)

type Op uint8

const (
	OpConst Op = iota
	OpVar
	OpNot
	OpAnd
	OpOr
	OpIte
	OpEq
	OpAdd
	OpSub
	OpMul
	OpUDiv
	OpSDiv
	OpURem
	OpSRem
	OpBAnd
	OpBOr
	OpBXor
	OpShl
	OpLShr
	OpAShr
	OpNeg
	OpBNot
	OpULT
	OpULE
	OpSLT
	OpSLE
	OpExtract // aux = hi<<8|lo
	OpZExt    // aux = extra bits
	OpSExt
	OpUF // name, args; result sort in w/kind
	// floating point (kind == KFP)
	OpFLT
	OpFLE
	OpFEQ
	OpFNeg
	OpFAdd
	OpFSub
	OpFMul
	OpFDiv
	OpFIsNaN
	OpS2F // signed bv -> fp (aux = target width)
	OpU2F
	OpF2S // fp -> signed bv (aux = target width), RTZ
	OpF2U
	OpF2F   // fp width conversion
	OpFBits // fp from bits (bv -> fp)
)

type Kind uint8

const (
	KBool Kind = iota
	KBV
	KFP
)

type Term struct {
	id   int
	op   Op
	kind Kind
	w    int // bit width for BV/FP
	args []*Term
	c    uint64 // constant payload (bool: 0/1; bv: value masked; fp: IEEE bits)
	name string
	aux  int
}

type termTable struct {
	tab  map[string]*Term
	next int
}

var tt = &termTable{tab: map[string]*Term{}}

func mask(w int) uint64 {
	if w >= 64 {
		return ^uint64(0)
	}
	return (uint64(1) << uint(w)) - 1
}

func (t *Term) key() string {
	var sb strings.Builder
	sb.WriteString(strconv.Itoa(int(t.op)))
	sb.WriteByte(':')
	sb.WriteString(strconv.Itoa(int(t.kind)))
	sb.WriteByte(':')
	sb.WriteString(strconv.Itoa(t.w))
	sb.WriteByte(':')
	sb.WriteString(strconv.FormatUint(t.c, 16))
	sb.WriteByte(':')
	sb.WriteString(strconv.Itoa(t.aux))
	sb.WriteByte(':')
	sb.WriteString(t.name)
	for _, a := range t.args {
		sb.WriteByte(',')
		sb.WriteString(strconv.Itoa(a.id))
	}
	return sb.String()
}

func intern(t *Term) *Term {
	k := t.key()
	if o, ok := tt.tab[k]; ok {
		return o
	}
	tt.next++
	t.id = tt.next
	tt.tab[k] = t
	return t
}

var (
	tTrue  = intern(&Term{op: OpConst, kind: KBool, c: 1})
	tFalse = intern(&Term{op: OpConst, kind: KBool, c: 0})
)

func mkBool(b bool) *Term {
	if b {
		return tTrue
	}
	return tFalse
}

func mkBV(w int, v uint64) *Term {
	return intern(&Term{op: OpConst, kind: KBV, w: w, c: v & mask(w)})
}

var byteConsts [256]*Term

func init() {
	for i := range byteConsts {
		byteConsts[i] = mkBV(8, uint64(i))
	}
}

func mkByte(b byte) *Term { return byteConsts[b] }

func mkFP(w int, f float64) *Term {
	if w == 32 {
		return intern(&Term{op: OpConst, kind: KFP, w: 32, c: uint64(math.Float32bits(float32(f)))})
	}
	return intern(&Term{op: OpConst, kind: KFP, w: 64, c: math.Float64bits(f)})
}

func mkVar(name string, kind Kind, w int) *Term {
	return intern(&Term{op: OpVar, kind: kind, w: w, name: name})
}

func (t *Term) isConst() bool { return t.op == OpConst }
func (t *Term) isTrue() bool  { return t == tTrue }
func (t *Term) isFalse() bool { return t == tFalse }

// signed value of a bv constant
func (t *Term) sval() int64 {
	if t.w >= 64 {
		return int64(t.c)
	}
	sh := uint(64 - t.w)
	return int64(t.c<<sh) >> sh
}

func (t *Term) fval() float64 {
	if t.w == 32 {
		return float64(math.Float32frombits(uint32(t.c)))
	}
	return math.Float64frombits(t.c)
}

func mkNot(a *Term) *Term {
	if a.kind != KBool {
		panic("mkNot: non-bool")
	}
	if a.isConst() {
		return mkBool(a.c == 0)
	}
	if a.op == OpNot {
		return a.args[0]
	}
	return intern(&Term{op: OpNot, kind: KBool, args: []*Term{a}})
}

func mkAnd(xs ...*Term) *Term {
	var out []*Term
	for _, x := range xs {
		if x.kind != KBool {
			panic("mkAnd: non-bool")
		}
		if x.isFalse() {
			return tFalse
		}
		if x.isTrue() {
			continue
		}
		if x.op == OpAnd {
			out = append(out, x.args...)
			continue
		}
		out = append(out, x)
	}
	out = dedup(out)
	for _, x := range out {
		if x.op == OpNot {
			for _, y := range out {
				if y == x.args[0] {
					return tFalse
				}
			}
		}
	}
	switch len(out) {
	case 0:
		return tTrue
	case 1:
		return out[0]
	}
	return intern(&Term{op: OpAnd, kind: KBool, args: out})
}

func dedup(xs []*Term) []*Term {
	if len(xs) < 2 {
		return xs
	}
	seen := map[int]bool{}
	out := xs[:0:0]
	for _, x := range xs {
		if !seen[x.id] {
			seen[x.id] = true
			out = append(out, x)
		}
	}
	return out
}

func mkOr(xs ...*Term) *Term {
	var out []*Term
	for _, x := range xs {
		if x.kind != KBool {
			panic("mkOr: non-bool")
		}
		if x.isTrue() {
			return tTrue
		}
		if x.isFalse() {
			continue
		}
		if x.op == OpOr {
			out = append(out, x.args...)
			continue
		}
		out = append(out, x)
	}
	out = dedup(out)
	for _, x := range out {
		if x.op == OpNot {
			for _, y := range out {
				if y == x.args[0] {
					return tTrue
				}
			}
		}
	}
	switch len(out) {
	case 0:
		return tFalse
	case 1:
		return out[0]
	}
	return intern(&Term{op: OpOr, kind: KBool, args: out})
}

func mkImplies(a, b *Term) *Term { return mkOr(mkNot(a), b) }
func mkIff(a, b *Term) *Term     { return mkEq(a, b) }

func mkIte(c, a, b *Term) *Term {
	if c.isTrue() {
		return a
	}
	if c.isFalse() {
		return b
	}
	if a == b {
		return a
	}
	if a.kind != b.kind || a.w != b.w {
		panic(fmt.Sprintf("mkIte: sort mismatch %v %v", a, b))
	}
	if a.kind == KBool {
		if a.isTrue() && b.isFalse() {
			return c
		}
		if a.isFalse() && b.isTrue() {
			return mkNot(c)
		}
		if a.isTrue() {
			return mkOr(c, b)
		}
		if a.isFalse() {
			return mkAnd(mkNot(c), b)
		}
		if b.isTrue() {
			return mkOr(mkNot(c), a)
		}
		if b.isFalse() {
			return mkAnd(c, a)
		}
	}
	return intern(&Term{op: OpIte, kind: a.kind, w: a.w, args: []*Term{c, a, b}})
}

func mkEq(a, b *Term) *Term {
	if a.kind != b.kind || a.w != b.w {
		panic(fmt.Sprintf("mkEq: sort mismatch %v(%d/%d) %v(%d/%d)", a, a.kind, a.w, b, b.kind, b.w))
	}
	if a.kind == KFP {
		panic("mkEq on FP: use mkFCmp")
	}
	if a == b {
		return tTrue
	}
	if a.isConst() && b.isConst() {
		return mkBool(a.c == b.c)
	}
	if a.kind == KBool {
		if a.isConst() {
			a, b = b, a
		}
		if b.isTrue() {
			return a
		}
		if b.isFalse() {
			return mkNot(a)
		}
	}
	// ite(c, k1, k2) == k  with constants folds
	if b.isConst() && a.op == OpIte && a.args[1].isConst() && a.args[2].isConst() {
		return mkIte(a.args[0], mkEq(a.args[1], b), mkEq(a.args[2], b))
	}
	if a.isConst() && b.op == OpIte && b.args[1].isConst() && b.args[2].isConst() {
		return mkIte(b.args[0], mkEq(b.args[1], a), mkEq(b.args[2], a))
	}
	if a.id > b.id {
		a, b = b, a
	}
	return intern(&Term{op: OpEq, kind: KBool, args: []*Term{a, b}})
}

func mkBin(op Op, a, b *Term) *Term {
	if a.kind != KBV || b.kind != KBV || a.w != b.w {
		panic(fmt.Sprintf("mkBin %d: sort mismatch %v %v", op, a, b))
	}
	w := a.w
	if a.isConst() && b.isConst() {
		x, y := a.c, b.c
		m := mask(w)
		switch op {
		case OpAdd:
			return mkBV(w, x+y)
		case OpSub:
			return mkBV(w, x-y)
		case OpMul:
			return mkBV(w, x*y)
		case OpUDiv:
			if y == 0 {
				return mkBV(w, m)
			}
			return mkBV(w, x/y)
		case OpURem:
			if y == 0 {
				return mkBV(w, x)
			}
			return mkBV(w, x%y)
		case OpSDiv:
			sx, sy := a.sval(), b.sval()
			if sy == 0 {
				if sx < 0 {
					return mkBV(w, 1)
				}
				return mkBV(w, m)
			}
			if sy == -1 {
				return mkBV(w, uint64(-sx))
			}
			return mkBV(w, uint64(sx/sy))
		case OpSRem:
			sx, sy := a.sval(), b.sval()
			if sy == 0 {
				return mkBV(w, uint64(sx))
			}
			if sy == -1 {
				return mkBV(w, 0)
			}
			return mkBV(w, uint64(sx%sy))
		case OpBAnd:
			return mkBV(w, x&y)
		case OpBOr:
			return mkBV(w, x|y)
		case OpBXor:
			return mkBV(w, x^y)
		case OpShl:
			if y >= uint64(w) {
				return mkBV(w, 0)
			}
			return mkBV(w, x<<y)
		case OpLShr:
			if y >= uint64(w) {
				return mkBV(w, 0)
			}
			return mkBV(w, x>>y)
		case OpAShr:
			sx := a.sval()
			if y >= uint64(w) {
				y = uint64(w - 1)
			}
			return mkBV(w, uint64(sx>>y))
		}
	}
	// cheap identities
	switch op {
	case OpAdd:
		if a.isConst() && a.c == 0 {
			return b
		}
		if b.isConst() && b.c == 0 {
			return a
		}
	case OpSub:
		if b.isConst() && b.c == 0 {
			return a
		}
		if a == b {
			return mkBV(w, 0)
		}
	case OpMul:
		if a.isConst() && a.c == 1 {
			return b
		}
		if b.isConst() && b.c == 1 {
			return a
		}
		if (a.isConst() && a.c == 0) || (b.isConst() && b.c == 0) {
			return mkBV(w, 0)
		}
	case OpBAnd:
		if a == b {
			return a
		}
		if (a.isConst() && a.c == 0) || (b.isConst() && b.c == 0) {
			return mkBV(w, 0)
		}
		if a.isConst() && a.c == mask(w) {
			return b
		}
		if b.isConst() && b.c == mask(w) {
			return a
		}
	case OpBOr:
		if a == b {
			return a
		}
		if a.isConst() && a.c == 0 {
			return b
		}
		if b.isConst() && b.c == 0 {
			return a
		}
	case OpBXor:
		if a == b {
			return mkBV(w, 0)
		}
	case OpShl, OpLShr, OpAShr:
		if b.isConst() && b.c == 0 {
			return a
		}
	}
	return intern(&Term{op: op, kind: KBV, w: w, args: []*Term{a, b}})
}

func mkNeg(a *Term) *Term {
	if a.isConst() {
		return mkBV(a.w, -a.c)
	}
	return intern(&Term{op: OpNeg, kind: KBV, w: a.w, args: []*Term{a}})
}

func mkBNot(a *Term) *Term {
	if a.isConst() {
		return mkBV(a.w, ^a.c)
	}
	return intern(&Term{op: OpBNot, kind: KBV, w: a.w, args: []*Term{a}})
}

func mkCmp(op Op, a, b *Term) *Term {
	if a.kind != KBV || b.kind != KBV || a.w != b.w {
		panic(fmt.Sprintf("mkCmp: sort mismatch %v %v", a, b))
	}
	if a.isConst() && b.isConst() {
		switch op {
		case OpULT:
			return mkBool(a.c < b.c)
		case OpULE:
			return mkBool(a.c <= b.c)
		case OpSLT:
			return mkBool(a.sval() < b.sval())
		case OpSLE:
			return mkBool(a.sval() <= b.sval())
		}
	}
	if a == b {
		return mkBool(op == OpULE || op == OpSLE)
	}
	// comparisons against zero-extended bytes are very common: fold obvious cases
	if op == OpULT && b.isConst() && b.c == 0 {
		return tFalse
	}
	if op == OpULE && a.isConst() && a.c == 0 {
		return tTrue
	}
	if a.op == OpZExt && b.isConst() {
		iw := a.args[0].w
		if b.c > mask(iw) {
			switch op {
			case OpULT, OpULE:
				return tTrue
			case OpSLT, OpSLE:
				if b.sval() >= 0 {
					return tTrue
				}
				return tFalse
			}
		} else {
			return mkCmp(unsignedOp(op), a.args[0], mkBV(iw, b.c))
		}
	}
	if b.op == OpZExt && a.isConst() {
		iw := b.args[0].w
		if a.c > mask(iw) {
			switch op {
			case OpULT, OpULE:
				return tFalse
			case OpSLT, OpSLE:
				if a.sval() >= 0 {
					return tFalse
				}
				return tTrue
			}
		} else {
			return mkCmp(unsignedOp(op), mkBV(iw, a.c), b.args[0])
		}
	}
	return intern(&Term{op: op, kind: KBool, args: []*Term{a, b}})
}

func unsignedOp(op Op) Op {
	switch op {
	case OpSLT:
		return OpULT
	case OpSLE:
		return OpULE
	}
	return op
}

func mkExtract(a *Term, hi, lo int) *Term {
	if a.kind != KBV {
		panic("extract non-bv")
	}
	if lo == 0 && hi == a.w-1 {
		return a
	}
	if a.isConst() {
		return mkBV(hi-lo+1, a.c>>uint(lo))
	}
	if (a.op == OpZExt || a.op == OpSExt) && hi < a.args[0].w {
		return mkExtract(a.args[0], hi, lo)
	}
	return intern(&Term{op: OpExtract, kind: KBV, w: hi - lo + 1, args: []*Term{a}, aux: hi<<8 | lo})
}

func mkZExt(a *Term, to int) *Term {
	if a.w == to {
		return a
	}
	if a.w > to {
		return mkExtract(a, to-1, 0)
	}
	if a.isConst() {
		return mkBV(to, a.c)
	}
	if a.op == OpZExt {
		return mkZExt(a.args[0], to)
	}
	return intern(&Term{op: OpZExt, kind: KBV, w: to, args: []*Term{a}, aux: to - a.w})
}

func mkSExt(a *Term, to int) *Term {
	if a.w == to {
		return a
	}
	if a.w > to {
		return mkExtract(a, to-1, 0)
	}
	if a.isConst() {
		return mkBV(to, uint64(a.sval()))
	}
	return intern(&Term{op: OpSExt, kind: KBV, w: to, args: []*Term{a}, aux: to - a.w})
}

// mkUF builds an uninterpreted function application. The function symbol is
// identified by name plus the argument sorts.
func mkUF(name string, kind Kind, w int, args ...*Term) *Term {
	return intern(&Term{op: OpUF, kind: kind, w: w, name: name, args: args})
}

func mkFCmp(op Op, a, b *Term) *Term {
	if a.kind != KFP || b.kind != KFP || a.w != b.w {
		panic("mkFCmp: sort mismatch")
	}
	if a.isConst() && b.isConst() {
		x, y := a.fval(), b.fval()
		switch op {
		case OpFLT:
			return mkBool(x < y)
		case OpFLE:
			return mkBool(x <= y)
		case OpFEQ:
			return mkBool(x == y)
		}
	}
	return intern(&Term{op: op, kind: KBool, args: []*Term{a, b}})
}

func mkFBin(op Op, a, b *Term) *Term {
	if a.isConst() && b.isConst() && a.w == 64 {
		x, y := a.fval(), b.fval()
		switch op {
		case OpFAdd:
			return mkFP(64, x+y)
		case OpFSub:
			return mkFP(64, x-y)
		case OpFMul:
			return mkFP(64, x*y)
		case OpFDiv:
			return mkFP(64, x/y)
		}
	}
	return intern(&Term{op: op, kind: KFP, w: a.w, args: []*Term{a, b}})
}

func mkFNeg(a *Term) *Term {
	if a.isConst() {
		return mkFP(a.w, -a.fval())
	}
	return intern(&Term{op: OpFNeg, kind: KFP, w: a.w, args: []*Term{a}})
}

func mkFIsNaN(a *Term) *Term {
	if a.isConst() {
		return mkBool(math.IsNaN(a.fval()))
	}
	return intern(&Term{op: OpFIsNaN, kind: KBool, args: []*Term{a}})
}

func mkI2F(a *Term, signed bool, to int) *Term {
	if a.isConst() {
		if signed {
			return mkFP(to, float64(a.sval()))
		}
		return mkFP(to, float64(a.c))
	}
	op := OpU2F
	if signed {
		op = OpS2F
	}
	return intern(&Term{op: op, kind: KFP, w: to, args: []*Term{a}, aux: to})
}

func mkF2I(a *Term, signed bool, to int) *Term {
	if a.isConst() {
		f := a.fval()
		if !math.IsNaN(f) && !math.IsInf(f, 0) && math.Abs(f) < 9e18 {
			if signed {
				return mkBV(to, uint64(int64(f)))
			}
			if f >= 0 {
				return mkBV(to, uint64(f))
			}
		}
	}
	op := OpF2U
	if signed {
		op = OpF2S
	}
	return intern(&Term{op: op, kind: KBV, w: to, args: []*Term{a}, aux: to})
}

func mkF2F(a *Term, to int) *Term {
	if a.w == to {
		return a
	}
	if a.isConst() {
		return mkFP(to, a.fval())
	}
	return intern(&Term{op: OpF2F, kind: KFP, w: to, args: []*Term{a}, aux: to})
}

// ---- printing ----

func sortStr(kind Kind, w int) string {
	switch kind {
	case KBool:
		return "Bool"
	case KBV:
		return fmt.Sprintf("(_ BitVec %d)", w)
	default:
		if w == 32 {
			return "(_ FloatingPoint 8 24)"
		}
		return "(_ FloatingPoint 11 53)"
	}
}

func (t *Term) sortStr() string { return sortStr(t.kind, t.w) }

func smtSym(name string) string {
	return "|" + strings.NewReplacer("|", "_", "\\", "_").Replace(name) + "|"
}

var opNames = map[Op]string{
	OpNot: "not", OpAnd: "and", OpOr: "or", OpIte: "ite", OpEq: "=",
	OpAdd: "bvadd", OpSub: "bvsub", OpMul: "bvmul", OpUDiv: "bvudiv", OpSDiv: "bvsdiv",
	OpURem: "bvurem", OpSRem: "bvsrem", OpBAnd: "bvand", OpBOr: "bvor", OpBXor: "bvxor",
	OpShl: "bvshl", OpLShr: "bvlshr", OpAShr: "bvashr", OpNeg: "bvneg", OpBNot: "bvnot",
	OpULT: "bvult", OpULE: "bvule", OpSLT: "bvslt", OpSLE: "bvsle",
	OpFLT: "fp.lt", OpFLE: "fp.leq", OpFEQ: "fp.eq", OpFNeg: "fp.neg", OpFIsNaN: "fp.isNaN",
}

// head renders the term using child references produced by ref.
func (t *Term) head(ref func(*Term) string) string {
	switch t.op {
	case OpConst:
		switch t.kind {
		case KBool:
			if t.c == 1 {
				return "true"
			}
			return "false"
		case KBV:
			if t.w%4 == 0 {
				return fmt.Sprintf("#x%0*x", t.w/4, t.c)
			}
			return fmt.Sprintf("#b%0*b", t.w, t.c)
		default:
			if t.w == 32 {
				return fmt.Sprintf("((_ to_fp 8 24) #x%08x)", t.c)
			}
			return fmt.Sprintf("((_ to_fp 11 53) #x%016x)", t.c)
		}
	case OpVar:
		return smtSym(t.name)
	case OpExtract:
		return fmt.Sprintf("((_ extract %d %d) %s)", t.aux>>8, t.aux&0xff, ref(t.args[0]))
	case OpZExt:
		return fmt.Sprintf("((_ zero_extend %d) %s)", t.aux, ref(t.args[0]))
	case OpSExt:
		return fmt.Sprintf("((_ sign_extend %d) %s)", t.aux, ref(t.args[0]))
	case OpUF:
		if len(t.args) == 0 {
			return smtSym(t.ufSym())
		}
		var sb strings.Builder
		sb.WriteString("(" + smtSym(t.ufSym()))
		for _, a := range t.args {
			sb.WriteByte(' ')
			sb.WriteString(ref(a))
		}
		sb.WriteByte(')')
		return sb.String()
	case OpFAdd, OpFSub, OpFMul, OpFDiv:
		n := map[Op]string{OpFAdd: "fp.add", OpFSub: "fp.sub", OpFMul: "fp.mul", OpFDiv: "fp.div"}[t.op]
		return fmt.Sprintf("(%s RNE %s %s)", n, ref(t.args[0]), ref(t.args[1]))
	case OpS2F, OpU2F, OpF2F:
		eb, sb := 11, 53
		if t.w == 32 {
			eb, sb = 8, 24
		}
		if t.op == OpU2F {
			return fmt.Sprintf("((_ to_fp_unsigned %d %d) RNE %s)", eb, sb, ref(t.args[0]))
		}
		return fmt.Sprintf("((_ to_fp %d %d) RNE %s)", eb, sb, ref(t.args[0]))
	case OpF2S:
		return fmt.Sprintf("((_ fp.to_sbv %d) RTZ %s)", t.w, ref(t.args[0]))
	case OpF2U:
		return fmt.Sprintf("((_ fp.to_ubv %d) RTZ %s)", t.w, ref(t.args[0]))
	case OpFBits:
		eb, sb := 11, 53
		if t.w == 32 {
			eb, sb = 8, 24
		}
		return fmt.Sprintf("((_ to_fp %d %d) %s)", eb, sb, ref(t.args[0]))
	}
	n, ok := opNames[t.op]
	if !ok {
		panic(fmt.Sprintf("no smt name for op %d", t.op))
	}
	var sb strings.Builder
	sb.WriteString("(" + n)
	for _, a := range t.args {
		sb.WriteByte(' ')
		sb.WriteString(ref(a))
	}
	sb.WriteByte(')')
	return sb.String()
}

// ufSym: UF symbol name including arity/sort signature so that one name used
// at different string lengths yields different SMT functions.
func (t *Term) ufSym() string {
	var sb strings.Builder
	sb.WriteString(t.name)
	sb.WriteByte('/')
	for _, a := range t.args {
		switch a.kind {
		case KBool:
			sb.WriteByte('b')
		case KBV:
			sb.WriteString(strconv.Itoa(a.w))
		default:
			sb.WriteString("f" + strconv.Itoa(a.w))
		}
		sb.WriteByte('.')
	}
	return sb.String()
}

func (t *Term) String() string {
	n := 0
	var rec func(*Term) string
	rec = func(x *Term) string {
		n++
		if n > 200 {
			return "…"
		}
		return x.head(rec)
	}
	return rec(t)
}

// evaluation of a term under a model (map var name/uf app -> value); used to
// cross-check solver models cheaply. Only BV/Bool without UFs.
func popcount(x uint64) int { return bits.OnesCount64(x) }
