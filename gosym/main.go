package main

import (
	"crypto/sha256"
	"encoding/json"
	"flag"
	"fmt"
	"os"
	"path/filepath"
	"regexp"
	"runtime/debug"
	"runtime/pprof"
	"sort"
	"strings"
	"time"

	"golang.org/x/tools/go/packages"
	"golang.org/x/tools/go/ssa"
	"golang.org/x/tools/go/ssa/ssautil"
)

type RunOutput struct {
	Package   string           `json:"package"`
	Solver    string           `json:"solver"`
	LoadSecs  float64          `json:"load_s"`
	Harnesses []*HarnessResult `json:"harnesses"`
	FuncHash  map[string]string `json:"function_hashes,omitempty"`
	Error     string           `json:"error,omitempty"`
}

func main() {
	dir := flag.String("dir", "/repo", "module directory to load from")
	pkgPat := flag.String("pkg", "", "package pattern (import path)")
	pkgDir := flag.String("pkgdir", "", "directory of the package (overlay target)")
	overlayDir := flag.String("overlay", "", "directory whose *.go files are overlaid into pkgdir")
	harnessRe := flag.String("harness", "^Verif", "regexp selecting harness functions")
	solverName := flag.String("solver", "z3-new", "z3 | z3-new | cvc5")
	maxPaths := flag.Int("max-paths", 20000, "path budget per harness")
	timeout := flag.Int("timeout", 600, "seconds per harness")
	qTimeout := flag.Int("query-timeout", 60000, "ms per solver query")
	out := flag.String("out", "", "result JSON file")
	witness := flag.Int("witness", 0, "number of witnesses to record per harness")
	smtLog := flag.String("smtlog", "", "log solver dialogue to file")
	maxSteps := flag.Int("max-steps", 20000000, "instruction budget per path")
	tags := flag.String("tags", "verif", "build tags")
	cpuprof := flag.String("cpuprofile", "", "write cpu profile")
	noDom := flag.Bool("no-dom", false, "disable the exact small-symbol domain shortcut (every decision goes to the SMT solver)")
	aInc := flag.String("assert-include", "", "only check assertions whose id matches")
	aExc := flag.String("assert-exclude", "", "skip assertions whose id matches")
	shard := flag.String("shard", "", "i/n: explore only alternatives i, i+n, ... of the first free choice")
	deep := flag.Bool("deep", false, "thorough tier: verifDeep() answers true (harnesses widen their bounds)")
	flag.Parse()
	if *cpuprof != "" {
		f, _ := os.Create(*cpuprof)
		pprof.StartCPUProfile(f)
		defer pprof.StopCPUProfile()
	}

	debug.SetGCPercent(400)
	if *aInc != "" {
		assertInclude = regexp.MustCompile(*aInc)
	}
	if *aExc != "" {
		assertExclude = regexp.MustCompile(*aExc)
	}
	result := &RunOutput{Package: *pkgPat, Solver: *solverName}
	writeOut := func() {
		b, _ := json.MarshalIndent(result, "", " ")
		if *out != "" {
			os.WriteFile(*out, b, 0o644)
		} else {
			os.Stdout.Write(b)
		}
	}
	fail := func(format string, args ...any) {
		result.Error = fmt.Sprintf(format, args...)
		fmt.Fprintln(os.Stderr, "gosym:", result.Error)
		writeOut()
		os.Exit(2)
	}

	t0 := time.Now()
	overlay := map[string][]byte{}
	if *overlayDir != "" {
		files, _ := filepath.Glob(filepath.Join(*overlayDir, "*.go"))
		for _, f := range files {
			b, err := os.ReadFile(f)
			if err != nil {
				fail("read overlay: %v", err)
			}
			overlay[filepath.Join(*pkgDir, filepath.Base(f))] = b
		}
	}
	cfg := &packages.Config{
		Mode:       packages.LoadAllSyntax,
		Dir:        *dir,
		BuildFlags: []string{"-tags=" + *tags},
		Overlay:    overlay,
		Env:        append(os.Environ(), "GOFLAGS=-mod=mod", "GOPROXY=off", "GOSUMDB=off", "GOTOOLCHAIN=local"),
	}
	pkgs, err := packages.Load(cfg, strings.Fields(*pkgPat)...)
	if err != nil {
		fail("load: %v", err)
	}
	nerr := 0
	packages.Visit(pkgs, nil, func(p *packages.Package) {
		for _, e := range p.Errors {
			if nerr < 10 {
				fmt.Fprintln(os.Stderr, "load error:", e)
			}
			nerr++
		}
	})
	if nerr > 0 {
		fail("package load/type errors: %d", nerr)
	}
	prog, spkgs := ssautil.AllPackages(pkgs, ssa.InstantiateGenerics)
	prog.Build()
	result.LoadSecs = time.Since(t0).Seconds()

	re := regexp.MustCompile(*harnessRe)
	var harnesses []*ssa.Function
	for _, sp := range spkgs {
		if sp == nil {
			continue
		}
		for name, m := range sp.Members {
			if f, ok := m.(*ssa.Function); ok && re.MatchString(name) && f.Signature.Params().Len() == 0 && f.Blocks != nil {
				harnesses = append(harnesses, f)
			}
		}
	}
	sort.Slice(harnesses, func(i, j int) bool { return harnesses[i].Name() < harnesses[j].Name() })
	if len(harnesses) == 0 {
		fail("no harness matches %s", *harnessRe)
	}

	solver, err := NewSolver(*solverName, *qTimeout, *smtLog)
	if err != nil {
		fail("solver: %v", err)
	}
	defer solver.Close()
	solver.noDom = *noDom
	deepTier = *deep

	ex := &Exec{
		prog:     prog,
		globals:  map[*ssa.Global]*Value{},
		pkgInit:  map[*ssa.Package]bool{},
		maxSteps: *maxSteps,
		maxDepth: 400,
		unsupp:   map[string]int{},
		onceDone: map[string]bool{},
	}
	result.FuncHash = map[string]string{}
	shardI, shardN := 0, 1
	if *shard != "" {
		fmt.Sscanf(*shard, "%d/%d", &shardI, &shardN)
	}
	for _, h := range harnesses {
		r := RunHarness(ex, solver, h, *maxPaths, time.Duration(*timeout)*time.Second, *witness, shardI, shardN)
		result.Harnesses = append(result.Harnesses, r)
		for _, f := range r.Funcs {
			if _, ok := result.FuncHash[f]; !ok {
				result.FuncHash[f] = funcSourceHash(prog, f)
			}
		}
	}
	writeOut()
}

var srcCache = map[string][]byte{}

// funcSourceHash hashes the source span of a function (by name lookup).
var allFns map[string]*ssa.Function

func funcSourceHash(prog *ssa.Program, name string) string {
	if allFns == nil {
		allFns = map[string]*ssa.Function{}
		for fn := range ssautil.AllFunctions(prog) {
			allFns[fn.String()] = fn
		}
	}
	if fn, ok := allFns[name]; ok {
		if fn.Syntax() != nil {
			p0 := prog.Fset.Position(fn.Syntax().Pos())
			p1 := prog.Fset.Position(fn.Syntax().End())
			b, ok := srcCache[p0.Filename]
			if !ok {
				b, _ = os.ReadFile(p0.Filename)
				srcCache[p0.Filename] = b
			}
			if p1.Offset <= len(b) && p0.Offset < p1.Offset {
				return fmt.Sprintf("%x", sha256.Sum256(b[p0.Offset:p1.Offset]))[:16]
			}
		}
	}
	return ""
}
