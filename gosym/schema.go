package main

// verifSchemaAccepts(doc, op, parts): does the request described by `parts`
// conform to the parameter and request-body schemas that the OpenAPI 3
// document `doc` (the text the real generator just emitted) publishes for
// operation `op` ("POST /path")? The schemas are read from the concrete
// document; the request values are symbolic executor values, so the verdict
// is an SMT term. The native replay uses kin-openapi as an independent
// validator.

import (
	"encoding/json"
	"fmt"
	"go/types"
	"regexp"
	"sort"
	"strings"

	"golang.org/x/tools/go/ssa"
)

type schemaCtx struct {
	ex   *Exec
	root map[string]any
}

func (sc *schemaCtx) resolve(s map[string]any) map[string]any {
	for {
		ref, ok := s["$ref"].(string)
		if !ok {
			return s
		}
		cur := any(sc.root)
		for _, part := range strings.Split(strings.TrimPrefix(ref, "#/"), "/") {
			part = strings.ReplaceAll(strings.ReplaceAll(part, "~1", "/"), "~0", "~")
			m, ok := cur.(map[string]any)
			if !ok {
				sc.ex.unsupported("openapi: cannot resolve %s", ref)
			}
			cur = m[part]
		}
		m, ok := cur.(map[string]any)
		if !ok {
			sc.ex.unsupported("openapi: cannot resolve %s", ref)
		}
		s = m
	}
}

func num(v any) (float64, bool) {
	switch x := v.(type) {
	case float64:
		return x, true
	case json.Number:
		f, err := x.Float64()
		return f, err == nil
	}
	return 0, false
}

// deref strips pointers and interfaces; absent = nil pointer / nil interface.
func (sc *schemaCtx) deref(v Value, t types.Type) (Value, types.Type, bool) {
	for {
		switch x := v.(type) {
		case *Value:
			if x == nil {
				return nil, nil, false
			}
			v = sc.ex.load(x)
			t = t.Underlying().(*types.Pointer).Elem()
		case Iface:
			if x.t == nil {
				return nil, nil, false
			}
			v, t = x.v, x.t
		default:
			return v, t, true
		}
	}
}

// numeric comparison of an executor scalar with a constant bound
func (sc *schemaCtx) cmpConst(x *Term, t types.Type, bound float64, op string) *Term {
	if x.kind == KFP {
		b := mkFP(x.w, bound)
		switch op {
		case "<":
			return mkFCmp(OpFLT, x, b)
		case "<=":
			return mkFCmp(OpFLE, x, b)
		case ">":
			return mkFCmp(OpFLT, b, x)
		default:
			return mkFCmp(OpFLE, b, x)
		}
	}
	// integers: compare in 64 bits, signed or unsigned by Go type
	signed := isSigned(t)
	var x64 *Term
	if signed {
		x64 = mkSExt(x, 64)
	} else {
		x64 = mkZExt(x, 64)
	}
	if bound != float64(int64(bound)) {
		sc.ex.unsupported("openapi: non-integral bound %v on an integer", bound)
	}
	if !signed && bound < 0 {
		// every unsigned value is above a negative bound
		return mkBool(op == ">" || op == ">=")
	}
	b := mkBV(64, uint64(int64(bound)))
	lt, le := OpSLT, OpSLE
	if !signed {
		lt, le = OpULT, OpULE
	}
	switch op {
	case "<":
		return mkCmp(lt, x64, b)
	case "<=":
		return mkCmp(le, x64, b)
	case ">":
		return mkCmp(lt, b, x64)
	default:
		return mkCmp(le, b, x64)
	}
}

func (sc *schemaCtx) enumMatch(v Value, t types.Type, e any) *Term {
	switch x := v.(type) {
	case Str:
		s, ok := e.(string)
		if !ok {
			return tFalse
		}
		return strEq(x, mkStr(s))
	case *Term:
		switch x.kind {
		case KBool:
			b, ok := e.(bool)
			if !ok {
				return tFalse
			}
			return mkEq(x, mkBool(b))
		default:
			f, ok := num(e)
			if !ok {
				return tFalse
			}
			return mkAnd(sc.cmpConst(x, t, f, "<="), sc.cmpConst(x, t, f, ">="))
		}
	}
	return tFalse
}

// ok: does value v (static Go type t) conform to schema s?
func (sc *schemaCtx) ok(s map[string]any, v Value, t types.Type) *Term {
	ex := sc.ex
	s = sc.resolve(s)
	v, t, present := sc.deref(v, t)
	if !present {
		// JSON null / absent where a value is expected
		if n, _ := s["nullable"].(bool); n {
			return tTrue
		}
		return tFalse
	}
	var cs []*Term
	typ, _ := s["type"].(string)
	if en, ok := s["enum"].([]any); ok {
		var alts []*Term
		for _, e := range en {
			alts = append(alts, sc.enumMatch(v, t, e))
		}
		cs = append(cs, mkOr(alts...))
	}
	switch x := v.(type) {
	case *Term:
		switch x.kind {
		case KBool:
			if typ != "" && typ != "boolean" {
				return tFalse
			}
		case KBV:
			if typ != "" && typ != "integer" && typ != "number" {
				return tFalse
			}
		case KFP:
			if typ == "integer" {
				ex.unsupported("openapi: float value against integer schema")
			}
			if typ != "" && typ != "number" {
				return tFalse
			}
		}
		if x.kind != KBool {
			if m, ok := num(s["minimum"]); ok {
				op := ">="
				if b, _ := s["exclusiveMinimum"].(bool); b {
					op = ">"
				}
				cs = append(cs, sc.cmpConst(x, t, m, op))
			}
			if m, ok := num(s["maximum"]); ok {
				op := "<="
				if b, _ := s["exclusiveMaximum"].(bool); b {
					op = "<"
				}
				cs = append(cs, sc.cmpConst(x, t, m, op))
			}
			// numeric exclusive bounds (JSON Schema draft-06 style, which is what goa emits)
			if m, ok := num(s["exclusiveMinimum"]); ok {
				cs = append(cs, sc.cmpConst(x, t, m, ">"))
			}
			if m, ok := num(s["exclusiveMaximum"]); ok {
				cs = append(cs, sc.cmpConst(x, t, m, "<"))
			}
			if x.kind == KBV {
				switch s["format"] {
				case "int32":
					cs = append(cs, sc.cmpConst(x, t, -2147483648, ">="), sc.cmpConst(x, t, 2147483647, "<="))
				case "int64":
					if !isSigned(t) {
						cs = append(cs, mkCmp(OpULE, mkZExt(x, 64), mkBV(64, 0x7fffffffffffffff)))
					}
				}
			}
		}
	case Str:
		if typ != "" && typ != "string" {
			return tFalse
		}
		_, hasMin := num(s["minLength"])
		_, hasMax := num(s["maxLength"])
		if hasMin || hasMax {
			n := ex.runeCount(x.b)
			if m, ok := num(s["minLength"]); ok {
				cs = append(cs, mkCmp(OpSLE, i64(int64(m)), n))
			}
			if m, ok := num(s["maxLength"]); ok {
				cs = append(cs, mkCmp(OpSLE, n, i64(int64(m))))
			}
		}
		if p, ok := s["pattern"].(string); ok {
			rp, okc := compileReProg(p)
			if !okc {
				ex.unsupported("openapi: pattern %q", p)
			}
			if c, conc := x.concrete(); conc {
				cs = append(cs, ex.regexpMatch(&nativeRegexp{re: mustNativeRe(p), src: p}, mkStr(c)))
			} else {
				cs = append(cs, rp.symMatch(x.b))
			}
		}
	case Slice:
		if typ != "" && typ != "array" {
			return tFalse
		}
		if m, ok := num(s["minItems"]); ok {
			cs = append(cs, mkBool(len(x.a) >= int(m)))
		}
		if m, ok := num(s["maxItems"]); ok {
			cs = append(cs, mkBool(len(x.a) <= int(m)))
		}
		if items, ok := s["items"].(map[string]any); ok {
			var et types.Type
			if st, ok := t.Underlying().(*types.Slice); ok {
				et = st.Elem()
			}
			for _, e := range x.a {
				cs = append(cs, sc.ok(items, e, et))
			}
		}
	case *Map:
		if typ != "" && typ != "object" {
			return tFalse
		}
		n := 0
		if x != nil {
			n = x.length()
		}
		if m, ok := num(s["minProperties"]); ok {
			cs = append(cs, mkBool(n >= int(m)))
		}
		if m, ok := num(s["maxProperties"]); ok {
			cs = append(cs, mkBool(n <= int(m)))
		}
		if ap, ok := s["additionalProperties"].(map[string]any); ok && x != nil {
			et := t.Underlying().(*types.Map).Elem()
			for _, e := range x.live() {
				cs = append(cs, sc.ok(ap, e.v, et))
			}
		}
	case Struct:
		if typ != "" && typ != "object" {
			return tFalse
		}
		st := t.Underlying().(*types.Struct)
		props, _ := s["properties"].(map[string]any)
		req := map[string]bool{}
		if r, ok := s["required"].([]any); ok {
			for _, n := range r {
				req[n.(string)] = true
			}
		}
		seen := map[string]bool{}
		for _, f := range jsonFields(st) {
			seen[f.name] = true
			fv := x[f.idx]
			present := !ex.jsonAbsent(fv, f.typ, f.omitempty)
			if !present {
				if req[f.name] {
					return tFalse
				}
				continue
			}
			if ps, ok := props[f.name].(map[string]any); ok {
				cs = append(cs, sc.ok(ps, fv, f.typ))
			}
		}
		for n := range req {
			if !seen[n] {
				return tFalse // required member the wire struct cannot even carry
			}
		}
	default:
		ex.unsupported("openapi: value of kind %T", v)
	}
	return mkAnd(cs...)
}

func init() {
	harnessExt["verifSchemaAccepts"] = func(ex *Exec, fr *frame, fn *ssa.Function, args []Value) Value {
		docText, ok := args[0].(Str).concrete()
		if !ok {
			ex.unsupported("openapi document must be concrete")
		}
		op, _ := args[1].(Str).concrete()
		parts, _ := args[2].(*Map)
		var root map[string]any
		if err := json.Unmarshal([]byte(docText), &root); err != nil {
			ex.unsupported("openapi document: %v", err)
		}
		ex.stub("OpenAPI 3 schema evaluation: type/required/enum/min/max/exclusive*/min-maxLength(runes)/pattern/min-maxItems/items/properties/additionalProperties/$ref; format ignored")
		sc := &schemaCtx{ex: ex, root: root}
		fields := strings.SplitN(op, " ", 2)
		paths, _ := root["paths"].(map[string]any)
		pi, _ := paths[fields[1]].(map[string]any)
		opDoc, _ := pi[strings.ToLower(fields[0])].(map[string]any)
		if opDoc == nil {
			return tFalse // operation not documented at all
		}
		get := func(key string) (Iface, bool) {
			if parts == nil {
				return Iface{}, false
			}
			e := ex.mapFind(parts, mkStr(key))
			if e == nil {
				return Iface{}, false
			}
			iv := e.v.(Iface)
			return iv, iv.t != nil
		}
		var cs []*Term
		// response mode: parts = {"response:<status>": body}; the body is held
		// against the schema documented for that status code
		if parts != nil {
			for _, e := range parts.live() {
				k, _ := e.k.(Str).concrete()
				if !strings.HasPrefix(k, "response:") {
					continue
				}
				resps, _ := opDoc["responses"].(map[string]any)
				rd, _ := resps[strings.TrimPrefix(k, "response:")].(map[string]any)
				if rd == nil {
					return tFalse // status code not documented
				}
				rd = sc.resolve(rd)
				content, _ := rd["content"].(map[string]any)
				body := e.v.(Iface)
				if len(content) == 0 {
					return mkBool(body.t == nil) // documented without a body
				}
				var schema map[string]any
				// a JSON media type if there is one, else the first one listed
				// (goa's application/vnd.goa.error is written by the JSON encoder)
				names := sortedKeys(content)
				pick := names[0]
				for _, mt := range names {
					if strings.Contains(mt, "json") {
						pick = mt
						break
					}
				}
				schema, _ = content[pick].(map[string]any)["schema"].(map[string]any)
				if schema == nil {
					return tTrue // documented without a schema
				}
				if body.t == nil {
					return tFalse
				}
				return sc.ok(schema, body.v, body.t)
			}
		}
		if params, ok := opDoc["parameters"].([]any); ok {
			for _, p := range params {
				pm := sc.resolve(p.(map[string]any))
				key := fmt.Sprintf("%s:%s", pm["in"], pm["name"])
				v, present := get(key)
				if !present {
					if r, _ := pm["required"].(bool); r {
						return tFalse
					}
					continue
				}
				if ps, ok := pm["schema"].(map[string]any); ok {
					cs = append(cs, sc.ok(ps, v.v, v.t))
				}
			}
		}
		if rb, ok := opDoc["requestBody"].(map[string]any); ok {
			rb = sc.resolve(rb)
			required, _ := rb["required"].(bool)
			if _, missing := get("body-missing"); missing {
				if required {
					return tFalse
				}
			} else if _, bad := get("body-malformed"); bad {
				return tFalse
			} else if body, present := get("body"); present {
				content, _ := rb["content"].(map[string]any)
				if mt, ok := content["application/json"].(map[string]any); ok {
					if bs, ok := mt["schema"].(map[string]any); ok {
						cs = append(cs, sc.ok(bs, body.v, body.t))
					}
				}
			} else if required {
				return tFalse
			}
		}
		return mkAnd(cs...)
	}
}

func sortedKeys(m map[string]any) []string {
	var ks []string
	for k := range m {
		ks = append(ks, k)
	}
	sort.Strings(ks)
	return ks
}

func mustNativeRe(p string) *regexp.Regexp { return regexp.MustCompile(p) }
