package main

// Path exploration by re-execution (DFS over recorded decisions).

import (
	"fmt"
	"os"
	"sort"
	"strings"
	"time"

	"golang.org/x/tools/go/ssa"
)

type entryKind uint8

const (
	eBranch entryKind = iota // symbolic boolean decision
	eChoice                  // free n-way choice (no solver)
	eConc                    // concretisation of a term
	eAssume                  // pc += cond (after feasibility check)
	eAssert                  // assertion discharged / violated (pc += cond if violated)
)

type traceEntry struct {
	kind     entryKind
	taken    uint64 // branch: 0/1; choice: index; conc: value
	nAlt     int    // choice: number of alternatives
	altLeft  bool   // branch: other side still to explore
	tried    []uint64
	cond     *Term
	levelPre int  // solver level before this entry
	pushed   bool // whether a solver scope was opened for it
	viol     bool
	forced   bool
}

type NondetRec struct {
	ID    string  `json:"id"`
	Kind  string  `json:"kind"` // int, bool, byte, string, choice, float
	Terms []*Term `json:"-"`
	Width int     `json:"width"`
	Conc  *uint64 `json:"-"`
}

type Violation struct {
	Harness   string            `json:"harness"`
	Assert    string            `json:"assert"`
	Kind      string            `json:"kind"` // assert | panic
	Detail    string            `json:"detail,omitempty"`
	Model     map[string]any    `json:"model"`
	Notes     map[string]string `json:"notes,omitempty"`
	PathIndex int               `json:"path"`
}

type HarnessResult struct {
	Harness      string         `json:"harness"`
	Paths        int            `json:"paths"`
	PathsOK      int            `json:"paths_ok"`
	Pruned       int            `json:"pruned"`
	Panics       int            `json:"panics"`
	Unsupported  map[string]int `json:"unsupported,omitempty"`
	EngineBugs   []string       `json:"engine_bugs,omitempty"`
	Asserts      map[string]int `json:"asserts"`       // id -> times checked
	AssertsTriv  map[string]int `json:"asserts_const"` // id -> times trivially true
	Reached      map[string]int `json:"reached"`
	Violations   []Violation    `json:"violations"`
	Unknown      int            `json:"unknown"`
	QSat         int            `json:"q_sat"`
	QUnsat       int            `json:"q_unsat"`
	SolverSecs   float64        `json:"solver_s"`
	WallSecs     float64        `json:"wall_s"`
	Complete     bool           `json:"complete"`
	Incomplete   string         `json:"incomplete_reason,omitempty"`
	Funcs        []string       `json:"functions,omitempty"`
	Samples      []PathSample   `json:"samples,omitempty"`
	Decisions    int            `json:"decisions"`
	DomDecided   int            `json:"decided_by_domain_enumeration"`
	AssertsDom   int            `json:"asserts_by_domain_enumeration"`
	Stubs        []string       `json:"stubs,omitempty"`
	Steps        int            `json:"steps"`
	Witnesses    []Witness      `json:"witnesses,omitempty"`
	// Fallback: inputs reaching a construct the executor cannot interpret; the
	// check runs them natively (sampling, reported as such, never as coverage)
	Fallback []PathSample `json:"fallback,omitempty"`
}

type PathSample struct {
	Path    int               `json:"path"`
	Outcome string            `json:"outcome"`
	Model   map[string]any    `json:"model,omitempty"`
	Notes   map[string]string `json:"notes,omitempty"`
}

// Witness: concrete inputs of a completed path plus the values the symbolic
// run observed (verifObserve), for native re-validation.
type Witness struct {
	Path     int               `json:"path"`
	Model    map[string]any    `json:"model"`
	Observed map[string]string `json:"observed"`
}

type Explorer struct {
	ex       *Exec
	s        *Solver
	trace    []traceEntry
	pos      int
	baseLvl  int
	nondets  []*NondetRec
	idCount  map[string]int
	notes    map[string]string
	observed map[string]Value
	res      *HarnessResult
	maxPaths int
	deadline time.Time
	pathIdx  int
	violKeys map[string]bool
	stubs    map[string]bool
	wantWit  int
	shardI   int
	shardN   int
}

func (ex *Exec) decide(c *Term) bool {
	if c.isConst() {
		return c.c == 1
	}
	if ex.specDepth > 0 {
		panic(specAbort{})
	}
	if ex.x == nil {
		panic(engineError{"symbolic decision outside of a harness path (package initialiser?)"})
	}
	return ex.x.decide(c)
}

func (ex *Exec) choose(n int) int {
	if n <= 1 {
		return 0
	}
	if ex.x == nil {
		panic(engineError{"choice outside of a harness path"})
	}
	return ex.x.choose(n)
}

func (ex *Exec) concretize(t *Term) uint64 {
	if t.isConst() {
		return t.c
	}
	if ex.x == nil {
		panic(engineError{"concretisation outside of a harness path"})
	}
	return ex.x.concretize(t)
}

func (x *Explorer) check() string {
	if time.Now().After(x.deadline) {
		// hard stop: the budget is also enforced inside a path, not only between paths
		if x.ex.x == x {
			panic(engineError{"time budget exhausted inside a path"})
		}
		// between paths (backtracking): report unknown, the caller marks the run incomplete
		x.res.Unknown++
		return "unknown"
	}
	r := x.s.Check()
	if r == "unknown" {
		x.res.Unknown++
	}
	return r
}

func (x *Explorer) feasible(c *Term) string {
	x.s.Push()
	x.s.Assert(c)
	r := x.check()
	x.s.Pop()
	return r
}

func (x *Explorer) replaying() bool { return x.pos < len(x.trace) }

func (x *Explorer) decide(c *Term) bool {
	if x.replaying() {
		e := &x.trace[x.pos]
		x.pos++
		if e.kind != eBranch {
			panic(engineError{fmt.Sprintf("replay divergence: expected branch, have kind %d", e.kind)})
		}
		if e.cond != c {
			panic(engineError{"replay divergence: different branch condition"})
		}
		return e.taken == 1
	}
	x.res.Decisions++
	e := traceEntry{kind: eBranch, cond: c, levelPre: x.s.level}
	both := func() {
		e.taken = 1
		e.altLeft = true
		e.pushed = true
		x.s.Push()
		x.s.Assert(c)
	}
	switch x.s.Quick(c) {
	case 1:
		e.taken, e.forced = 1, true
		x.res.DomDecided++
	case 0:
		e.taken, e.forced = 0, true
		x.res.DomDecided++
	case 2:
		x.res.DomDecided++
		both()
	default:
		rt := x.feasible(c)
		if rt == "unsat" {
			e.taken, e.forced = 0, true
		} else {
			rf := x.feasible(mkNot(c))
			if rf == "unsat" {
				e.taken, e.forced = 1, true
			} else {
				both()
			}
		}
	}
	x.trace = append(x.trace, e)
	x.pos++
	return e.taken == 1
}

func (x *Explorer) choose(n int) int {
	if x.replaying() {
		e := &x.trace[x.pos]
		x.pos++
		if e.kind != eChoice {
			panic(engineError{"replay divergence: expected choice"})
		}
		return int(e.taken)
	}
	e := traceEntry{kind: eChoice, taken: 0, nAlt: n, levelPre: x.s.level}
	if x.shardN > 1 && !x.hasChoiceBefore() {
		// first free choice of the path: this process only takes its share
		e.forced = true // marks the sharded entry
		if x.shardI >= n {
			x.trace = append(x.trace, traceEntry{kind: eChoice, taken: uint64(n), nAlt: n, levelPre: x.s.level, forced: true})
			x.pos++
			panic(pathEnd{"shard has no share of this choice"})
		}
		e.taken = uint64(x.shardI)
	}
	x.trace = append(x.trace, e)
	x.pos++
	return int(e.taken)
}

func (x *Explorer) hasChoiceBefore() bool {
	for _, e := range x.trace {
		if e.kind == eChoice {
			return true
		}
	}
	return false
}

func (x *Explorer) concretize(t *Term) uint64 {
	if x.replaying() {
		e := &x.trace[x.pos]
		x.pos++
		if e.kind != eConc {
			panic(engineError{"replay divergence: expected concretisation"})
		}
		return e.taken
	}
	x.res.Decisions++
	e := traceEntry{kind: eConc, cond: t, levelPre: x.s.level}
	r := x.check()
	if r != "sat" {
		if r == "unsat" {
			panic(pathEnd{"infeasible at concretisation"})
		}
		panic(engineError{"unknown from solver at concretisation"})
	}
	vals, ok := x.s.GetValues([]*Term{t})
	if !ok {
		panic(engineError{"get-value failed"})
	}
	e.taken = vals[0]
	e.tried = []uint64{vals[0]}
	e.pushed = true
	x.s.Push()
	x.s.Assert(mkEq(t, mkBV(t.w, vals[0])))
	x.trace = append(x.trace, e)
	x.pos++
	return e.taken
}

func (x *Explorer) assume(c *Term) {
	if c.isTrue() {
		return
	}
	if x.replaying() {
		e := &x.trace[x.pos]
		x.pos++
		if e.kind != eAssume {
			panic(engineError{"replay divergence: expected assume"})
		}
		return
	}
	if c.isFalse() {
		panic(pathEnd{"assumption false"})
	}
	e := traceEntry{kind: eAssume, cond: c, levelPre: x.s.level, pushed: true}
	q := x.s.Quick(c)
	if q == 0 {
		x.res.DomDecided++
		panic(pathEnd{"assumption infeasible"})
	}
	x.s.Push()
	x.s.Assert(c)
	if q == 1 || q == 2 {
		x.res.DomDecided++
	} else {
		r := x.check()
		if r == "unsat" {
			x.s.Pop()
			panic(pathEnd{"assumption infeasible"})
		}
	}
	x.trace = append(x.trace, e)
	x.pos++
}

// assert checks pc => c.
func (x *Explorer) assert(id string, c *Term) {
	if x.replaying() {
		e := &x.trace[x.pos]
		x.pos++
		if e.kind != eAssert {
			panic(engineError{"replay divergence: expected assert"})
		}
		if e.viol && e.forced {
			panic(pathEnd{"assertion always violated here"})
		}
		return
	}
	x.res.Asserts[id]++
	e := traceEntry{kind: eAssert, cond: c, levelPre: x.s.level}
	if c.isTrue() {
		x.res.AssertsTriv[id]++
		x.trace = append(x.trace, e)
		x.pos++
		return
	}
	x.s.Push()
	x.s.Assert(mkNot(c))
	r := x.check()
	if r == "sat" {
		model := x.model()
		x.s.Pop()
		e.viol = true
		x.recordViolation(id, "assert", "", model)
		// continue under the assumption that the assertion holds
		if c.isFalse() {
			e.forced = true
			x.trace = append(x.trace, e)
			x.pos++
			panic(pathEnd{"assertion always violated here"})
		}
		x.s.Push()
		x.s.Assert(c)
		if x.check() == "unsat" {
			x.s.Pop()
			e.forced = true
			x.trace = append(x.trace, e)
			x.pos++
			panic(pathEnd{"assertion always violated here"})
		}
		e.pushed = true
	} else {
		x.s.Pop()
		if r == "unknown" {
			x.res.Incomplete = "solver returned unknown for assertion " + id
		}
	}
	x.trace = append(x.trace, e)
	x.pos++
}

func (x *Explorer) recordViolation(id, kind, detail string, model map[string]any) {
	key := id + "|" + kind + "|" + detail
	// keep at most a few violations per assertion id
	n := 0
	for _, v := range x.res.Violations {
		if v.Assert == id {
			n++
		}
	}
	if n >= 6 {
		return
	}
	_ = key
	notes := map[string]string{}
	for k, v := range x.notes {
		notes[k] = v
	}
	x.res.Violations = append(x.res.Violations, Violation{Harness: x.res.Harness, Assert: id, Kind: kind, Detail: detail, Model: model, Notes: notes, PathIndex: x.pathIdx})
}

// model reads the values of all nondet symbols in the current sat state.
func (x *Explorer) model() map[string]any {
	var ts []*Term
	for _, n := range x.nondets {
		ts = append(ts, n.Terms...)
	}
	vals, ok := x.s.GetValues(ts)
	if !ok {
		return map[string]any{"_error": "get-value failed"}
	}
	out := map[string]any{}
	i := 0
	for _, n := range x.nondets {
		switch n.Kind {
		case "string":
			b := make([]byte, len(n.Terms))
			for j := range n.Terms {
				b[j] = byte(vals[i+j])
			}
			out[n.ID] = map[string]any{"kind": "string", "bytes": bytesToInts(b), "text": fmt.Sprintf("%q", string(b))}
		case "choice":
			out[n.ID] = map[string]any{"kind": "choice", "v": *n.Conc}
		default:
			if len(n.Terms) == 1 {
				out[n.ID] = map[string]any{"kind": n.Kind, "v": vals[i], "w": n.Width}
			}
		}
		i += len(n.Terms)
	}
	return out
}

func bytesToInts(b []byte) []int {
	out := make([]int, len(b))
	for i, c := range b {
		out[i] = int(c)
	}
	return out
}

// freshID returns a per-path unique symbol id.
func (x *Explorer) freshID(id string) string {
	n := x.idCount[id]
	x.idCount[id] = n + 1
	if n == 0 {
		return id
	}
	return fmt.Sprintf("%s#%d", id, n)
}

func (x *Explorer) newSym(id, kind string, k Kind, w int) *Term {
	fid := x.freshID(id)
	t := mkVar("nd!"+fid, k, w)
	x.nondets = append(x.nondets, &NondetRec{ID: fid, Kind: kind, Terms: []*Term{t}, Width: w})
	return t
}

func (x *Explorer) newStr(id string, n int) Str {
	fid := x.freshID(id)
	b := make([]*Term, n)
	for i := range b {
		b[i] = mkVar(fmt.Sprintf("nd!%s!%d", fid, i), KBV, 8)
	}
	x.nondets = append(x.nondets, &NondetRec{ID: fid, Kind: "string", Terms: b, Width: n})
	return Str{b}
}

func (x *Explorer) recordChoice(id string, v int) {
	fid := x.freshID(id)
	u := uint64(v)
	x.nondets = append(x.nondets, &NondetRec{ID: fid, Kind: "choice", Conc: &u})
}

// backtrack prepares the trace for the next path; false when exhausted.
func (x *Explorer) backtrack() bool {
	for len(x.trace) > 0 {
		i := len(x.trace) - 1
		e := &x.trace[i]
		switch e.kind {
		case eBranch:
			if e.altLeft {
				x.s.PopTo(e.levelPre)
				e.altLeft = false
				e.taken = 0
				e.pushed = true
				x.s.Push()
				x.s.Assert(mkNot(e.cond))
				return true
			}
		case eChoice:
			step := 1
			if e.forced && x.shardN > 1 {
				step = x.shardN
			}
			if int(e.taken)+step < e.nAlt {
				x.s.PopTo(e.levelPre)
				e.taken += uint64(step)
				return true
			}
		case eConc:
			x.s.PopTo(e.levelPre)
			x.s.Push()
			for _, v := range e.tried {
				x.s.Assert(mkNot(mkEq(e.cond, mkBV(e.cond.w, v))))
			}
			r := x.check()
			if r == "sat" {
				vals, ok := x.s.GetValues([]*Term{e.cond})
				x.s.Pop()
				if ok {
					if len(e.tried) > 300 {
						x.res.Incomplete = "concretisation fan-out > 300"
					} else {
						e.taken = vals[0]
						e.tried = append(e.tried, vals[0])
						x.s.Push()
						x.s.Assert(mkEq(e.cond, mkBV(e.cond.w, vals[0])))
						return true
					}
				}
			} else {
				x.s.Pop()
				if r == "unknown" {
					x.res.Incomplete = "solver unknown while enumerating concretisation"
				}
			}
		}
		x.s.PopTo(e.levelPre)
		x.trace = x.trace[:i]
	}
	return false
}

// RunHarness explores all paths of harness function h.
func RunHarness(ex *Exec, s *Solver, h *ssa.Function, maxPaths int, budget time.Duration, wantWitness int, shardI, shardN int) *HarnessResult {
	res := &HarnessResult{Harness: h.Name(), Asserts: map[string]int{}, AssertsTriv: map[string]int{}, Reached: map[string]int{}, Unsupported: map[string]int{}}
	x := &Explorer{ex: ex, s: s, res: res, maxPaths: maxPaths, deadline: time.Now().Add(budget), stubs: map[string]bool{}, wantWit: wantWitness, shardI: shardI, shardN: shardN}
	ex.trackFns = map[string]bool{}
	t0 := time.Now()
	sat0, unsat0, secs0 := s.nSat, s.nUnsat, s.secs
	s.Push()
	x.baseLvl = s.level
	// Go runs the initialisers of the harness's own package (and, from there,
	// lazily those of the packages it touches) before any harness code
	ex.ensureInit(h.Pkg)
	first := true
	for first || x.backtrack() {
		first = false
		if res.Paths >= maxPaths {
			res.Incomplete = fmt.Sprintf("path budget %d exhausted", maxPaths)
			break
		}
		if time.Now().After(x.deadline) {
			res.Incomplete = fmt.Sprintf("time budget %s exhausted", budget)
			break
		}
		x.pos = 0
		x.nondets = nil
		x.idCount = map[string]int{}
		x.notes = map[string]string{}
		x.observed = map[string]Value{}
		x.pathIdx = res.Paths
		ex.x = x
		ex.mapOrder = 0
		ex.hooks = nil
		resetPathState(ex)
		pr := ex.runPath(h)
		ex.x = nil
		res.Paths++
		res.Steps += ex.steps
		switch pr.outcome {
		case "ok":
			res.PathsOK++
			if len(res.Samples) < 3 || len(res.Witnesses) < x.wantWit {
				if s.Check() == "sat" {
					m := x.model()
					if len(res.Samples) < 3 {
						res.Samples = append(res.Samples, PathSample{Path: x.pathIdx, Outcome: "ok", Model: m, Notes: copyNotes(x.notes)})
					}
					if len(res.Witnesses) < x.wantWit {
						if w, ok := x.witness(m); ok {
							res.Witnesses = append(res.Witnesses, w)
						}
					}
				}
			}
		case "pruned":
			res.Pruned++
		case "panic":
			res.Panics++
			// an uncaught Go panic is a violation candidate
			if s.Check() == "sat" {
				x.recordViolation("no-panic", "panic", pr.detail, x.model())
			}
		case "unsupported":
			res.Unsupported[pr.detail]++
			if len(res.Fallback) < 48 && s.Check() == "sat" {
				res.Fallback = append(res.Fallback, PathSample{Path: x.pathIdx, Outcome: "unsupported", Model: x.model(), Notes: map[string]string{"unsupported": pr.detail}})
			}
		case "engine-bug":
			res.EngineBugs = append(res.EngineBugs, pr.detail)
			if len(res.EngineBugs) > 3 {
				res.Incomplete = "engine bugs"
			}
		}
		if res.Incomplete == "engine bugs" {
			break
		}
	}
	s.PopTo(x.baseLvl - 1)
	res.WallSecs = time.Since(t0).Seconds()
	res.QSat = s.nSat - sat0
	res.QUnsat = s.nUnsat - unsat0
	res.SolverSecs = s.secs - secs0
	res.Complete = res.Incomplete == "" && len(res.Unsupported) == 0 && len(res.EngineBugs) == 0 && res.Unknown == 0
	if !res.Complete && res.Incomplete == "" {
		switch {
		case len(res.Unsupported) > 0:
			res.Incomplete = "unsupported constructs on some paths"
		case res.Unknown > 0:
			res.Incomplete = "solver unknowns"
		default:
			res.Incomplete = "engine bugs"
		}
	}
	for f := range ex.trackFns {
		res.Funcs = append(res.Funcs, f)
	}
	sort.Strings(res.Funcs)
	for st := range x.stubs {
		res.Stubs = append(res.Stubs, st)
	}
	sort.Strings(res.Stubs)
	if os.Getenv("GOSYM_VERBOSE") != "" {
		fmt.Fprintf(os.Stderr, "harness %s: %d paths, %d violations, complete=%v %s\n", h.Name(), res.Paths, len(res.Violations), res.Complete, res.Incomplete)
	}
	return res
}

func copyNotes(m map[string]string) map[string]string {
	out := map[string]string{}
	for k, v := range m {
		out[k] = v
	}
	return out
}

// witness evaluates observed values under the model of the current path.
func (x *Explorer) witness(model map[string]any) (Witness, bool) {
	w := Witness{Path: x.pathIdx, Model: model, Observed: map[string]string{}}
	keys := make([]string, 0, len(x.observed))
	for k := range x.observed {
		keys = append(keys, k)
	}
	sort.Strings(keys)
	for _, k := range keys {
		s, ok := x.evalToString(x.observed[k])
		if !ok {
			return w, false
		}
		w.Observed[k] = s
	}
	return w, true
}

// evalToString renders a value under the current model in the same format
// as the native replay helper (see harness prelude fmtObserve).
func (x *Explorer) evalToString(v Value) (string, bool) {
	switch t := v.(type) {
	case *Term:
		vals, ok := x.s.GetValues([]*Term{t})
		if !ok {
			return "", false
		}
		switch t.kind {
		case KBool:
			if vals[0] == 1 {
				return "true", true
			}
			return "false", true
		case KBV:
			return fmt.Sprintf("%d", vals[0]), true
		}
		return "", false
	case Str:
		vals, ok := x.s.GetValues(t.b)
		if !ok {
			return "", false
		}
		b := make([]byte, len(vals))
		for i, c := range vals {
			b[i] = byte(c)
		}
		return fmt.Sprintf("%q", string(b)), true
	case Slice:
		var parts []string
		for _, e := range t.a {
			s, ok := x.evalToString(e)
			if !ok {
				return "", false
			}
			parts = append(parts, s)
		}
		return "[" + strings.Join(parts, ",") + "]", true
	}
	return "", false
}
