package main

// Exact per-symbol domains for small symbols (bytes, booleans).
//
// Every path-condition conjunct that mentions exactly one symbol of at most 8
// bits refines that symbol's 256-bit domain by evaluating the conjunct on all
// values. A symbol that also occurs in a conjunct with other symbols is
// "coupled". For a branch condition over uncoupled small symbols only, the
// domains decide feasibility exactly (the path condition factorises), so no
// solver query is needed; for coupled symbols the domain is still a sound
// over-approximation and can prove a condition forced, never feasible.
// The solver still receives every assertion, so its state stays the full
// path condition (used for all other queries, models and replays).

import (
	"fmt"
	"math/bits"
	"strings"
)

type domain struct {
	bits    [4]uint64
	coupled bool
}

func fullDomain(w int) domain {
	var d domain
	n := 1 << uint(w)
	for i := 0; i < n; i++ {
		d.bits[i>>6] |= 1 << uint(i&63)
	}
	return d
}

func (d *domain) has(v int) bool { return d.bits[v>>6]&(1<<uint(v&63)) != 0 }
func (d *domain) count() int {
	return bits.OnesCount64(d.bits[0]) + bits.OnesCount64(d.bits[1]) + bits.OnesCount64(d.bits[2]) + bits.OnesCount64(d.bits[3])
}

type domLog struct {
	level int
	v     *Term
	old   domain
	had   bool
}

type domTracker struct {
	tt   map[*Term]*[4]uint64 // truth tables of single-variable boolean terms
	multiCache map[string]int
	dom  map[*Term]*domain
	log  []domLog
	vars map[*Term][]*Term // free small vars of a term; nil slice + present = not enumerable
	nQuick, nQuickForced, nQuickBoth int
}

func newDomTracker() *domTracker {
	return &domTracker{dom: map[*Term]*domain{}, vars: map[*Term][]*Term{}, tt: map[*Term]*[4]uint64{}, multiCache: map[string]int{}}
}

var notEnumerable = []*Term{nil}

// freeVars returns the distinct variables of t if all of them are small
// (bool or <= 8 bit) and t contains no UF; otherwise notEnumerable.
func (dt *domTracker) freeVars(t *Term) []*Term {
	if r, ok := dt.vars[t]; ok {
		return r
	}
	var res []*Term
	switch t.op {
	case OpConst:
		res = []*Term{}
	case OpVar:
		if t.kind == KBool || (t.kind == KBV && t.w <= 8) {
			res = []*Term{t}
		} else {
			res = notEnumerable
		}
	case OpUF:
		res = notEnumerable
	default:
		if t.op >= OpFLT || t.kind == KFP {
			res = notEnumerable
			break
		}
		res = []*Term{}
		for _, a := range t.args {
			av := dt.freeVars(a)
			if len(av) == 1 && av[0] == nil {
				res = notEnumerable
				break
			}
			for _, v := range av {
				dup := false
				for _, r := range res {
					if r == v {
						dup = true
						break
					}
				}
				if !dup {
					res = append(res, v)
				}
			}
			if len(res) > 3 {
				res = notEnumerable
				break
			}
		}
	}
	dt.vars[t] = res
	return res
}

func (dt *domTracker) get(v *Term) *domain {
	if d, ok := dt.dom[v]; ok {
		return d
	}
	w := v.w
	if v.kind == KBool {
		w = 1
	}
	d := fullDomain(w)
	dt.dom[v] = &d
	return &d
}

func (dt *domTracker) save(level int, v *Term) {
	d, had := dt.dom[v]
	e := domLog{level: level, v: v, had: had}
	if had {
		e.old = *d
	}
	dt.log = append(dt.log, e)
}

func (dt *domTracker) undoTo(level int) {
	for len(dt.log) > 0 {
		e := dt.log[len(dt.log)-1]
		if e.level <= level {
			break
		}
		dt.log = dt.log[:len(dt.log)-1]
		if e.had {
			d := e.old
			dt.dom[e.v] = &d
		} else {
			delete(dt.dom, e.v)
		}
	}
}

// noteAssert records that t has been added to the path condition at level.
func (dt *domTracker) noteAssert(t *Term, level int) {
	if t.op == OpAnd {
		for _, a := range t.args {
			dt.noteAssert(a, level)
		}
		return
	}
	vs := dt.freeVars(t)
	if len(vs) == 1 && vs[0] == nil {
		// not enumerable: every small var inside becomes coupled
		dt.coupleAll(t, level, map[*Term]bool{})
		return
	}
	switch len(vs) {
	case 0:
	case 1:
		v := vs[0]
		dt.save(level, v)
		d := *dt.get(v)
		n := 256
		if v.kind == KBool {
			n = 2
		} else if v.w < 8 {
			n = 1 << uint(v.w)
		}
		_ = n
		tb := dt.truthTable(t, v)
		var nd domain
		nd.coupled = d.coupled
		for k := 0; k < 4; k++ {
			nd.bits[k] = d.bits[k] & tb[k]
		}
		dt.dom[v] = &nd
	default:
		for _, v := range vs {
			dt.save(level, v)
			d := *dt.get(v)
			d.coupled = true
			dt.dom[v] = &d
		}
	}
}

func (dt *domTracker) coupleAll(t *Term, level int, seen map[*Term]bool) {
	if seen[t] {
		return
	}
	seen[t] = true
	if t.op == OpVar {
		if t.kind == KBool || (t.kind == KBV && t.w <= 8) {
			dt.save(level, t)
			d := *dt.get(t)
			d.coupled = true
			dt.dom[t] = &d
		}
		return
	}
	for _, a := range t.args {
		dt.coupleAll(a, level, seen)
	}
}

// quick decides a condition from the domains when possible.
// returns: 1 forced true, 0 forced false, 2 both feasible (exact), -1 unknown
func (dt *domTracker) quick(c *Term) int {
	if r := dt.quickDecomposed(c); r != -2 {
		return r
	}
	return dt.quickEnum(c)
}

// quickDecomposed handles conjunctions/disjunctions whose operands talk about
// pairwise different uncoupled symbols (e.g. equality of a symbolic string
// with a constant): the operands are independent, so the condition can be
// true iff every operand can (resp. some operand can), and false likewise.
// Returns -2 when the shape does not apply.
func (dt *domTracker) quickDecomposed(c *Term) int {
	neg := false
	for c.op == OpNot {
		c = c.args[0]
		neg = !neg
	}
	if c.op != OpAnd && c.op != OpOr {
		return -2
	}
	if len(c.args) < 2 {
		return -2
	}
	// group operands by their single variable
	groups := map[*Term][]*Term{}
	var order []*Term
	for _, a := range c.args {
		vs := dt.freeVars(a)
		if len(vs) != 1 || vs[0] == nil {
			return -2
		}
		if _, ok := groups[vs[0]]; !ok {
			order = append(order, vs[0])
		}
		groups[vs[0]] = append(groups[vs[0]], a)
	}
	if len(order) < 2 {
		return -2
	}
	allCanT, allCanF, anyCanT, anyCanF := true, true, false, false
	for _, v := range order {
		d := dt.get(v)
		if d.coupled {
			return -2
		}
		var g *Term
		if c.op == OpAnd {
			g = mkAnd(groups[v]...)
		} else {
			g = mkOr(groups[v]...)
		}
		var canT, canF bool
		if g.isConst() {
			canT, canF = g.c == 1, g.c == 0
		} else {
			tb := dt.truthTable(g, v)
			for k := 0; k < 4; k++ {
				if d.bits[k]&tb[k] != 0 {
					canT = true
				}
				if d.bits[k]&^tb[k] != 0 {
					canF = true
				}
			}
		}
		allCanT = allCanT && canT
		allCanF = allCanF && canF
		anyCanT = anyCanT || canT
		anyCanF = anyCanF || canF
	}
	var canT, canF bool
	if c.op == OpAnd {
		canT, canF = allCanT, anyCanF
	} else {
		canT, canF = anyCanT, allCanF
	}
	if neg {
		canT, canF = canF, canT
	}
	dt.nQuick++
	switch {
	case canT && canF:
		dt.nQuickBoth++
		return 2
	case canT:
		dt.nQuickForced++
		return 1
	case canF:
		dt.nQuickForced++
		return 0
	}
	return -1
}

func (dt *domTracker) quickEnum(c *Term) int {
	vs := dt.freeVars(c)
	if len(vs) == 0 || (len(vs) == 1 && vs[0] == nil) {
		return -1
	}
	doms := make([]*domain, len(vs))
	size := 1
	anyCoupled := false
	for i, v := range vs {
		doms[i] = dt.get(v)
		size *= doms[i].count()
		if doms[i].coupled {
			anyCoupled = true
		}
		if size > 1024 {
			return -1
		}
	}
	if size == 0 {
		return -1
	}
	dt.nQuick++
	if len(vs) == 1 {
		tb := dt.truthTable(c, vs[0])
		d := doms[0]
		sawT, sawF := false, false
		for k := 0; k < 4; k++ {
			if d.bits[k]&tb[k] != 0 {
				sawT = true
			}
			if d.bits[k]&^tb[k] != 0 {
				sawF = true
			}
		}
		switch {
		case sawT && !sawF:
			dt.nQuickForced++
			return 1
		case sawF && !sawT:
			dt.nQuickForced++
			return 0
		case d.coupled:
			return -1
		}
		dt.nQuickBoth++
		return 2
	}
	// multi-variable: memoise on (term, domains)
	var kb strings.Builder
	fmt.Fprintf(&kb, "%d", c.id)
	for _, d := range doms {
		fmt.Fprintf(&kb, "|%x.%x.%x.%x", d.bits[0], d.bits[1], d.bits[2], d.bits[3])
	}
	key := kb.String()
	if r, ok := dt.multiCache[key]; ok {
		if r == 3 { // both seen
			if anyCoupled {
				return -1
			}
			return 2
		}
		return r
	}
	env := map[*Term]uint64{}
	sawT, sawF := false, false
	v0 := vs[0]
	n0 := 256
	if v0.kind == KBool {
		n0 = 2
	} else if v0.w < 8 {
		n0 = 1 << uint(v0.w)
	}
	var rec func(i int) bool
	rec = func(i int) bool {
		if i == len(vs) {
			vec := evalVecEnv(c, v0, n0, env, map[*Term][]uint64{})
			d := doms[0]
			for val := 0; val < n0; val++ {
				if !d.has(val) {
					continue
				}
				if vec[val] == 1 {
					sawT = true
				} else {
					sawF = true
				}
				if sawT && sawF {
					return true
				}
			}
			return false
		}
		d := doms[i]
		for val := 0; val < 256; val++ {
			if !d.has(val) {
				continue
			}
			env[vs[i]] = uint64(val)
			if rec(i + 1) {
				return true
			}
		}
		return false
	}
	rec(1)
	switch {
	case sawT && !sawF:
		dt.nQuickForced++
		dt.multiCache[key] = 1
		return 1
	case sawF && !sawT:
		dt.nQuickForced++
		dt.multiCache[key] = 0
		return 0
	}
	dt.multiCache[key] = 3
	if anyCoupled {
		return -1
	}
	dt.nQuickBoth++
	return 2
}

// evalTerm evaluates a bool/bv term under an assignment of its variables.
// Unknown variables make the result meaningless; callers guarantee closure.
func evalTerm(t *Term, env map[*Term]uint64, memo map[*Term]uint64) uint64 {
	switch t.op {
	case OpConst:
		return t.c
	case OpVar:
		return env[t]
	}
	if memo == nil {
		memo = map[*Term]uint64{}
	}
	if v, ok := memo[t]; ok {
		return v
	}
	tmp := &Term{op: t.op, kind: t.kind, w: t.w, aux: t.aux, args: make([]*Term, len(t.args))}
	for k, a := range t.args {
		tmp.args[k] = &Term{op: OpConst, kind: a.kind, w: a.w, c: evalTerm(a, env, memo)}
	}
	r := evalNode(tmp)
	memo[t] = r
	return r
}

// evalNode evaluates an operator node whose arguments are all constants.
func evalNode(t *Term) uint64 {
	a := func(i int) uint64 { return t.args[i].c }
	sx := func(v uint64, w int) int64 {
		if w >= 64 {
			return int64(v)
		}
		sh := uint(64 - w)
		return int64(v<<sh) >> sh
	}
	b2u := func(b bool) uint64 {
		if b {
			return 1
		}
		return 0
	}
	var r uint64
	w := t.w
	switch t.op {
	case OpNot:
		r = 1 - a(0)
	case OpAnd:
		r = 1
		for i := range t.args {
			if a(i) == 0 {
				r = 0
				break
			}
		}
	case OpOr:
		r = 0
		for i := range t.args {
			if a(i) == 1 {
				r = 1
				break
			}
		}
	case OpIte:
		if a(0) == 1 {
			r = a(1)
		} else {
			r = a(2)
		}
	case OpEq:
		r = b2u(a(0) == a(1))
	case OpAdd:
		r = (a(0) + a(1)) & mask(w)
	case OpSub:
		r = (a(0) - a(1)) & mask(w)
	case OpMul:
		r = (a(0) * a(1)) & mask(w)
	case OpUDiv:
		if y := a(1); y == 0 {
			r = mask(w)
		} else {
			r = a(0) / y
		}
	case OpURem:
		if y := a(1); y == 0 {
			r = a(0)
		} else {
			r = a(0) % y
		}
	case OpSDiv:
		x, y := sx(a(0), w), sx(a(1), w)
		switch {
		case y == 0 && x < 0:
			r = 1
		case y == 0:
			r = mask(w)
		case y == -1:
			r = uint64(-x) & mask(w)
		default:
			r = uint64(x/y) & mask(w)
		}
	case OpSRem:
		x, y := sx(a(0), w), sx(a(1), w)
		switch {
		case y == 0:
			r = uint64(x) & mask(w)
		case y == -1:
			r = 0
		default:
			r = uint64(x%y) & mask(w)
		}
	case OpBAnd:
		r = a(0) & a(1)
	case OpBOr:
		r = a(0) | a(1)
	case OpBXor:
		r = a(0) ^ a(1)
	case OpShl:
		if y := a(1); y >= uint64(w) {
			r = 0
		} else {
			r = (a(0) << y) & mask(w)
		}
	case OpLShr:
		if y := a(1); y >= uint64(w) {
			r = 0
		} else {
			r = a(0) >> y
		}
	case OpAShr:
		y := a(1)
		if y >= uint64(w) {
			y = uint64(w - 1)
		}
		r = uint64(sx(a(0), w)>>y) & mask(w)
	case OpNeg:
		r = (-a(0)) & mask(w)
	case OpBNot:
		r = (^a(0)) & mask(w)
	case OpULT:
		r = b2u(a(0) < a(1))
	case OpULE:
		r = b2u(a(0) <= a(1))
	case OpSLT:
		r = b2u(sx(a(0), t.args[0].w) < sx(a(1), t.args[0].w))
	case OpSLE:
		r = b2u(sx(a(0), t.args[0].w) <= sx(a(1), t.args[0].w))
	case OpExtract:
		hi, lo := t.aux>>8, t.aux&0xff
		r = (a(0) >> uint(lo)) & mask(hi-lo+1)
	case OpZExt:
		r = a(0)
	case OpSExt:
		r = uint64(sx(a(0), t.args[0].w)) & mask(w)
	default:
		panic(engineError{"evalTerm: unsupported op"})
	}
	return r
}

// truthTable: bitmap of the values of v for which the boolean term t holds.
func (dt *domTracker) truthTable(t, v *Term) *[4]uint64 {
	if tb, ok := dt.tt[t]; ok {
		return tb
	}
	n := 256
	if v.kind == KBool {
		n = 2
	} else if v.w < 8 {
		n = 1 << uint(v.w)
	}
	vec := evalVec(t, v, n, map[*Term][]uint64{})
	var tb [4]uint64
	for i := 0; i < n; i++ {
		if vec[i] == 1 {
			tb[i>>6] |= 1 << uint(i&63)
		}
	}
	dt.tt[t] = &tb
	return &tb
}

// evalVec evaluates t for v = 0..n-1 in one pass over the DAG.
func evalVec(t, v *Term, n int, memo map[*Term][]uint64) []uint64 {
	return evalVecEnv(t, v, n, nil, memo)
}

func evalVecEnv(t, v *Term, n int, env map[*Term]uint64, memo map[*Term][]uint64) []uint64 {
	if r, ok := memo[t]; ok {
		return r
	}
	out := make([]uint64, n)
	switch t.op {
	case OpConst:
		for i := range out {
			out[i] = t.c
		}
	case OpVar:
		if t == v {
			for i := range out {
				out[i] = uint64(i)
			}
		} else {
			c := env[t]
			for i := range out {
				out[i] = c
			}
		}
	default:
		args := make([][]uint64, len(t.args))
		for k, a := range t.args {
			args[k] = evalVecEnv(a, v, n, env, memo)
		}
		// reuse scalar evaluator on a synthetic node whose args are constants
		tmp := &Term{op: t.op, kind: t.kind, w: t.w, aux: t.aux, args: make([]*Term, len(t.args))}
		consts := make([]Term, len(t.args))
		for k, a := range t.args {
			consts[k] = Term{op: OpConst, kind: a.kind, w: a.w}
			tmp.args[k] = &consts[k]
		}
		for i := 0; i < n; i++ {
			for k := range consts {
				consts[k].c = args[k][i]
			}
			out[i] = evalNode(tmp)
		}
	}
	memo[t] = out
	return out
}
