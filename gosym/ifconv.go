package main

// Minimal if-conversion: triangles/diamonds whose arms contain only pure,
// non-forking instructions are evaluated on both sides and joined with ite at
// the phis of the join block. Anything else falls back to forking.

import (
	"go/token"

	"golang.org/x/tools/go/ssa"
)

type specAbort struct{}

func pureInstr(in ssa.Instruction) bool {
	switch x := in.(type) {
	case *ssa.FieldAddr, *ssa.Field, *ssa.ChangeType, *ssa.Convert, *ssa.Extract, *ssa.DebugRef, *ssa.MakeInterface, *ssa.ChangeInterface:
		return true
	case *ssa.UnOp:
		return x.Op != token.ARROW
	case *ssa.BinOp:
		return x.Op != token.QUO && x.Op != token.REM
	case *ssa.Index, *ssa.IndexAddr:
		return true
	}
	return false
}

// armOf returns the instructions of arm block b if it is a speculable arm
// jumping to join.
func armOf(b, from *ssa.BasicBlock) (*ssa.BasicBlock, bool) {
	if len(b.Preds) != 1 || b.Preds[0] != from || len(b.Succs) != 1 {
		return nil, false
	}
	n := len(b.Instrs)
	if _, ok := b.Instrs[n-1].(*ssa.Jump); !ok {
		return nil, false
	}
	if n > 12 {
		return nil, false
	}
	for _, in := range b.Instrs[:n-1] {
		if !pureInstr(in) {
			return nil, false
		}
	}
	return b.Succs[0], true
}

// trySpeculate attempts to if-convert; returns true if fr has been advanced
// to the join block.
func (ex *Exec) trySpeculate(fr *frame, instr *ssa.If, c *Term) bool {
	if ex.x == nil || ex.noSpec {
		return false
	}
	blk := instr.Block()
	tb, fb := blk.Succs[0], blk.Succs[1]
	var join *ssa.BasicBlock
	var arms []*ssa.BasicBlock // arms[0] = true arm or nil, arms[1] = false arm or nil
	jt, okT := armOf(tb, blk)
	jf, okF := armOf(fb, blk)
	switch {
	case okT && okF && jt == jf:
		join, arms = jt, []*ssa.BasicBlock{tb, fb}
	case okT && jt == fb:
		join, arms = fb, []*ssa.BasicBlock{tb, nil}
	case okF && jf == tb:
		join, arms = tb, []*ssa.BasicBlock{nil, fb}
	default:
		return false
	}
	// join must start with phis only depending on these edges
	ok := true
	var envs [2]map[ssa.Value]Value
	func() {
		defer func() {
			if r := recover(); r != nil {
				switch r.(type) {
				case specAbort, goPanicVal, engineError:
					ok = false
				default:
					panic(r)
				}
			}
		}()
		ex.specDepth++
		defer func() { ex.specDepth-- }()
		for i, arm := range arms {
			if arm == nil {
				continue
			}
			saved := map[ssa.Value]Value{}
			envs[i] = saved
			for _, in := range arm.Instrs[:len(arm.Instrs)-1] {
				ex.visit(fr, in)
				if v, isV := in.(ssa.Value); isV {
					saved[v] = fr.env[v]
				}
			}
		}
	}()
	if !ok {
		return false
	}
	// merge phis
	predOf := func(i int) *ssa.BasicBlock {
		if arms[i] != nil {
			return arms[i]
		}
		return blk
	}
	merged := map[*ssa.Phi]Value{}
	for _, in := range join.Instrs {
		phi, isPhi := in.(*ssa.Phi)
		if !isPhi {
			break
		}
		var vals [2]Value
		for i := 0; i < 2; i++ {
			p := predOf(i)
			found := false
			for k, pred := range join.Preds {
				if pred == p {
					vals[i] = ex.get(fr, phi.Edges[k])
					found = true
					break
				}
			}
			if !found {
				return false
			}
		}
		m, ok := mergeVals(c, vals[0], vals[1])
		if !ok {
			return false
		}
		merged[phi] = m
	}
	for phi, v := range merged {
		fr.env[phi] = v
	}
	fr.prevBlock = blk
	fr.block = join
	fr.specBlock = join
	return true
}

func mergeVals(c *Term, a, b Value) (Value, bool) {
	switch x := a.(type) {
	case *Term:
		y, ok := b.(*Term)
		if !ok || x.kind != y.kind || x.w != y.w {
			return nil, false
		}
		return mkIte(c, x, y), true
	case Str:
		y, ok := b.(Str)
		if !ok || len(x.b) != len(y.b) {
			return nil, false
		}
		nb := make([]*Term, len(x.b))
		for i := range nb {
			nb[i] = mkIte(c, x.b[i], y.b[i])
		}
		return Str{nb}, true
	case *Value:
		y, ok := b.(*Value)
		if ok && x == y {
			return x, true
		}
	case *Map:
		y, ok := b.(*Map)
		if ok && x == y {
			return x, true
		}
	case Struct:
		y, ok := b.(Struct)
		if !ok || len(x) != len(y) {
			return nil, false
		}
		out := make(Struct, len(x))
		for i := range x {
			m, ok := mergeVals(c, x[i], y[i])
			if !ok {
				return nil, false
			}
			out[i] = m
		}
		return out, true
	case Iface:
		y, ok := b.(Iface)
		if !ok {
			return nil, false
		}
		if x.t == nil && y.t == nil {
			return x, true
		}
	}
	return nil, false
}
