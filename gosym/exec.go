package main

import (
	"fmt"
	"go/token"
	"go/types"
	"os"
	"runtime/debug"
	"strings"

	"golang.org/x/tools/go/ssa"
)

type ssaFunc = *ssa.Function

type deferred struct {
	fn     Value
	args   []Value
	instr  *ssa.Defer
	callee *ssa.Function
	tail   *deferred
}

type frame struct {
	ex        *Exec
	caller    *frame
	fn        *ssa.Function
	block     *ssa.BasicBlock
	prevBlock *ssa.BasicBlock
	env       map[ssa.Value]Value
	defers    *deferred
	result    Value
	panicking bool
	panicVal  any
	depth     int
	specBlock *ssa.BasicBlock
	stackLen  int
	cur       ssa.Instruction // instruction being executed (call sites for runtime.Caller)
}

// goPanicVal is a Go-level panic travelling up the interpreter stack.
type goPanicVal struct {
	v   Value
	msg string
}

// pathEnd terminates the current path without error.
type pathEnd struct{ reason string }

type Exec struct {
	prog      *ssa.Program
	globals   map[*ssa.Global]*Value
	pkgInit   map[*ssa.Package]bool
	inInit    int
	steps     int
	maxSteps  int
	maxDepth  int
	undo      []func()
	x         *Explorer
	unsupp    map[string]int // unsupported feature -> count
	curFn     *ssa.Function
	trackFns  map[string]bool // goa functions interpreted (for evidence)
	mapOrder  int             // 0 insertion, 1 reverse, 2 symbolic permutation
	typeCache map[string]types.Type
	hooks     *hookState
	il        *interleaving // verifInterleave: pending preemption of the first invocation
	callTrace []string
	traceOn   bool
	pathState map[string]any
	onceDone  map[string]bool
	noSpec    bool
	specDepth int
	modes     map[string]bool
	stack     []string
}

func (ex *Exec) logUndo(f func()) {
	if ex.inInit == 0 {
		ex.undo = append(ex.undo, f)
	}
}

func (ex *Exec) rollback() {
	for i := len(ex.undo) - 1; i >= 0; i-- {
		ex.undo[i]()
	}
	ex.undo = ex.undo[:0]
}

func (ex *Exec) store(addr *Value, v Value) {
	if addr == nil {
		ex.goPanic("runtime error: invalid memory address or nil pointer dereference")
	}
	ex.storeRec(addr, v)
}

func (ex *Exec) storeRec(addr *Value, v Value) {
	switch x := v.(type) {
	case Struct:
		if lhs, ok := (*addr).(Struct); ok && len(lhs) == len(x) {
			for i := range x {
				ex.storeRec(&lhs[i], x[i])
			}
			return
		}
	case Array:
		if lhs, ok := (*addr).(Array); ok && len(lhs) == len(x) {
			for i := range x {
				ex.storeRec(&lhs[i], x[i])
			}
			return
		}
	}
	if ex.inInit == 0 {
		old := *addr
		ex.undo = append(ex.undo, func() { *addr = old })
		if ex.hooks != nil && ex.hooks.onStore != nil {
			ex.hooks.onStore(addr)
		}
	}
	*addr = copyVal(v)
}

func (ex *Exec) load(addr *Value) Value {
	if addr == nil {
		ex.goPanic("runtime error: invalid memory address or nil pointer dereference")
	}
	if ex.hooks != nil && ex.hooks.onLoad != nil && ex.inInit == 0 {
		ex.hooks.onLoad(addr)
	}
	return copyVal(*addr)
}

func (ex *Exec) goPanic(msg string) {
	panic(goPanicVal{v: Iface{t: types.Typ[types.String], v: mkStr(msg)}, msg: msg})
}

func (ex *Exec) unsupported(format string, args ...any) {
	msg := fmt.Sprintf(format, args...)
	if os.Getenv("GOSYM_STACK") != "" {
		n := len(ex.stack)
		from := n - 8
		if from < 0 {
			from = 0
		}
		msg += " @ " + strings.Join(ex.stack[from:], " > ")
	}
	panic(engineError{"unsupported: " + msg})
}

// ---- globals and package initialisation ----

func (ex *Exec) global(g *ssa.Global) *Value {
	if p, ok := ex.globals[g]; ok {
		return p
	}
	ex.ensureInit(g.Pkg)
	if p, ok := ex.globals[g]; ok {
		return p
	}
	p := new(Value)
	*p = zero(g.Type().(*types.Pointer).Elem())
	ex.globals[g] = p
	return p
}

func (ex *Exec) ensureInit(pkg *ssa.Package) {
	if pkg == nil || ex.pkgInit[pkg] {
		return
	}
	ex.pkgInit[pkg] = true
	// allocate all globals first
	for _, m := range pkg.Members {
		if g, ok := m.(*ssa.Global); ok {
			if _, ok := ex.globals[g]; !ok {
				p := new(Value)
				*p = zero(g.Type().(*types.Pointer).Elem())
				ex.globals[g] = p
			}
		}
	}
	init := pkg.Func("init")
	if init == nil || init.Blocks == nil {
		return
	}
	ex.inInit++
	saveX := ex.x
	defer func() {
		ex.inInit--
		ex.x = saveX
		if r := recover(); r != nil {
			switch r.(type) {
			case engineError, goPanicVal:
				if os.Getenv("GOSYM_DEBUG_INIT") != "" {
					fmt.Fprintf(os.Stderr, "init of %s aborted: %v\n", pkg.Pkg.Path(), r)
				}
			default:
				panic(r)
			}
		}
	}()
	ex.x = nil // no symbolic decisions inside package initialisers
	ex.callFunction(nil, init, nil, nil)
}

// ---- calls ----

func (ex *Exec) callFunction(caller *frame, fn *ssa.Function, args []Value, env []Value) Value {
	if h := lookupIntrinsic(fn); h != nil {
		if r := h(ex, caller, fn, args); r != Value(passThrough) {
			return r
		}
		// the intrinsic only guards the call: interpret the body
	}
	if fn.Blocks == nil {
		// external without body
		if strings.HasPrefix(fn.Name(), "nondet") || strings.HasPrefix(fn.Name(), "verif") {
			return ex.harnessCall(caller, fn, args)
		}
		ex.unsupported("external function %s", fn.String())
	}
	if ex.inInit > 0 && fn.Synthetic == "package initializer" && caller != nil {
		// dependency initialisers run lazily
		return nil
	}
	depth := 0
	if caller != nil {
		depth = caller.depth + 1
	}
	if depth > ex.maxDepth {
		if ex.modes["depth-limit-is-nontermination"] {
			// the harness claims termination: unbounded recursion is Go's fatal
			// stack overflow, reported as a panic candidate and confirmed natively
			ex.goPanic("stack overflow (call depth " + fmt.Sprint(ex.maxDepth) + " exceeded in " + fn.String() + ")")
		}
		ex.unsupported("call depth exceeded in %s", fn.String())
	}
	if fn.Pkg != nil && ex.trackFns != nil && ex.inInit == 0 {
		ex.trackFns[fn.String()] = true
	}
	if ex.traceOn {
		ex.callTrace = append(ex.callTrace, strings.Repeat(" ", depth)+fn.String())
	}
	ex.stack = append(ex.stack, fn.String())
	fr := &frame{ex: ex, caller: caller, fn: fn, depth: depth, stackLen: len(ex.stack)}
	fr.env = make(map[ssa.Value]Value, 16)
	fr.block = fn.Blocks[0]
	for i, p := range fn.Params {
		fr.env[p] = args[i]
	}
	for i, fv := range fn.FreeVars {
		fr.env[fv] = env[i]
	}
	for fr.block != nil {
		ex.runFrame(fr)
	}
	ex.stack = ex.stack[:fr.stackLen-1]
	return fr.result
}

func (ex *Exec) runFrame(fr *frame) {
	defer func() {
		if fr.block == nil {
			return // normal return
		}
		r := recover()
		gp, ok := r.(goPanicVal)
		if !ok {
			panic(r) // engine control flow: propagate untouched
		}
		fr.panicking = true
		fr.panicVal = gp
		ex.stack = ex.stack[:fr.stackLen]
		ex.runDefers(fr)
		fr.block = fr.fn.Recover
		if fr.block == nil {
			// function has no recover block: results are zero values
			fr.result = zeroResults(fr.fn)
		}
	}()
	for {
		instrs := fr.block.Instrs
		jumped := false
		for _, instr := range instrs {
			ex.steps++
			if ex.steps > ex.maxSteps {
				ex.unsupported("step budget exhausted (%d)", ex.maxSteps)
			}
			fr.cur = instr
			switch ex.visit(fr, instr) {
			case kReturn:
				return
			case kJump:
				jumped = true
			}
			if jumped {
				break
			}
		}
		if !jumped {
			panic("block fell through")
		}
	}
}

func zeroResults(fn *ssa.Function) Value {
	res := fn.Signature.Results()
	switch res.Len() {
	case 0:
		return nil
	case 1:
		return zero(res.At(0).Type())
	}
	return zero(res)
}

func (ex *Exec) runDefers(fr *frame) {
	for d := fr.defers; d != nil; d = d.tail {
		fr.defers = d.tail
		ex.callDeferred(fr, d)
	}
	fr.defers = nil
	if fr.panicking {
		panic(fr.panicVal)
	}
}

func (ex *Exec) callDeferred(fr *frame, d *deferred) {
	ok := false
	defer func() {
		if !ok {
			r := recover()
			if gp, isGo := r.(goPanicVal); isGo {
				// a panic in a deferred call replaces the current one
				fr.panicking = true
				fr.panicVal = gp
				return
			}
			panic(r)
		}
	}()
	ex.callValue(fr, d.fn, d.args, d.instr.Common())
	ok = true
}

// callValue calls a function value (closure, bound method...).
func (ex *Exec) callValue(caller *frame, fv Value, args []Value, cc *ssa.CallCommon) Value {
	switch f := fv.(type) {
	case *ssa.Function:
		return ex.callFunction(caller, f, args, nil)
	case *Closure:
		if f == nil {
			ex.goPanic("runtime error: invalid memory address or nil pointer dereference (nil func call)")
		}
		if f.native != nil {
			return f.native(ex, args)
		}
		return ex.callFunction(caller, f.fn, args, f.env)
	case *ssa.Builtin:
		return ex.callBuiltin(caller, f, args, cc)
	}
	panic(engineError{fmt.Sprintf("unsupported: call of %T", fv)})
}

func (ex *Exec) prepareCall(fr *frame, cc *ssa.CallCommon) (Value, []Value) {
	var fv Value
	var args []Value
	if cc.Method == nil {
		switch v := cc.Value.(type) {
		case *ssa.Function:
			fv = v
		case *ssa.Builtin:
			fv = v
		default:
			fv = ex.get(fr, cc.Value)
		}
	} else {
		recv := ex.get(fr, cc.Value)
		iface, ok := recv.(Iface)
		if !ok {
			panic(engineError{fmt.Sprintf("invoke on non-interface %T", recv)})
		}
		if iface.t == nil {
			ex.goPanic("runtime error: invalid memory address or nil pointer dereference (method call on nil interface)")
		}
		fn := ex.lookupMethod(iface.t, cc.Method)
		if fn == nil {
			ex.unsupported("method %s not found on %s", cc.Method.Name(), iface.t)
		}
		fv = fn
		args = append(args, iface.v)
	}
	for _, a := range cc.Args {
		args = append(args, ex.get(fr, a))
	}
	return fv, args
}

func (ex *Exec) lookupMethod(t types.Type, m *types.Func) *ssa.Function {
	ms := ex.prog.MethodSets.MethodSet(t)
	sel := ms.Lookup(m.Pkg(), m.Name())
	if sel == nil {
		return nil
	}
	return ex.prog.MethodValue(sel)
}

func (ex *Exec) lookupMethodByName(t types.Type, pkg *types.Package, name string) *ssa.Function {
	ms := ex.prog.MethodSets.MethodSet(t)
	sel := ms.Lookup(pkg, name)
	if sel == nil {
		return nil
	}
	return ex.prog.MethodValue(sel)
}

// callMethod calls method `name` (exported) on an interface value.
func (ex *Exec) callMethod(caller *frame, iv Iface, name string, args ...Value) Value {
	if iv.t == nil {
		ex.goPanic("runtime error: nil interface method call")
	}
	fn := ex.lookupMethodByName(iv.t, nil, name)
	if fn == nil {
		ex.unsupported("method %s not found on %s", name, iv.t)
	}
	return ex.callFunction(caller, fn, append([]Value{iv.v}, args...), nil)
}

// ---- instruction interpretation ----

type cont int

const (
	kNext cont = iota
	kReturn
	kJump
)

func (ex *Exec) get(fr *frame, v ssa.Value) Value {
	switch v := v.(type) {
	case *ssa.Const:
		if v.Value == nil {
			return zero(v.Type())
		}
		return constValue(v.Value, v.Type())
	case *ssa.Global:
		return ex.global(v)
	case *ssa.Function:
		return &Closure{fn: v}
	case *ssa.Builtin:
		return v
	}
	if r, ok := fr.env[v]; ok {
		return r
	}
	panic(engineError{fmt.Sprintf("get: no value for %T %v = %s in %s", v, v.Name(), v, fr.fn)})
}

func (ex *Exec) visit(fr *frame, instr ssa.Instruction) cont {
	switch instr := instr.(type) {
	case *ssa.DebugRef:
	case *ssa.UnOp:
		fr.env[instr] = ex.unop(fr, instr, ex.get(fr, instr.X))
	case *ssa.BinOp:
		fr.env[instr] = ex.binop(instr.Op, instr.X.Type(), ex.get(fr, instr.X), ex.get(fr, instr.Y), instr.Y.Type())
	case *ssa.Call:
		fv, args := ex.prepareCall(fr, &instr.Call)
		if ex.inInit > 0 {
			fr.env[instr] = ex.tolerantCall(fr, fv, args, instr)
		} else {
			fr.env[instr] = ex.callValue(fr, fv, args, &instr.Call)
		}
	case *ssa.ChangeInterface:
		fr.env[instr] = ex.get(fr, instr.X)
	case *ssa.ChangeType:
		fr.env[instr] = ex.get(fr, instr.X)
	case *ssa.Convert:
		fr.env[instr] = ex.convert(instr.X.Type(), instr.Type(), ex.get(fr, instr.X))
	case *ssa.SliceToArrayPointer:
		s := ex.get(fr, instr.X).(Slice)
		n := int(instr.Type().(*types.Pointer).Elem().Underlying().(*types.Array).Len())
		if len(s.a) < n {
			ex.goPanic("runtime error: cannot convert slice to array pointer")
		}
		arr := Array(s.a[:n:n])
		var v Value = arr
		fr.env[instr] = &v
	case *ssa.MakeInterface:
		fr.env[instr] = Iface{t: instr.X.Type(), v: ex.get(fr, instr.X)}
	case *ssa.Extract:
		fr.env[instr] = ex.get(fr, instr.Tuple).(Tuple)[instr.Index]
	case *ssa.Slice:
		fr.env[instr] = ex.sliceOp(fr, instr)
	case *ssa.Return:
		switch len(instr.Results) {
		case 0:
		case 1:
			fr.result = ex.get(fr, instr.Results[0])
		default:
			res := make(Tuple, len(instr.Results))
			for i, r := range instr.Results {
				res[i] = ex.get(fr, r)
			}
			fr.result = res
		}
		fr.block = nil
		return kReturn
	case *ssa.RunDefers:
		ex.runDefers(fr)
	case *ssa.Panic:
		v := ex.get(fr, instr.X)
		panic(goPanicVal{v: v, msg: ex.panicMessage(fr, v)})
	case *ssa.Send, *ssa.Select, *ssa.Go:
		ex.unsupported("%T in %s", instr, fr.fn)
	case *ssa.Store:
		ex.store(ex.get(fr, instr.Addr).(*Value), ex.get(fr, instr.Val))
	case *ssa.If:
		c := ex.get(fr, instr.Cond).(*Term)
		fr.specBlock = nil
		if !c.isConst() && ex.trySpeculate(fr, instr, c) {
			return kJump
		}
		succ := 1
		if ex.decide(c) {
			succ = 0
		}
		fr.prevBlock, fr.block = fr.block, fr.block.Succs[succ]
		return kJump
	case *ssa.Jump:
		fr.specBlock = nil
		fr.prevBlock, fr.block = fr.block, fr.block.Succs[0]
		return kJump
	case *ssa.Defer:
		fv, args := ex.prepareCall(fr, &instr.Call)
		fr.defers = &deferred{fn: fv, args: args, instr: instr, tail: fr.defers}
	case *ssa.Alloc:
		p := new(Value)
		*p = zero(instr.Type().(*types.Pointer).Elem())
		if ex.hooks != nil && ex.hooks.onAlloc != nil {
			ex.hooks.onAlloc(p)
		}
		fr.env[instr] = p
	case *ssa.MakeSlice:
		n := ex.concreteInt(ex.get(fr, instr.Len).(*Term), "make len")
		c := ex.concreteInt(ex.get(fr, instr.Cap).(*Term), "make cap")
		if n < 0 || c < n || c > 1<<24 {
			ex.goPanic("runtime error: makeslice: len out of range")
		}
		et := instr.Type().Underlying().(*types.Slice).Elem()
		a := make([]Value, n, c)
		for i := range a {
			a[i] = zero(et)
		}
		if ex.hooks != nil && ex.hooks.onAlloc != nil {
			for i := range a {
				ex.hooks.onAlloc(&a[i])
			}
		}
		fr.env[instr] = Slice{a}
	case *ssa.MakeMap:
		m := newMap()
		if ex.hooks != nil && ex.hooks.onAllocMap != nil {
			ex.hooks.onAllocMap(m)
		}
		fr.env[instr] = m
	case *ssa.MakeChan:
		ex.unsupported("make chan in %s", fr.fn)
	case *ssa.MakeClosure:
		var env []Value
		for _, b := range instr.Bindings {
			env = append(env, ex.get(fr, b))
		}
		fr.env[instr] = &Closure{fn: instr.Fn.(*ssa.Function), env: env}
	case *ssa.Phi:
		if fr.specBlock == instr.Block() {
			break
		}
		for i, pred := range instr.Block().Preds {
			if fr.prevBlock == pred {
				fr.env[instr] = ex.get(fr, instr.Edges[i])
				break
			}
		}
	case *ssa.FieldAddr:
		p := ex.get(fr, instr.X).(*Value)
		if p == nil {
			ex.goPanic("runtime error: invalid memory address or nil pointer dereference")
		}
		s, ok := (*p).(Struct)
		if !ok {
			panic(engineError{fmt.Sprintf("FieldAddr on %T in %s", *p, fr.fn)})
		}
		fr.env[instr] = &s[instr.Field]
	case *ssa.Field:
		fr.env[instr] = copyVal(ex.get(fr, instr.X).(Struct)[instr.Field])
	case *ssa.IndexAddr:
		x := ex.get(fr, instr.X)
		idx := ex.get(fr, instr.Index).(*Term)
		switch x := x.(type) {
		case *Value:
			if x == nil {
				ex.goPanic("runtime error: invalid memory address or nil pointer dereference")
			}
			arr := (*x).(Array)
			if !idx.isConst() && ex.onlyLoaded(instr) {
				if _, ok := ex.symSelect(arr, idx); ok {
					if !ex.decide(ex.inRangeTerm(idx, instr.Index.Type(), len(arr))) {
						ex.goPanic(fmt.Sprintf("runtime error: index out of range [symbolic] with length %d", len(arr)))
					}
					fr.env[instr] = &SymPtr{arr: arr, idx: idx}
					break
				}
			}
			i := ex.indexIn(idx, instr.Index.Type(), len(arr))
			fr.env[instr] = &arr[i]
		case Slice:
			if !idx.isConst() && ex.onlyLoaded(instr) {
				if _, ok := ex.symSelect(x.a, idx); ok {
					if !ex.decide(ex.inRangeTerm(idx, instr.Index.Type(), len(x.a))) {
						ex.goPanic(fmt.Sprintf("runtime error: index out of range [symbolic] with length %d", len(x.a)))
					}
					fr.env[instr] = &SymPtr{arr: x.a, idx: idx}
					break
				}
			}
			i := ex.indexIn(idx, instr.Index.Type(), len(x.a))
			fr.env[instr] = &x.a[i]
		default:
			panic(engineError{fmt.Sprintf("IndexAddr on %T", x)})
		}
	case *ssa.Index:
		x := ex.get(fr, instr.X)
		idx := ex.get(fr, instr.Index).(*Term)
		switch x := x.(type) {
		case Array:
			i := ex.indexIn(idx, instr.Index.Type(), len(x))
			fr.env[instr] = copyVal(x[i])
		case Str:
			fr.env[instr] = ex.strIndex(x, idx, instr.Index.Type())
		default:
			panic(engineError{fmt.Sprintf("Index on %T", x)})
		}
	case *ssa.Lookup:
		fr.env[instr] = ex.lookup(fr, instr)
	case *ssa.MapUpdate:
		m := ex.get(fr, instr.Map).(*Map)
		ex.mapUpdate(m, ex.get(fr, instr.Key), ex.get(fr, instr.Value))
	case *ssa.TypeAssert:
		fr.env[instr] = ex.typeAssert(instr, ex.get(fr, instr.X).(Iface))
	case *ssa.Range:
		fr.env[instr] = ex.rangeIter(ex.get(fr, instr.X), instr.X.Type())
	case *ssa.Next:
		fr.env[instr] = ex.get(fr, instr.Iter).(*iterator).next(ex)
	case *ssa.MultiConvert:
		ex.unsupported("MultiConvert in %s", fr.fn)
	default:
		panic(engineError{fmt.Sprintf("unsupported: instruction %T in %s", instr, fr.fn)})
	}
	return kNext
}

func (ex *Exec) tolerantCall(fr *frame, fv Value, args []Value, instr *ssa.Call) (res Value) {
	defer func() {
		if r := recover(); r != nil {
			switch e := r.(type) {
			case engineError:
				if os.Getenv("GOSYM_DEBUG_INIT") != "" {
					fmt.Fprintf(os.Stderr, "init: tolerated %v at %s\n", e.msg, ex.prog.Fset.Position(instr.Pos()))
				}
				res = zeroOfCall(instr)
			case goPanicVal:
				// a Go panic inside one initialiser expression (typically a nil
				// reflect.Type produced by a tolerated reflect call): give up on
				// that expression only, the other globals are still initialised
				if os.Getenv("GOSYM_DEBUG_INIT") != "" {
					fmt.Fprintf(os.Stderr, "init: tolerated panic %v at %s\n", e.msg, ex.prog.Fset.Position(instr.Pos()))
				}
				res = zeroOfCall(instr)
			default:
				panic(r)
			}
		}
	}()
	return ex.callValue(fr, fv, args, &instr.Call)
}

func zeroOfCall(instr *ssa.Call) Value {
	t := instr.Type()
	if tp, ok := t.(*types.Tuple); ok {
		if tp.Len() == 0 {
			return nil
		}
		return zero(tp)
	}
	return zero(t)
}

func (ex *Exec) panicMessage(fr *frame, v Value) string {
	iv, ok := v.(Iface)
	if !ok || iv.t == nil {
		return "panic(nil)"
	}
	if s, ok := iv.v.(Str); ok {
		return "panic: " + s.String()
	}
	// error or Stringer: try Error()
	if fn := ex.lookupMethodByName(iv.t, nil, "Error"); fn != nil {
		var msg string
		func() {
			defer func() {
				if r := recover(); r != nil {
					msg = fmt.Sprintf("<%v>", r)
				}
			}()
			if s, ok := ex.callFunction(fr, fn, []Value{iv.v}, nil).(Str); ok {
				msg = s.String()
			}
		}()
		return "panic: error " + msg
	}
	return "panic: " + describe(v)
}

// indexIn resolves an index term to a concrete in-range index (forking and
// panicking as Go would).
func (ex *Exec) indexIn(idx *Term, it types.Type, n int) int {
	if idx.isConst() {
		i := idx.sval()
		if !isSigned(it) {
			i = int64(idx.c)
		}
		if i < 0 || i >= int64(n) {
			ex.goPanic(fmt.Sprintf("runtime error: index out of range [%d] with length %d", i, n))
		}
		return int(i)
	}
	// symbolic index: out-of-range check, then concretise
	if !ex.decide(ex.inRangeTerm(idx, it, n)) {
		ex.goPanic(fmt.Sprintf("runtime error: index out of range [symbolic] with length %d", n))
	}
	return int(ex.concretize(idx))
}

// inRangeTerm: 0 <= idx < n for an index of Go type it.
func (ex *Exec) inRangeTerm(idx *Term, it types.Type, n int) *Term {
	var wide *Term
	if isSigned(it) {
		wide = mkSExt(idx, 64)
	} else {
		wide = mkZExt(idx, 64)
	}
	return mkCmp(OpULT, wide, mkBV(64, uint64(n)))
}

// SymPtr is the address of arr[idx] for a symbolic idx into a table of
// scalars; loads become an ite chain, anything else concretises the index.
type SymPtr struct {
	arr []Value
	idx *Term
}

func (ex *Exec) symSelect(arr []Value, idx *Term) (Value, bool) {
	// all elements must be terms of one sort
	var first *Term
	for _, e := range arr {
		t, ok := e.(*Term)
		if !ok {
			return nil, false
		}
		if first == nil {
			first = t
		} else if t.kind != first.kind || t.w != first.w {
			return nil, false
		}
	}
	if first == nil || len(arr) > 1024 {
		return nil, false
	}
	// group by value: default = most common
	groups := map[*Term][]int{}
	var order []*Term
	for i, e := range arr {
		t := e.(*Term)
		if _, ok := groups[t]; !ok {
			order = append(order, t)
		}
		groups[t] = append(groups[t], i)
	}
	def := order[0]
	for _, t := range order {
		if len(groups[t]) > len(groups[def]) {
			def = t
		}
	}
	res := def
	for _, t := range order {
		if t == def {
			continue
		}
		var cs []*Term
		for _, i := range groups[t] {
			cs = append(cs, mkEq(idx, mkBV(idx.w, uint64(i))))
		}
		res = mkIte(mkOr(cs...), t, res)
	}
	return res, true
}

// onlyLoaded reports whether every use of the address is a load.
func (ex *Exec) onlyLoaded(instr *ssa.IndexAddr) bool {
	refs := instr.Referrers()
	if refs == nil {
		return false
	}
	for _, r := range *refs {
		u, ok := r.(*ssa.UnOp)
		if !ok || u.Op != token.MUL {
			if _, isDbg := r.(*ssa.DebugRef); isDbg {
				continue
			}
			return false
		}
	}
	return true
}

func (ex *Exec) concreteInt(t *Term, what string) int {
	if t.isConst() {
		return int(t.sval())
	}
	return int(int64(ex.concretize(mkSExt(t, 64))))
}

func (ex *Exec) strIndex(s Str, idx *Term, it types.Type) Value {
	if idx.isConst() {
		i := int(idx.sval())
		if i < 0 || i >= len(s.b) {
			ex.goPanic(fmt.Sprintf("runtime error: index out of range [%d] with length %d", i, len(s.b)))
		}
		return s.b[i]
	}
	if !ex.decide(ex.inRangeTerm(idx, it, len(s.b))) {
		ex.goPanic("runtime error: string index out of range [symbolic]")
	}
	if len(s.b) <= 64 {
		res := s.b[len(s.b)-1]
		for i := len(s.b) - 2; i >= 0; i-- {
			res = mkIte(mkEq(idx, mkBV(idx.w, uint64(i))), s.b[i], res)
		}
		return res
	}
	return s.b[ex.concretize(idx)]
}

func (ex *Exec) sliceOp(fr *frame, instr *ssa.Slice) Value {
	x := ex.get(fr, instr.X)
	bound := func(v ssa.Value, def int) int {
		if v == nil {
			return def
		}
		return ex.concreteInt(ex.get(fr, v).(*Term), "slice bound")
	}
	switch x := x.(type) {
	case Str:
		lo := bound(instr.Low, 0)
		hi := bound(instr.High, len(x.b))
		if lo < 0 || hi < lo || hi > len(x.b) {
			ex.goPanic(fmt.Sprintf("runtime error: slice bounds out of range [%d:%d] with length %d", lo, hi, len(x.b)))
		}
		return Str{x.b[lo:hi:hi]}
	case Slice:
		lo := bound(instr.Low, 0)
		hi := bound(instr.High, len(x.a))
		max := bound(instr.Max, cap(x.a))
		if lo < 0 || hi < lo || max < hi || max > cap(x.a) {
			ex.goPanic(fmt.Sprintf("runtime error: slice bounds out of range [%d:%d:%d] with capacity %d", lo, hi, max, cap(x.a)))
		}
		if x.a == nil {
			return Slice{}
		}
		return Slice{x.a[lo:hi:max]}
	case *Value:
		if x == nil {
			ex.goPanic("runtime error: nil array pointer slice")
		}
		arr := (*x).(Array)
		lo := bound(instr.Low, 0)
		hi := bound(instr.High, len(arr))
		max := bound(instr.Max, len(arr))
		if lo < 0 || hi < lo || max < hi || max > len(arr) {
			ex.goPanic("runtime error: slice bounds out of range")
		}
		return Slice{[]Value(arr)[lo:hi:max]}
	}
	panic(engineError{fmt.Sprintf("slice of %T", x)})
}

func (ex *Exec) lookup(fr *frame, instr *ssa.Lookup) Value {
	x := ex.get(fr, instr.X)
	switch x := x.(type) {
	case Str:
		return ex.strIndex(x, ex.get(fr, instr.Index).(*Term), instr.Index.Type())
	case *Map:
		key := ex.get(fr, instr.Index)
		e := ex.mapFind(x, key)
		var v Value
		if e != nil {
			v = copyVal(e.v)
		} else {
			v = zero(instr.X.Type().Underlying().(*types.Map).Elem())
		}
		if ex.hooks != nil && ex.hooks.onMapRead != nil && x != nil {
			ex.hooks.onMapRead(x)
		}
		if instr.CommaOk {
			return Tuple{v, mkBool(e != nil)}
		}
		return v
	}
	panic(engineError{fmt.Sprintf("lookup on %T", x)})
}

func (ex *Exec) mapUpdate(m *Map, key, val Value) {
	if m == nil {
		ex.goPanic("assignment to entry in nil map")
	}
	if ex.hooks != nil && ex.hooks.onMapWrite != nil && ex.inInit == 0 {
		ex.hooks.onMapWrite(m)
	}
	if ex.inInit == 0 {
		// snapshot for undo
		oldEntries := append([]*mapEntry(nil), m.entries...)
		oldVals := make([]mapEntry, len(m.entries))
		for i, e := range m.entries {
			oldVals[i] = *e
		}
		oldIdx := make(map[string]int, len(m.idx))
		for k, v := range m.idx {
			oldIdx[k] = v
		}
		oldConc := m.allConc
		ex.undo = append(ex.undo, func() {
			m.entries = oldEntries
			for i, e := range m.entries {
				*e = oldVals[i]
			}
			m.idx = oldIdx
			m.allConc = oldConc
		})
	}
	ex.mapSet(m, key, copyVal(val))
}

func (ex *Exec) mapDel(m *Map, key Value) {
	if m == nil {
		return
	}
	if ex.hooks != nil && ex.hooks.onMapWrite != nil && ex.inInit == 0 {
		ex.hooks.onMapWrite(m)
	}
	if ex.inInit == 0 {
		oldEntries := append([]*mapEntry(nil), m.entries...)
		oldVals := make([]mapEntry, len(m.entries))
		for i, e := range m.entries {
			oldVals[i] = *e
		}
		oldIdx := make(map[string]int, len(m.idx))
		for k, v := range m.idx {
			oldIdx[k] = v
		}
		oldConc := m.allConc
		ex.undo = append(ex.undo, func() {
			m.entries = oldEntries
			for i, e := range m.entries {
				*e = oldVals[i]
			}
			m.idx = oldIdx
			m.allConc = oldConc
		})
	}
	ex.mapDelete(m, key)
}

func (ex *Exec) typeAssert(instr *ssa.TypeAssert, iv Iface) Value {
	ok := false
	var res Value
	if it, isIface := instr.AssertedType.Underlying().(*types.Interface); isIface {
		if iv.t != nil && types.Implements(iv.t, it) {
			ok = true
			res = iv
		} else {
			res = Iface{}
		}
	} else {
		if iv.t != nil && types.Identical(iv.t, instr.AssertedType) {
			ok = true
			res = iv.v
		} else {
			res = zero(instr.AssertedType)
		}
	}
	if instr.CommaOk {
		return Tuple{res, mkBool(ok)}
	}
	if !ok {
		ts := "nil"
		if iv.t != nil {
			ts = iv.t.String()
		}
		ex.goPanic(fmt.Sprintf("interface conversion: interface is %s, not %s", ts, instr.AssertedType))
	}
	return res
}

// ---- iteration ----

type iterator struct {
	// string iteration
	str  *Str
	pos  int
	// map iteration
	m       *Map
	entries []*mapEntry
	kt, vt  types.Type
}

func (ex *Exec) rangeIter(x Value, t types.Type) Value {
	switch x := x.(type) {
	case Str:
		return &iterator{str: &x}
	case *Map:
		it := &iterator{m: x}
		if x != nil {
			if ex.hooks != nil && ex.hooks.onMapRead != nil {
				ex.hooks.onMapRead(x)
			}
			live := x.live()
			switch ex.mapOrder {
			case 1:
				for i, j := 0, len(live)-1; i < j; i, j = i+1, j-1 {
					live[i], live[j] = live[j], live[i]
				}
			case 2:
				// symbolic permutation: fork over all orders
				n := len(live)
				perm := make([]*mapEntry, 0, n)
				rest := append([]*mapEntry(nil), live...)
				for len(rest) > 1 {
					k := ex.choose(len(rest))
					perm = append(perm, rest[k])
					rest = append(rest[:k:k], rest[k+1:]...)
				}
				perm = append(perm, rest...)
				live = perm
			}
			it.entries = live
		}
		mt := t.Underlying().(*types.Map)
		it.kt, it.vt = mt.Key(), mt.Elem()
		return it
	}
	panic(engineError{fmt.Sprintf("range over %T", x)})
}

func (it *iterator) next(ex *Exec) Value {
	if it.str != nil {
		if it.pos >= len(it.str.b) {
			return Tuple{tFalse, mkBV(64, 0), mkBV(32, 0)}
		}
		r, size := ex.decodeRune(it.str.b[it.pos:])
		idx := it.pos
		it.pos += size
		return Tuple{tTrue, mkBV(64, uint64(idx)), r}
	}
	for it.pos < len(it.entries) {
		e := it.entries[it.pos]
		it.pos++
		if e.deleted {
			continue
		}
		return Tuple{tTrue, e.k, copyVal(e.v)}
	}
	return Tuple{tFalse, zero(it.kt), zero(it.vt)}
}

// decodeRune decodes one UTF-8 sequence from symbolic bytes, forking on the
// encoding class exactly like utf8.DecodeRune.
func (ex *Exec) decodeRune(b []*Term) (*Term, int) {
	if len(b) == 0 {
		return mkBV(32, 0xFFFD), 0
	}
	b0 := b[0]
	inr := func(x *Term, lo, hi byte) *Term {
		return mkAnd(mkCmp(OpULE, mkByte(lo), x), mkCmp(OpULE, x, mkByte(hi)))
	}
	if ex.decide(mkCmp(OpULT, b0, mkByte(0x80))) {
		return mkZExt(b0, 32), 1
	}
	z := func(x *Term) *Term { return mkZExt(x, 32) }
	and := func(x *Term, m uint64) *Term { return mkBin(OpBAnd, z(x), mkBV(32, m)) }
	shl := func(x *Term, n uint64) *Term { return mkBin(OpShl, x, mkBV(32, n)) }
	or := func(xs ...*Term) *Term {
		r := xs[0]
		for _, x := range xs[1:] {
			r = mkBin(OpBOr, r, x)
		}
		return r
	}
	if len(b) >= 2 {
		v2 := mkAnd(inr(b0, 0xC2, 0xDF), inr(b[1], 0x80, 0xBF))
		if ex.decide(v2) {
			return or(shl(and(b0, 0x1F), 6), and(b[1], 0x3F)), 2
		}
	}
	if len(b) >= 3 {
		c1 := mkOr(
			mkAnd(mkEq(b0, mkByte(0xE0)), inr(b[1], 0xA0, 0xBF)),
			mkAnd(mkOr(inr(b0, 0xE1, 0xEC), inr(b0, 0xEE, 0xEF)), inr(b[1], 0x80, 0xBF)),
			mkAnd(mkEq(b0, mkByte(0xED)), inr(b[1], 0x80, 0x9F)))
		v3 := mkAnd(c1, inr(b[2], 0x80, 0xBF))
		if ex.decide(v3) {
			return or(shl(and(b0, 0x0F), 12), shl(and(b[1], 0x3F), 6), and(b[2], 0x3F)), 3
		}
	}
	if len(b) >= 4 {
		c1 := mkOr(
			mkAnd(mkEq(b0, mkByte(0xF0)), inr(b[1], 0x90, 0xBF)),
			mkAnd(inr(b0, 0xF1, 0xF3), inr(b[1], 0x80, 0xBF)),
			mkAnd(mkEq(b0, mkByte(0xF4)), inr(b[1], 0x80, 0x8F)))
		v4 := mkAnd(c1, inr(b[2], 0x80, 0xBF), inr(b[3], 0x80, 0xBF))
		if ex.decide(v4) {
			return or(shl(and(b0, 0x07), 18), shl(and(b[1], 0x3F), 12), shl(and(b[2], 0x3F), 6), and(b[3], 0x3F)), 4
		}
	}
	return mkBV(32, 0xFFFD), 1
}

// encodeRune encodes a rune term to UTF-8 bytes, forking on the size class.
func (ex *Exec) encodeRune(r *Term) []*Term {
	r = mkSExt(r, 32)
	if r.w != 32 {
		r = mkExtract(r, 31, 0)
	}
	c := func(v uint64) *Term { return mkBV(32, v) }
	b := func(x *Term) *Term { return mkExtract(x, 7, 0) }
	shr := func(x *Term, n uint64) *Term { return mkBin(OpLShr, x, c(n)) }
	and := func(x *Term, m uint64) *Term { return mkBin(OpBAnd, x, c(m)) }
	or := func(x *Term, m uint64) *Term { return mkBin(OpBOr, x, c(m)) }
	if ex.decide(mkCmp(OpULE, r, c(0x7F))) {
		return []*Term{b(r)}
	}
	if ex.decide(mkCmp(OpULE, r, c(0x7FF))) {
		return []*Term{b(or(shr(r, 6), 0xC0)), b(or(and(r, 0x3F), 0x80))}
	}
	invalid := mkOr(mkCmp(OpULT, c(0x10FFFF), r), mkAnd(mkCmp(OpULE, c(0xD800), r), mkCmp(OpULE, r, c(0xDFFF))))
	if ex.decide(invalid) {
		return []*Term{mkByte(0xEF), mkByte(0xBF), mkByte(0xBD)}
	}
	if ex.decide(mkCmp(OpULE, r, c(0xFFFF))) {
		return []*Term{b(or(shr(r, 12), 0xE0)), b(or(and(shr(r, 6), 0x3F), 0x80)), b(or(and(r, 0x3F), 0x80))}
	}
	return []*Term{b(or(shr(r, 18), 0xF0)), b(or(and(shr(r, 12), 0x3F), 0x80)), b(or(and(shr(r, 6), 0x3F), 0x80)), b(or(and(r, 0x3F), 0x80))}
}

// ---- top level path execution ----

type pathResult struct {
	outcome string // "ok", "panic", "unsupported", "pruned", "engine-bug"
	detail  string
}

func (ex *Exec) runPath(h *ssa.Function) (res pathResult) {
	ex.steps = 0
	ex.stack = ex.stack[:0]
	defer func() {
		r := recover()
		switch e := r.(type) {
		case nil:
		case pathEnd:
			res = pathResult{"pruned", e.reason}
		case goPanicVal:
			res = pathResult{"panic", e.msg}
		case engineError:
			msg := e.msg
			if os.Getenv("GOSYM_STACK") != "" && !strings.Contains(msg, " @ ") {
				n := len(ex.stack)
				from := n - 8
				if from < 0 {
					from = 0
				}
				msg += " @ " + strings.Join(ex.stack[from:], " > ")
			}
			res = pathResult{"unsupported", msg}
		default:
			res = pathResult{"engine-bug", fmt.Sprintf("%v\n%s", r, debug.Stack())}
		}
		ex.rollback()
	}()
	ex.callFunction(nil, h, nil, nil)
	return pathResult{"ok", ""}
}

func (ex *Exec) posOf(p token.Pos) string { return ex.prog.Fset.Position(p).String() }
