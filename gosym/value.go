package main

import (
	"fmt"
	"go/constant"
	"go/types"
	"strings"
)

// Value is one of:
//   *Term            bool / integer / float scalars
//   Str              string (concrete length, symbolic bytes)
//   *Value           pointer (nil = typed nil pointer)
//   Struct, Array    aggregates (stored in place)
//   Slice            slice header over a Go slice of Values
//   *Map             map (nil = nil map)
//   Iface            interface value (t == nil: nil interface)
//   *Closure         function value (nil = nil func)
//   Tuple            multiple results
//   Native           opaque native Go value
//   *iterator        range state
type Value interface{}

type Str struct{ b []*Term }

type Struct []Value
type Array []Value
type Slice struct{ a []Value }
type Tuple []Value
type Native struct{ v any }

type Iface struct {
	t types.Type
	v Value
}

type Closure struct {
	fn   ssaFunc
	env  []Value
	recv Value // for bound builtin-like closures (unused)
	// go-native implementation (used for harness-installed stubs)
	native func(ex *Exec, args []Value) Value
	name   string
}

type mapEntry struct {
	k, v    Value
	deleted bool
}

type Map struct {
	entries []*mapEntry
	idx     map[string]int // concrete-key index
	allConc bool
	id      int
}

func mkStr(s string) Str {
	b := make([]*Term, len(s))
	for i := 0; i < len(s); i++ {
		b[i] = byteConsts[s[i]]
	}
	return Str{b}
}

func (s Str) concrete() (string, bool) {
	var sb strings.Builder
	for _, t := range s.b {
		if !t.isConst() {
			return "", false
		}
		sb.WriteByte(byte(t.c))
	}
	return sb.String(), true
}

func (s Str) String() string {
	if c, ok := s.concrete(); ok {
		return fmt.Sprintf("%q", c)
	}
	var sb strings.Builder
	sb.WriteString("str[")
	for i, t := range s.b {
		if i > 0 {
			sb.WriteByte(' ')
		}
		if t.isConst() {
			sb.WriteString(fmt.Sprintf("%q", string(rune(t.c))))
		} else {
			sb.WriteString(t.String())
		}
	}
	sb.WriteString("]")
	return sb.String()
}

func strEq(a, b Str) *Term {
	if len(a.b) != len(b.b) {
		return tFalse
	}
	cs := make([]*Term, 0, len(a.b))
	for i := range a.b {
		e := mkEq(a.b[i], b.b[i])
		if e.isFalse() {
			return tFalse
		}
		cs = append(cs, e)
	}
	return mkAnd(cs...)
}

// strLess: lexicographic a < b
func strLess(a, b Str) *Term {
	// build from the end
	n := len(a.b)
	if len(b.b) < n {
		n = len(b.b)
	}
	res := mkBool(len(a.b) < len(b.b))
	for i := n - 1; i >= 0; i-- {
		lt := mkCmp(OpULT, a.b[i], b.b[i])
		eq := mkEq(a.b[i], b.b[i])
		res = mkOr(lt, mkAnd(eq, res))
	}
	return res
}

// ---- type helpers ----

func under(t types.Type) types.Type { return t.Underlying() }

func isSigned(t types.Type) bool {
	b, ok := under(t).(*types.Basic)
	return ok && b.Info()&types.IsInteger != 0 && b.Info()&types.IsUnsigned == 0
}

func isFloat(t types.Type) bool {
	b, ok := under(t).(*types.Basic)
	return ok && b.Info()&types.IsFloat != 0
}

func isInteger(t types.Type) bool {
	b, ok := under(t).(*types.Basic)
	return ok && b.Info()&types.IsInteger != 0
}

func isString(t types.Type) bool {
	b, ok := under(t).(*types.Basic)
	return ok && b.Info()&types.IsString != 0
}

func isBoolean(t types.Type) bool {
	b, ok := under(t).(*types.Basic)
	return ok && b.Info()&types.IsBoolean != 0
}

func widthOf(t types.Type) int {
	b, ok := under(t).(*types.Basic)
	if !ok {
		panic(fmt.Sprintf("widthOf non-basic %v", t))
	}
	switch b.Kind() {
	case types.Int8, types.Uint8:
		return 8
	case types.Int16, types.Uint16:
		return 16
	case types.Int32, types.Uint32, types.Float32:
		return 32
	case types.Int, types.Uint, types.Int64, types.Uint64, types.Uintptr, types.Float64, types.UntypedInt, types.UntypedFloat, types.UntypedRune:
		if b.Kind() == types.UntypedRune {
			return 32
		}
		return 64
	}
	panic(fmt.Sprintf("widthOf %v", t))
}

func zero(t types.Type) Value {
	switch u := t.Underlying().(type) {
	case *types.Basic:
		switch {
		case u.Info()&types.IsBoolean != 0:
			return tFalse
		case u.Info()&types.IsInteger != 0:
			return mkBV(widthOf(u), 0)
		case u.Info()&types.IsFloat != 0:
			return mkFP(widthOf(u), 0)
		case u.Info()&types.IsString != 0:
			return Str{}
		case u.Kind() == types.UnsafePointer:
			return (*Value)(nil)
		case u.Kind() == types.UntypedNil:
			return nil
		}
		panic(engineError{fmt.Sprintf("unsupported: zero value of %v", t)})
	case *types.Pointer:
		return (*Value)(nil)
	case *types.Struct:
		s := make(Struct, u.NumFields())
		for i := range s {
			s[i] = zero(u.Field(i).Type())
		}
		return s
	case *types.Array:
		a := make(Array, u.Len())
		for i := range a {
			a[i] = zero(u.Elem())
		}
		return a
	case *types.Slice:
		return Slice{}
	case *types.Map:
		return (*Map)(nil)
	case *types.Interface:
		return Iface{}
	case *types.Signature:
		return (*Closure)(nil)
	case *types.Chan:
		return Native{nil}
	case *types.Tuple:
		tp := make(Tuple, u.Len())
		for i := range tp {
			tp[i] = zero(u.At(i).Type())
		}
		return tp
	}
	panic(engineError{fmt.Sprintf("unsupported: zero value of %v", t)})
}

// copyVal makes a copy of aggregates so that stores do not alias.
func copyVal(v Value) Value {
	switch x := v.(type) {
	case Struct:
		n := make(Struct, len(x))
		for i := range x {
			n[i] = copyVal(x[i])
		}
		return n
	case Array:
		n := make(Array, len(x))
		for i := range x {
			n[i] = copyVal(x[i])
		}
		return n
	case Tuple:
		n := make(Tuple, len(x))
		for i := range x {
			n[i] = copyVal(x[i])
		}
		return n
	}
	return v
}

// storeVal stores v in place, preserving addresses of sub-elements.
func storeVal(addr *Value, v Value) {
	switch x := v.(type) {
	case Struct:
		if lhs, ok := (*addr).(Struct); ok && len(lhs) == len(x) {
			for i := range x {
				storeVal(&lhs[i], x[i])
			}
			return
		}
		*addr = copyVal(v)
	case Array:
		if lhs, ok := (*addr).(Array); ok && len(lhs) == len(x) {
			for i := range x {
				storeVal(&lhs[i], x[i])
			}
			return
		}
		*addr = copyVal(v)
	default:
		*addr = v
	}
}

func constValue(c constant.Value, t types.Type) Value {
	if c == nil {
		return zero(t)
	}
	switch u := t.Underlying().(type) {
	case *types.Basic:
		switch {
		case u.Info()&types.IsBoolean != 0:
			return mkBool(constant.BoolVal(c))
		case u.Info()&types.IsInteger != 0:
			w := widthOf(u)
			iv := constant.ToInt(c)
			if n, ok := constant.Int64Val(iv); ok {
				return mkBV(w, uint64(n))
			}
			if n, ok := constant.Uint64Val(iv); ok {
				return mkBV(w, n)
			}
			panic(engineError{"unsupported: big integer constant"})
		case u.Info()&types.IsFloat != 0:
			f, _ := constant.Float64Val(constant.ToFloat(c))
			return mkFP(widthOf(u), f)
		case u.Info()&types.IsString != 0:
			if c.Kind() == constant.String {
				return mkStr(constant.StringVal(c))
			}
			// string(rune const)
			n, _ := constant.Int64Val(constant.ToInt(c))
			return mkStr(string(rune(n)))
		}
	case *types.Interface:
		// constant converted to interface? ssa wraps with MakeInterface normally
	}
	panic(engineError{fmt.Sprintf("unsupported: constant %v of type %v", c, t)})
}

// ---- maps ----

var mapCounter int

func newMap() *Map {
	mapCounter++
	return &Map{idx: map[string]int{}, allConc: true, id: mapCounter}
}

// concKey gives a canonical string for fully concrete hashable values.
func concKey(v Value) (string, bool) {
	switch x := v.(type) {
	case *Term:
		if x.isConst() {
			return fmt.Sprintf("t%d:%d:%x", x.kind, x.w, x.c), true
		}
		return "", false
	case Str:
		s, ok := x.concrete()
		if !ok {
			return "", false
		}
		return "s" + s, true
	case *Value:
		return fmt.Sprintf("p%p", x), true
	case Iface:
		if x.t == nil {
			return "inil", true
		}
		k, ok := concKey(x.v)
		if !ok {
			return "", false
		}
		return "i" + types.TypeString(x.t, nil) + "|" + k, true
	case Struct:
		var sb strings.Builder
		sb.WriteString("{")
		for _, f := range x {
			k, ok := concKey(f)
			if !ok {
				return "", false
			}
			sb.WriteString(fmt.Sprintf("%d:", len(k)))
			sb.WriteString(k)
		}
		return sb.String(), true
	case Array:
		var sb strings.Builder
		sb.WriteString("[")
		for _, f := range x {
			k, ok := concKey(f)
			if !ok {
				return "", false
			}
			sb.WriteString(fmt.Sprintf("%d:", len(k)))
			sb.WriteString(k)
		}
		return sb.String(), true
	case *Map:
		return fmt.Sprintf("m%p", x), true
	case *Closure:
		return fmt.Sprintf("f%p", x), true
	case Native:
		return fmt.Sprintf("n%p", x.v), true
	}
	return "", false
}

func (m *Map) live() []*mapEntry {
	out := make([]*mapEntry, 0, len(m.entries))
	for _, e := range m.entries {
		if !e.deleted {
			out = append(out, e)
		}
	}
	return out
}

func (m *Map) length() int {
	n := 0
	for _, e := range m.entries {
		if !e.deleted {
			n++
		}
	}
	return n
}

func (ex *Exec) mapFind(m *Map, key Value) *mapEntry {
	if m == nil {
		return nil
	}
	if ck, ok := concKey(key); ok && m.allConc {
		if i, ok := m.idx[ck]; ok {
			return m.entries[i]
		}
		return nil
	}
	for _, e := range m.entries {
		if e.deleted {
			continue
		}
		eq := ex.equalTerm(e.k, key)
		if eq.isTrue() {
			return e
		}
		if eq.isFalse() {
			continue
		}
		if ex.decide(eq) {
			return e
		}
	}
	return nil
}

func (ex *Exec) mapSet(m *Map, key, val Value) {
	if m == nil {
		ex.goPanic("assignment to entry in nil map")
	}
	if e := ex.mapFind(m, key); e != nil {
		e.v = val
		return
	}
	ck, ok := concKey(key)
	if ok && m.allConc {
		m.idx[ck] = len(m.entries)
	} else {
		m.allConc = false
	}
	m.entries = append(m.entries, &mapEntry{k: key, v: val})
}

func (ex *Exec) mapDelete(m *Map, key Value) {
	if m == nil {
		return
	}
	if e := ex.mapFind(m, key); e != nil {
		e.deleted = true
		if ck, ok := concKey(key); ok && m.allConc {
			delete(m.idx, ck)
		} else {
			m.allConc = false
		}
	}
}

// ---- equality ----

func (ex *Exec) equalTerm(a, b Value) *Term {
	switch x := a.(type) {
	case *Term:
		y, ok := b.(*Term)
		if !ok {
			return tFalse
		}
		if x.kind == KFP {
			return mkFCmp(OpFEQ, x, y)
		}
		if x.kind != y.kind || x.w != y.w {
			return tFalse
		}
		return mkEq(x, y)
	case Str:
		y, ok := b.(Str)
		if !ok {
			return tFalse
		}
		return strEq(x, y)
	case *Value:
		y, ok := b.(*Value)
		if !ok {
			return mkBool(x == nil && b == nil)
		}
		return mkBool(x == y)
	case Struct:
		y := b.(Struct)
		cs := make([]*Term, len(x))
		for i := range x {
			cs[i] = ex.equalTerm(x[i], y[i])
		}
		return mkAnd(cs...)
	case Array:
		y := b.(Array)
		cs := make([]*Term, len(x))
		for i := range x {
			cs[i] = ex.equalTerm(x[i], y[i])
		}
		return mkAnd(cs...)
	case Iface:
		y, ok := b.(Iface)
		if !ok {
			return tFalse
		}
		if x.t == nil || y.t == nil {
			return mkBool(x.t == nil && y.t == nil)
		}
		if !types.Identical(x.t, y.t) {
			return tFalse
		}
		if !types.Comparable(x.t) {
			ex.goPanic("runtime error: comparing uncomparable type " + x.t.String())
		}
		return ex.equalTerm(x.v, y.v)
	case *Map:
		y, ok := b.(*Map)
		return mkBool(ok && x == y)
	case *Closure:
		y, ok := b.(*Closure)
		return mkBool(ok && x == y)
	case Slice:
		y, ok := b.(Slice)
		// only nil comparison is legal
		return mkBool(ok && x.a == nil && y.a == nil)
	case Native:
		y, ok := b.(Native)
		return mkBool(ok && x.v == y.v)
	case nil:
		return mkBool(b == nil)
	}
	panic(engineError{fmt.Sprintf("unsupported: equality on %T", a)})
}

func describe(v Value) string {
	switch x := v.(type) {
	case nil:
		return "nil"
	case *Term:
		return x.String()
	case Str:
		return x.String()
	case *Value:
		if x == nil {
			return "nilptr"
		}
		return "&" + describe(*x)
	case Struct:
		var parts []string
		for _, f := range x {
			parts = append(parts, describe(f))
		}
		return "{" + strings.Join(parts, ", ") + "}"
	case Array:
		var parts []string
		for _, f := range x {
			parts = append(parts, describe(f))
		}
		return "[" + strings.Join(parts, ", ") + "]"
	case Slice:
		if x.a == nil {
			return "nilslice"
		}
		if len(x.a) > 0 {
			if t, ok := x.a[0].(*Term); ok && t.kind == KBV && t.w == 8 {
				b := make([]*Term, len(x.a))
				for i := range x.a {
					b[i] = x.a[i].(*Term)
				}
				return "bytes" + Str{b}.String()
			}
		}
		var parts []string
		for _, f := range x.a {
			parts = append(parts, describe(f))
		}
		return "[]{" + strings.Join(parts, ", ") + "}"
	case *Map:
		if x == nil {
			return "nilmap"
		}
		var parts []string
		for _, e := range x.live() {
			parts = append(parts, describe(e.k)+":"+describe(e.v))
		}
		return "map{" + strings.Join(parts, ", ") + "}"
	case Iface:
		if x.t == nil {
			return "nil-iface"
		}
		return "(" + types.TypeString(x.t, func(p *types.Package) string { return p.Name() }) + ")" + describeShallow(x.v)
	case *Closure:
		if x == nil {
			return "nilfunc"
		}
		return "func"
	case Tuple:
		var parts []string
		for _, f := range x {
			parts = append(parts, describe(f))
		}
		return "(" + strings.Join(parts, ", ") + ")"
	case Native:
		return fmt.Sprintf("native(%T)", x.v)
	}
	return fmt.Sprintf("%T", v)
}

func describeShallow(v Value) string {
	if p, ok := v.(*Value); ok && p != nil {
		return "&…"
	}
	return describe(v)
}
