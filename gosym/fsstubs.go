package main

// File-system stubs for the one Render step of C09: os.Stat answers as the
// harness says, opening a file for writing is counted.

import (
	"go/types"
	"path/filepath"

	"golang.org/x/tools/go/ssa"
)

func init() {
	harnessExt["verifFS"] = func(ex *Exec, fr *frame, fn *ssa.Function, args []Value) Value {
		ex.pathState["fs-exists"] = args[1].(*Term)
		ex.pathState["fs-opens"] = 0
		ex.modes["fs-stub"] = true
		ex.stub("file system: os.Stat answers per harness, os.OpenFile/MkdirAll recorded")
		return mkStr("/verif-fs")
	}
	harnessExt["verifFSWrites"] = func(ex *Exec, fr *frame, fn *ssa.Function, args []Value) Value {
		n, _ := ex.pathState["fs-opens"].(int)
		return i64(int64(n))
	}
	reg("path/filepath.Abs", func(ex *Exec, fr *frame, fn *ssa.Function, args []Value) Value {
		s, ok := args[0].(Str).concrete()
		if !ok {
			ex.unsupported("filepath.Abs on symbolic path")
		}
		if ex.modes["fs-stub"] {
			return Tuple{mkStr(filepath.Clean(s)), Iface{}}
		}
		a, err := filepath.Abs(s)
		if err != nil {
			return Tuple{mkStr(""), Iface{t: types.Typ[types.String], v: mkStr(err.Error())}}
		}
		return Tuple{mkStr(a), Iface{}}
	})
	reg("os.Stat", func(ex *Exec, fr *frame, fn *ssa.Function, args []Value) Value {
		if !ex.modes["fs-stub"] {
			ex.unsupported("os.Stat outside the file-system stub mode")
		}
		exists := ex.pathState["fs-exists"].(*Term)
		if ex.decide(exists) {
			return Tuple{Iface{}, Iface{}}
		}
		return Tuple{Iface{}, Iface{t: types.Typ[types.String], v: mkStr("stat: no such file or directory")}}
	})
	reg("os.MkdirAll", func(ex *Exec, fr *frame, fn *ssa.Function, args []Value) Value {
		if !ex.modes["fs-stub"] {
			ex.unsupported("os.MkdirAll outside the file-system stub mode")
		}
		return Iface{}
	})
	reg("os.OpenFile", func(ex *Exec, fr *frame, fn *ssa.Function, args []Value) Value {
		if !ex.modes["fs-stub"] {
			ex.unsupported("os.OpenFile outside the file-system stub mode")
		}
		n, _ := ex.pathState["fs-opens"].(int)
		ex.pathState["fs-opens"] = n + 1
		ft := fn.Pkg.Type("File").Type()
		v := zero(ft)
		return Tuple{&v, Iface{}}
	})
	reg("(*os.File).Close", func(ex *Exec, fr *frame, fn *ssa.Function, args []Value) Value { return Iface{} })
	reg("(*os.File).Write", func(ex *Exec, fr *frame, fn *ssa.Function, args []Value) Value {
		return Tuple{i64(int64(len(args[1].(Slice).a))), Iface{}}
	})
}
