package main

// google.golang.org/grpc status: New/Code/Message/Err/FromError are
// interpreted from their SSA; the protobuf "details" list (anypb marshalling)
// is modelled as an identity container attached to the status proto.

import (
	"fmt"
	"go/types"

	"golang.org/x/tools/go/ssa"
)

func (ex *Exec) statusDetails(spb *Value) []Value {
	if d, ok := ex.pathState[fmt.Sprintf("grpc-details:%p", spb)].([]Value); ok {
		return d
	}
	return nil
}

func (ex *Exec) cloneSpb(spb *Value, extra []Value) *Value {
	var nv Value = copyVal(*spb)
	np := &nv
	d := append(append([]Value{}, ex.statusDetails(spb)...), extra...)
	ex.pathState[fmt.Sprintf("grpc-details:%p", np)] = d
	return np
}

func init() {
	const ist = "google.golang.org/grpc/internal/status"
	reg("(*"+ist+".Status).WithDetails", func(ex *Exec, fr *frame, fn *ssa.Function, args []Value) Value {
		ex.stub("grpc status details: identity container (anypb marshalling not modelled)")
		sp := args[0].(*Value)
		if sp == nil {
			ex.goPanic("nil *Status")
		}
		st := (*sp).(Struct)
		spb := st[0].(*Value)
		code := ex.callFunction(fr, ex.lookupMethodByName(types.NewPointer(fn.Pkg.Type("Status").Type()), nil, "Code"), []Value{sp}, nil).(*Term)
		if ex.decide(mkEq(code, mkBV(code.w, 0))) {
			return Tuple{(*Value)(nil), Iface{t: types.Typ[types.String], v: mkStr("no error details for status with code OK")}}
		}
		nspb := ex.cloneSpb(spb, args[1].(Slice).a)
		var ns Value = Struct{nspb}
		return Tuple{&ns, Iface{}}
	})
	reg("(*"+ist+".Status).Details", func(ex *Exec, fr *frame, fn *ssa.Function, args []Value) Value {
		sp := args[0].(*Value)
		if sp == nil {
			return Slice{}
		}
		spb := (*sp).(Struct)[0].(*Value)
		if spb == nil {
			return Slice{}
		}
		d := ex.statusDetails(spb)
		out := make([]Value, len(d))
		copy(out, d)
		if len(out) == 0 {
			return Slice{}
		}
		return Slice{out}
	})
	reg("(*"+ist+".Status).Proto", func(ex *Exec, fr *frame, fn *ssa.Function, args []Value) Value {
		sp := args[0].(*Value)
		if sp == nil {
			return (*Value)(nil)
		}
		spb := (*sp).(Struct)[0].(*Value)
		return ex.cloneSpb(spb, nil)
	})
	reg(ist+".FromProto", func(ex *Exec, fr *frame, fn *ssa.Function, args []Value) Value {
		spb := args[0].(*Value)
		var ns Value = Struct{ex.cloneSpb(spb, nil)}
		return &ns
	})
}
