package main

// verifJSONCopy(dst, src any) error: what encoding/json does when a value of
// one struct type is marshalled and the document is unmarshalled into another
// struct type: fields are matched by JSON tag name, `omitempty` drops zero
// values, nil pointers/slices/maps are absent members, absent members leave
// the destination untouched. Natively the replay uses the real encoding/json.

import (
	"fmt"
	"go/types"
	"reflect"
	"strings"

	"golang.org/x/tools/go/ssa"
)

type jsonField struct {
	idx       int
	name      string
	omitempty bool
	typ       types.Type
}

func jsonFields(st *types.Struct) []jsonField {
	var out []jsonField
	for i := 0; i < st.NumFields(); i++ {
		f := st.Field(i)
		if !f.Exported() {
			continue
		}
		tag := reflect.StructTag(st.Tag(i)).Get("json")
		if tag == "-" {
			continue
		}
		name := f.Name()
		omit := false
		if tag != "" {
			parts := strings.Split(tag, ",")
			if parts[0] != "" {
				name = parts[0]
			}
			for _, p := range parts[1:] {
				if p == "omitempty" {
					omit = true
				}
			}
		}
		out = append(out, jsonField{idx: i, name: name, omitempty: omit, typ: f.Type()})
	}
	return out
}

// jsonAbsent: would encoding/json leave this member out (or write null)?
func (ex *Exec) jsonAbsent(v Value, t types.Type, omitempty bool) bool {
	switch x := v.(type) {
	case *Value:
		return x == nil
	case Slice:
		return x.a == nil || (omitempty && len(x.a) == 0)
	case *Map:
		return x == nil || (omitempty && x.length() == 0)
	case Iface:
		return x.t == nil
	}
	if !omitempty {
		return false
	}
	switch x := v.(type) {
	case *Term:
		var isZero *Term
		switch x.kind {
		case KBool:
			isZero = mkNot(x)
		case KBV:
			isZero = mkEq(x, mkBV(x.w, 0))
		default:
			isZero = mkFCmp(OpFEQ, x, mkFP(x.w, 0))
		}
		return ex.decide(isZero)
	case Str:
		return len(x.b) == 0
	}
	return false
}

func (ex *Exec) jsonAssign(dst *Value, dt types.Type, src Value, st types.Type) {
	// unwrap source pointers
	for {
		p, ok := src.(*Value)
		if !ok {
			break
		}
		if p == nil {
			return
		}
		src = ex.load(p)
		st = st.Underlying().(*types.Pointer).Elem()
	}
	// a nil pointer, slice, map or interface is the JSON value null, which
	// json.Unmarshal treats as "leave the destination alone"
	switch x := src.(type) {
	case *Map:
		if x == nil {
			return
		}
	case Slice:
		if x.a == nil {
			return
		}
	}
	switch du := dt.Underlying().(type) {
	case *types.Pointer:
		cur := ex.load(dst).(*Value)
		if cur == nil {
			nv := zero(du.Elem())
			cur = &nv
			ex.store(dst, cur)
		}
		ex.jsonAssign(cur, du.Elem(), src, st)
	case *types.Struct:
		ss, ok := st.Underlying().(*types.Struct)
		if !ok {
			ex.unsupported("verifJSONCopy: %v into struct %v", st, dt)
		}
		sv := src.(Struct)
		dfields := jsonFields(du)
		dstStruct := (*dst).(Struct)
		for _, sf := range jsonFields(ss) {
			if ex.jsonAbsent(sv[sf.idx], sf.typ, sf.omitempty) {
				continue
			}
			for _, df := range dfields {
				if df.name == sf.name || strings.EqualFold(df.name, sf.name) {
					ex.jsonAssign(&dstStruct[df.idx], df.typ, sv[sf.idx], sf.typ)
					break
				}
			}
		}
	case *types.Slice:
		s, ok := src.(Slice)
		if !ok {
			ex.unsupported("verifJSONCopy: %T into slice", src)
		}
		se := st.Underlying().(*types.Slice).Elem()
		if eb, ok := se.Underlying().(*types.Basic); ok && eb.Kind() == types.Uint8 {
			ex.store(dst, Slice{append([]Value{}, s.a...)})
			return
		}
		na := make([]Value, len(s.a))
		for i := range na {
			na[i] = zero(du.Elem())
			if p, isPtr := s.a[i].(*Value); isPtr && p == nil {
				continue // JSON null element
			}
			ex.jsonAssign(&na[i], du.Elem(), s.a[i], se)
		}
		ex.store(dst, Slice{na})
	case *types.Map:
		m, ok := src.(*Map)
		if !ok {
			ex.unsupported("verifJSONCopy: %T into map", src)
		}
		se := st.Underlying().(*types.Map).Elem()
		nm := newMap()
		for _, e := range m.live() {
			nv := zero(du.Elem())
			ex.jsonAssign(&nv, du.Elem(), e.v, se)
			ex.mapSet(nm, e.k, nv)
		}
		ex.store(dst, nm)
	case *types.Basic:
		sb, ok := st.Underlying().(*types.Basic)
		if !ok {
			ex.unsupported("verifJSONCopy: %v into %v", st, dt)
		}
		switch {
		case du.Info()&types.IsString != 0 && sb.Info()&types.IsString != 0,
			du.Info()&types.IsBoolean != 0 && sb.Info()&types.IsBoolean != 0:
			ex.store(dst, src)
		case du.Info()&types.IsNumeric != 0 && sb.Info()&types.IsNumeric != 0:
			ex.store(dst, ex.convert(st, dt, src))
		default:
			ex.unsupported("verifJSONCopy: JSON %v into Go %v (decode error path not modelled)", st, dt)
		}
	case *types.Interface:
		ex.store(dst, Iface{t: st, v: src})
	default:
		ex.unsupported("verifJSONCopy: destination %v", dt)
	}
}

func init() {
	harnessExt["verifJSONCopy"] = func(ex *Exec, fr *frame, fn *ssa.Function, args []Value) Value {
		d, s := args[0].(Iface), args[1].(Iface)
		if d.t == nil || s.t == nil {
			ex.goPanic("verifJSONCopy: nil argument")
		}
		dp, ok := d.v.(*Value)
		if !ok || dp == nil {
			ex.goPanic("verifJSONCopy: destination must be a non-nil pointer")
		}
		ex.stub("encoding/json transport: struct-to-struct copy by JSON tag (omitempty, nil = absent); real encoding/json in native replays")
		ex.jsonAssign(dp, d.t.Underlying().(*types.Pointer).Elem(), s.v, s.t)
		return Iface{}
	}
}

var _ = fmt.Sprintf
