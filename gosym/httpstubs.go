package main

// net/http request containers whose textual encoding is the standard
// library's business: cookies and the encoded query string travel as
// identity containers (side tables), exactly what the client put in is what
// the server reads back.

import (
	"fmt"
	"go/types"
	"net/http"

	"golang.org/x/tools/go/ssa"
)

type cookieRec struct {
	name  Str
	value Str
}

// cookieKey: cookies live in the header map, which shallow request copies
// (Request.WithContext) share.
func (ex *Exec) cookieKey(r *Value) string {
	if r == nil {
		ex.goPanic("nil *http.Request")
	}
	hdr, _ := (*r).(Struct)[5].(*Map)
	if hdr == nil {
		ex.goPanic("assignment to entry in nil map (request without Header)")
	}
	return fmt.Sprintf("cookies:%p", hdr)
}

func (ex *Exec) cookiesOf(r *Value) []cookieRec {
	c, _ := ex.pathState[ex.cookieKey(r)].([]cookieRec)
	return c
}

func init() {
	reg("(*net/http.Request).AddCookie", func(ex *Exec, fr *frame, fn *ssa.Function, args []Value) Value {
		r := args[0].(*Value)
		c := args[1].(*Value)
		if r == nil || c == nil {
			ex.goPanic("nil pointer dereference (AddCookie)")
		}
		st := (*c).(Struct)
		ex.stub("HTTP cookies: (name,value) pairs carried in a side table (cookie-octet sanitising is net/http's job)")
		key := ex.cookieKey(r)
		old := ex.cookiesOf(r)
		ex.pathState[key] = append(append([]cookieRec{}, old...), cookieRec{name: st[0].(Str), value: st[1].(Str)})
		return nil
	})
	reg("(*net/http.Request).Cookie", func(ex *Exec, fr *frame, fn *ssa.Function, args []Value) Value {
		r := args[0].(*Value)
		name := args[1].(Str)
		for _, c := range ex.cookiesOf(r) {
			if ex.decide(strEq(c.name, name)) {
				ct := fn.Pkg.Type("Cookie").Type()
				var v Value = zero(ct)
				st := v.(Struct)
				st[0], st[1] = c.name, c.value
				return Tuple{&v, Iface{}}
			}
		}
		errNoCookie := ex.load(ex.global(fn.Pkg.Var("ErrNoCookie")))
		return Tuple{(*Value)(nil), errNoCookie}
	})
	harnessExt["verifMoveCookies"] = func(ex *Exec, fr *frame, fn *ssa.Function, args []Value) Value {
		dst, src := args[0].(*Value), args[1].(*Value)
		ex.pathState[ex.cookieKey(dst)] = append([]cookieRec{}, ex.cookiesOf(src)...)
		return nil
	}

	// url.Values.Encode: opaque one-symbol text tied to a snapshot of the values
	reg("(net/url.Values).Encode", func(ex *Exec, fr *frame, fn *ssa.Function, args []Value) Value {
		m, _ := args[0].(*Map)
		if m == nil || m.length() == 0 {
			return Str{}
		}
		ex.stub("url.Values.Encode / URL.Query: the encoded query string is an opaque token tied to the values (escaping is net/url's job)")
		snap := newMap()
		for _, e := range m.live() {
			vals := e.v.(Slice)
			cp := make([]Value, len(vals.a))
			copy(cp, vals.a)
			ex.mapSet(snap, e.k, Slice{cp})
		}
		n, _ := ex.pathState["encq-count"].(int)
		ex.pathState["encq-count"] = n + 1
		tok := fmt.Sprintf("~q%d~", n)
		ex.pathState["encq:"+tok] = snap
		return mkStr(tok)
	})
}

// queryFromToken returns the values behind an opaque encoded query string.
func (ex *Exec) queryFromToken(raw Str) (*Map, bool) {
	c, ok := raw.concrete()
	if !ok {
		return nil, false
	}
	m, ok := ex.pathState["encq:"+c].(*Map)
	return m, ok
}

func init() {
	// encoding/json: the document written by Encode is an opaque marker on the
	// writer plus the value kept in a side table (kinds are what C15 compares).
	reg("(*encoding/json.Encoder).Encode", func(ex *Exec, fr *frame, fn *ssa.Function, args []Value) Value {
		enc := args[0].(*Value)
		if enc == nil {
			ex.goPanic("nil *json.Encoder")
		}
		ex.stub("encoding/json Encoder.Encode: opaque document marker written to the writer")
		w := (*enc).(Struct)[0].(Iface)
		docs, _ := ex.pathState["json-docs"].([]Value)
		ex.pathState["json-docs"] = append(docs, args[1])
		if w.t != nil {
			ex.callMethod(fr, w, "Write", sliceOfBytes(mkStr(fmt.Sprintf("{\"json-doc\":%d}\n", len(docs))).b))
		}
		return Iface{}
	})
}

func init() {
	// Basic auth: identity container behind an opaque Authorization token
	reg("(*net/http.Request).SetBasicAuth", func(ex *Exec, fr *frame, fn *ssa.Function, args []Value) Value {
		r := args[0].(*Value)
		ex.stub("HTTP Basic auth: (user,password) carried as an identity container (base64 is net/http's job); user ids contain no ':' (RFC 7617)")
		hdr := (*r).(Struct)[5].(*Map)
		n, _ := ex.pathState["basic-count"].(int)
		ex.pathState["basic-count"] = n + 1
		tok := fmt.Sprintf("Basic ~cred%d~", n)
		ex.pathState["basic:"+tok] = [2]Str{args[1].(Str), args[2].(Str)}
		ex.mapUpdate(hdr, mkStr("Authorization"), Slice{[]Value{mkStr(tok)}})
		return nil
	})
	reg("(*net/http.Request).BasicAuth", func(ex *Exec, fr *frame, fn *ssa.Function, args []Value) Value {
		r := args[0].(*Value)
		hdr, _ := (*r).(Struct)[5].(*Map)
		e := ex.mapFind(hdr, mkStr("Authorization"))
		if e == nil || len(e.v.(Slice).a) == 0 {
			return Tuple{Str{}, Str{}, tFalse}
		}
		v := e.v.(Slice).a[0].(Str)
		c, ok := v.concrete()
		if !ok {
			ex.unsupported("Request.BasicAuth on a symbolic Authorization header")
		}
		if cred, ok := ex.pathState["basic:"+c].([2]Str); ok {
			return Tuple{cred[0], cred[1], tTrue}
		}
		req := &http.Request{Header: http.Header{"Authorization": {c}}}
		u, pw, okb := req.BasicAuth()
		return Tuple{mkStr(u), mkStr(pw), mkBool(okb)}
	})
}

var _ = types.Typ

func init() {
	// encoding/xml: same opaque-document treatment as encoding/json; the
	// encoder is a zero xml.Encoder whose writer is kept in a side table.
	reg("encoding/xml.NewEncoder", func(ex *Exec, fr *frame, fn *ssa.Function, args []Value) Value {
		var cell Value = zero(fn.Pkg.Type("Encoder").Type())
		p := &cell
		ex.pathState[fmt.Sprintf("xmlenc:%p", p)] = args[0]
		return p
	})
	reg("(*encoding/xml.Encoder).Encode", func(ex *Exec, fr *frame, fn *ssa.Function, args []Value) Value {
		enc := args[0].(*Value)
		if enc == nil {
			ex.goPanic("nil *xml.Encoder")
		}
		ex.stub("encoding/xml Encoder.Encode: opaque document marker written to the writer")
		w, _ := ex.pathState[fmt.Sprintf("xmlenc:%p", enc)].(Iface)
		docs, _ := ex.pathState["xml-docs"].([]Value)
		ex.pathState["xml-docs"] = append(docs, args[1])
		if w.t != nil {
			ex.callMethod(fr, w, "Write", sliceOfBytes(mkStr(fmt.Sprintf("<xml-doc n=\"%d\"/>", len(docs))).b))
		}
		return Iface{}
	})
}

func init() {
	// response cookies: http.SetCookie puts an opaque token into the
	// Set-Cookie header (so that header clones carry it), the (name, value)
	// pair lives in a side table; (*http.Response).Cookies reads them back.
	reg("net/http.SetCookie", func(ex *Exec, fr *frame, fn *ssa.Function, args []Value) Value {
		w := args[0].(Iface)
		c := args[1].(*Value)
		if w.t == nil || c == nil {
			ex.goPanic("nil pointer dereference (SetCookie)")
		}
		st := (*c).(Struct)
		ex.stub("HTTP response cookies: (name,value) pairs behind an opaque Set-Cookie token (cookie syntax and sanitising are net/http's job)")
		hdr, _ := ex.callMethod(fr, w, "Header").(*Map)
		n, _ := ex.pathState["setcookie-count"].(int)
		ex.pathState["setcookie-count"] = n + 1
		tok := fmt.Sprintf("~ck%d~", n)
		ex.pathState["setcookie:"+tok] = cookieRec{name: st[0].(Str), value: st[1].(Str)}
		var vals []Value
		if e := ex.mapFind(hdr, mkStr("Set-Cookie")); e != nil {
			vals = append(vals, e.v.(Slice).a...)
		}
		vals = append(vals, mkStr(tok))
		ex.mapUpdate(hdr, mkStr("Set-Cookie"), Slice{vals})
		return nil
	})
	reg("(*net/http.Response).Cookies", func(ex *Exec, fr *frame, fn *ssa.Function, args []Value) Value {
		r := args[0].(*Value)
		if r == nil {
			ex.goPanic("nil *http.Response")
		}
		hdr, _ := (*r).(Struct)[5].(*Map)
		var out []Value
		if e := ex.mapFind(hdr, mkStr("Set-Cookie")); e != nil {
			ct := fn.Pkg.Type("Cookie").Type()
			for _, v := range e.v.(Slice).a {
				tok, ok := v.(Str).concrete()
				if !ok {
					ex.unsupported("symbolic Set-Cookie header")
				}
				rec, ok := ex.pathState["setcookie:"+tok].(cookieRec)
				if !ok {
					ex.unsupported("Set-Cookie header not written by http.SetCookie: %q", tok)
				}
				var cv Value = zero(ct)
				cs := cv.(Struct)
				cs[0], cs[1] = rec.name, rec.value
				p := new(Value)
				*p = cs
				out = append(out, p)
			}
		}
		if out == nil {
			return Slice{}
		}
		return Slice{out}
	})
}
