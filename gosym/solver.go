package main

// Persistent SMT solver process (z3 -in / z3-new -in / cvc5 --incremental)
// with scope-aware declarations.

import (
	"bufio"
	"fmt"
	"io"
	"os"
	"os/exec"
	"strconv"
	"strings"
	"time"
)

type Solver struct {
	name   string
	cmd    *exec.Cmd
	in     io.WriteCloser
	out    *bufio.Reader
	level  int
	defs   []map[int]bool    // per level: term ids defined
	decls  []map[string]bool // per level: symbols declared
	log    io.Writer
	nSat   int
	nUnsat int
	nUnk   int
	nErr   int
	secs   float64
	buf    strings.Builder
	dead   bool
	dt     *domTracker
	noDom  bool
}

func NewSolver(name string, timeoutMs int, logPath string) (*Solver, error) {
	var cmd *exec.Cmd
	switch name {
	case "z3", "z3-new":
		cmd = exec.Command(name, "-in", "-smt2")
	case "cvc5":
		cmd = exec.Command("cvc5", "--incremental", "--lang=smt2", "--produce-models", fmt.Sprintf("--tlimit-per=%d", timeoutMs), "--fp-exp")
	default:
		return nil, fmt.Errorf("unknown solver %s", name)
	}
	in, err := cmd.StdinPipe()
	if err != nil {
		return nil, err
	}
	out, err := cmd.StdoutPipe()
	if err != nil {
		return nil, err
	}
	cmd.Stderr = os.Stderr
	if err := cmd.Start(); err != nil {
		return nil, err
	}
	s := &Solver{name: name, cmd: cmd, in: in, out: bufio.NewReaderSize(out, 1<<20)}
	s.dt = newDomTracker()
	s.defs = []map[int]bool{{}}
	s.decls = []map[string]bool{{}}
	if logPath != "" {
		f, err := os.Create(logPath)
		if err == nil {
			s.log = f
		}
	}
	if name != "cvc5" {
		s.send("(set-option :global-decls true)")
		s.send(fmt.Sprintf("(set-option :timeout %d)", timeoutMs))
		s.send("(set-option :model.completion true)")
	} else {
		s.send("(set-option :global-declarations true)")
		s.send("(set-logic ALL)")
	}
	s.flush()
	return s, nil
}

func (s *Solver) send(line string) {
	s.buf.WriteString(line)
	s.buf.WriteByte('\n')
}

func (s *Solver) flush() {
	if s.buf.Len() == 0 {
		return
	}
	str := s.buf.String()
	s.buf.Reset()
	if s.log != nil {
		io.WriteString(s.log, str)
	}
	if _, err := io.WriteString(s.in, str); err != nil {
		s.dead = true
		panic(engineError{"solver write: " + err.Error()})
	}
}

func (s *Solver) Close() {
	if s.cmd != nil {
		s.in.Close()
		s.cmd.Process.Kill()
		s.cmd.Wait()
	}
}

func (s *Solver) Push() {
	s.send("(push 1)")
	s.level++
}

func (s *Solver) Pop() {
	if s.level == 0 {
		panic("solver pop at level 0")
	}
	s.send("(pop 1)")
	s.level--
	s.dt.undoTo(s.level)
}

func (s *Solver) PopTo(level int) {
	for s.level > level {
		s.Pop()
	}
}

func (s *Solver) isDefined(id int) bool {
	for _, m := range s.defs {
		if m[id] {
			return true
		}
	}
	return false
}

func (s *Solver) isDeclared(sym string) bool {
	for _, m := range s.decls {
		if m[sym] {
			return true
		}
	}
	return false
}

// ref makes sure t is expressible at the current level and returns its text.
func (s *Solver) ref(t *Term) string {
	switch t.op {
	case OpConst:
		return t.head(nil)
	case OpVar:
		if !s.isDeclared(t.name) {
			s.send(fmt.Sprintf("(declare-fun %s () %s)", smtSym(t.name), t.sortStr()))
			s.decls[0][t.name] = true
		}
		return smtSym(t.name)
	}
	if s.isDefined(t.id) {
		return "t" + strconv.Itoa(t.id)
	}
	// iterative post-order to avoid deep recursion on long chains
	type item struct {
		t    *Term
		done bool
	}
	stack := []item{{t, false}}
	for len(stack) > 0 {
		it := stack[len(stack)-1]
		stack = stack[:len(stack)-1]
		x := it.t
		if x.op == OpConst {
			continue
		}
		if x.op == OpVar {
			if !s.isDeclared(x.name) {
				s.send(fmt.Sprintf("(declare-fun %s () %s)", smtSym(x.name), x.sortStr()))
				s.decls[0][x.name] = true
			}
			continue
		}
		if s.isDefined(x.id) {
			continue
		}
		if !it.done {
			stack = append(stack, item{x, true})
			for _, a := range x.args {
				stack = append(stack, item{a, false})
			}
			continue
		}
		if x.op == OpUF {
			sym := x.ufSym()
			if !s.isDeclared(sym) {
				var as []string
				for _, a := range x.args {
					as = append(as, a.sortStr())
				}
				s.send(fmt.Sprintf("(declare-fun %s (%s) %s)", smtSym(sym), strings.Join(as, " "), x.sortStr()))
				s.decls[0][sym] = true
			}
		}
		body := x.head(func(c *Term) string {
			switch c.op {
			case OpConst:
				return c.head(nil)
			case OpVar:
				return smtSym(c.name)
			}
			return "t" + strconv.Itoa(c.id)
		})
		s.send(fmt.Sprintf("(define-fun t%d () %s %s)", x.id, x.sortStr(), body))
		s.defs[0][x.id] = true
	}
	return "t" + strconv.Itoa(t.id)
}

func (s *Solver) Assert(t *Term) {
	if !s.noDom {
		s.dt.noteAssert(t, s.level)
	}
	r := s.ref(t)
	s.send("(assert " + r + ")")
}

func (s *Solver) readLine() string {
	line, err := s.out.ReadString('\n')
	if err != nil {
		s.dead = true
		panic(engineError{"solver died: " + err.Error()})
	}
	return strings.TrimSpace(line)
}

// Quick decides c from the exact small-symbol domains when possible
// (1 forced true, 0 forced false, 2 both feasible, -1 ask the solver).
func (s *Solver) Quick(c *Term) int {
	if s.noDom {
		return -1
	}
	return s.dt.quick(c)
}

// Check returns "sat", "unsat" or "unknown" (errors count as unknown).
func (s *Solver) Check() string {
	s.send("(check-sat)")
	s.flush()
	t0 := time.Now()
	defer func() { s.secs += time.Since(t0).Seconds() }()
	sawErr := false
	for {
		l := s.readLine()
		if s.log != nil {
			fmt.Fprintf(s.log, "; -> %s\n", l)
		}
		switch {
		case l == "sat":
			if sawErr {
				s.nErr++
				s.nUnk++
				return "unknown"
			}
			s.nSat++
			return "sat"
		case l == "unsat":
			if sawErr {
				s.nErr++
				s.nUnk++
				return "unknown"
			}
			s.nUnsat++
			return "unsat"
		case l == "unknown" || l == "timeout":
			s.nUnk++
			return "unknown"
		case strings.HasPrefix(l, "(error"):
			sawErr = true
			fmt.Fprintf(os.Stderr, "solver error: %s\n", l)
		case l == "":
		default:
			// other output (e.g. warnings): ignore
			if strings.Contains(l, "interrupted") {
				s.nUnk++
				return "unknown"
			}
		}
	}
}

// GetValues evaluates the given (bv/bool) terms in the current model.
func (s *Solver) GetValues(ts []*Term) ([]uint64, bool) {
	if len(ts) == 0 {
		return nil, true
	}
	out := make([]uint64, len(ts))
	// chunk to keep lines short
	const chunk = 64
	for base := 0; base < len(ts); base += chunk {
		end := base + chunk
		if end > len(ts) {
			end = len(ts)
		}
		var refs []string
		for _, t := range ts[base:end] {
			refs = append(refs, s.ref(t))
		}
		s.send("(get-value (" + strings.Join(refs, " ") + "))")
		s.flush()
		txt := s.readSexp()
		if strings.HasPrefix(txt, "(error") {
			return nil, false
		}
		vals := parseValues(txt)
		if len(vals) != end-base {
			fmt.Fprintf(os.Stderr, "get-value: expected %d values, got %d: %s\n", end-base, len(vals), txt)
			return nil, false
		}
		copy(out[base:end], vals)
	}
	return out, true
}

func (s *Solver) readSexp() string {
	var sb strings.Builder
	depth := 0
	started := false
	for {
		l := s.readLine()
		if l == "" && !started {
			continue
		}
		sb.WriteString(l)
		sb.WriteByte(' ')
		inBar := false
		for _, c := range l {
			switch {
			case c == '|':
				inBar = !inBar
			case inBar:
			case c == '(':
				depth++
				started = true
			case c == ')':
				depth--
			}
		}
		if started && depth <= 0 {
			break
		}
	}
	return sb.String()
}

// parseValues extracts the value component of each (term value) pair.
func parseValues(txt string) []uint64 {
	// tokenise
	var toks []string
	i := 0
	for i < len(txt) {
		c := txt[i]
		switch {
		case c == '(' || c == ')':
			toks = append(toks, string(c))
			i++
		case c == ' ' || c == '\n' || c == '\t':
			i++
		case c == '|':
			j := strings.IndexByte(txt[i+1:], '|')
			toks = append(toks, txt[i:i+j+2])
			i += j + 2
		default:
			j := i
			for j < len(txt) && !strings.ContainsRune("() \n\t", rune(txt[j])) {
				j++
			}
			toks = append(toks, txt[i:j])
			i = j
		}
	}
	// structure: ( (ref val) (ref val) ... ), ref may itself be an sexp
	var out []uint64
	pos := 1 // skip first "("
	skip := func() { // skip one sexp
		if toks[pos] != "(" {
			pos++
			return
		}
		d := 0
		for {
			if toks[pos] == "(" {
				d++
			} else if toks[pos] == ")" {
				d--
			}
			pos++
			if d == 0 {
				return
			}
		}
	}
	for pos < len(toks) && toks[pos] == "(" {
		pos++  // (
		skip() // ref
		// value
		v := toks[pos]
		switch {
		case v == "true":
			out = append(out, 1)
			pos++
		case v == "false":
			out = append(out, 0)
			pos++
		case strings.HasPrefix(v, "#x"):
			n, _ := strconv.ParseUint(v[2:], 16, 64)
			out = append(out, n)
			pos++
		case strings.HasPrefix(v, "#b"):
			n, _ := strconv.ParseUint(v[2:], 2, 64)
			out = append(out, n)
			pos++
		case v == "(":
			// (_ bvN w)
			if toks[pos+1] == "_" && strings.HasPrefix(toks[pos+2], "bv") {
				n, _ := strconv.ParseUint(toks[pos+2][2:], 10, 64)
				out = append(out, n)
			} else {
				out = append(out, 0)
			}
			skip()
		default:
			out = append(out, 0)
			pos++
		}
		pos++ // )
	}
	return out
}

type engineError struct{ msg string }

func (e engineError) Error() string { return e.msg }
