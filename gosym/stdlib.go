package main

// Models of standard-library functions that cannot (or should not) be
// interpreted from their SSA: fmt, strconv, regexp, sort, time, rand, context.

import (
	"fmt"
	"go/types"
	"math"
	"regexp"
	"strconv"
	"strings"

	"golang.org/x/tools/go/ssa"
)

func (ex *Exec) stub(name string) {
	if ex.x != nil {
		ex.x.stubs[name] = true
	}
}

// freshEnvStr makes an unconstrained symbolic string that is *not* part of
// the replay model (environment value such as a random id).
func (ex *Exec) freshEnvStr(tag string, n int) Str {
	if ex.x == nil {
		return mkStr(strings.Repeat("x", n))
	}
	id := ex.x.freshID("env!" + tag)
	b := make([]*Term, n)
	for i := range b {
		b[i] = mkVar(fmt.Sprintf("%s!%d", id, i), KBV, 8)
	}
	return Str{b}
}

func (ex *Exec) freshEnvTerm(tag string, k Kind, w int) *Term {
	if ex.x == nil {
		if k == KBool {
			return tFalse
		}
		return mkBV(w, 0)
	}
	return mkVar(ex.x.freshID("env!"+tag), k, w)
}

// toNative converts a fully concrete simple value to a Go value.
func toNative(v Value, t types.Type) (any, bool) {
	switch x := v.(type) {
	case *Term:
		if !x.isConst() {
			return nil, false
		}
		b, ok := t.Underlying().(*types.Basic)
		if !ok {
			return nil, false
		}
		switch b.Kind() {
		case types.Bool, types.UntypedBool:
			return x.c == 1, true
		case types.Int, types.UntypedInt:
			return int(x.sval()), true
		case types.Int8:
			return int8(x.sval()), true
		case types.Int16:
			return int16(x.sval()), true
		case types.Int32, types.UntypedRune:
			return int32(x.sval()), true
		case types.Int64:
			return x.sval(), true
		case types.Uint:
			return uint(x.c), true
		case types.Uint8:
			return uint8(x.c), true
		case types.Uint16:
			return uint16(x.c), true
		case types.Uint32:
			return uint32(x.c), true
		case types.Uint64:
			return x.c, true
		case types.Uintptr:
			return uintptr(x.c), true
		case types.Float64, types.UntypedFloat:
			return x.fval(), true
		case types.Float32:
			return float32(x.fval()), true
		}
	case Str:
		s, ok := x.concrete()
		return s, ok
	case Slice:
		if st, ok := t.Underlying().(*types.Slice); ok {
			if eb, ok := st.Elem().Underlying().(*types.Basic); ok {
				switch eb.Kind() {
				case types.Uint8:
					s, ok := Str{bytesOfSafe(x)}.concrete()
					return []byte(s), ok
				case types.String:
					out := make([]string, len(x.a))
					for i, e := range x.a {
						s, ok := e.(Str).concrete()
						if !ok {
							return nil, false
						}
						out[i] = s
					}
					return out, true
				}
			}
		}
	case Iface:
		if x.t == nil {
			return nil, true
		}
		return toNative(x.v, x.t)
	}
	return nil, false
}

func bytesOfSafe(s Slice) []*Term {
	b := make([]*Term, 0, len(s.a))
	for _, e := range s.a {
		t, ok := e.(*Term)
		if !ok {
			return nil
		}
		b = append(b, t)
	}
	return b
}

// ---- fmt ----

// formatArg renders one operand for verbs %v %s %d %q %t %w under the model.
func (ex *Exec) formatArg(fr *frame, verb byte, flags string, arg Value) Str {
	iv, isI := arg.(Iface)
	var v Value = arg
	var t types.Type
	if isI {
		if iv.t == nil {
			if verb == 's' || verb == 'v' || verb == 'w' {
				if verb == 'v' {
					return mkStr("<nil>")
				}
				return mkStr("%!" + string(verb) + "(<nil>)")
			}
			return mkStr("%!" + string(verb) + "(<nil>)")
		}
		v, t = iv.v, iv.t
	}
	// error / Stringer
	if t != nil && (verb == 'v' || verb == 's' || verb == 'w' || verb == 'q') && flags == "" {
		if _, basic := t.Underlying().(*types.Basic); !basic || types.NewMethodSet(t).Len() > 0 {
			if p, ok := v.(*Value); ok && p == nil {
				return mkStr("<nil>")
			}
			if m := ex.lookupMethodByName(t, nil, "Error"); m != nil && m.Signature.Params().Len() == 0 {
				if s, ok := ex.callFunction(fr, m, []Value{v}, nil).(Str); ok {
					return ex.quoteIf(verb, s)
				}
			}
			if m := ex.lookupMethodByName(t, nil, "String"); m != nil && m.Signature.Params().Len() == 0 {
				if s, ok := ex.callFunction(fr, m, []Value{v}, nil).(Str); ok {
					return ex.quoteIf(verb, s)
				}
			}
		}
	}
	// fully concrete simple value: use the real fmt
	if t != nil {
		if nv, ok := toNative(v, t); ok {
			return mkStr(fmt.Sprintf("%"+flags+string(verb), nv))
		}
	}
	switch x := v.(type) {
	case Str:
		switch verb {
		case 's', 'v':
			if flags == "" {
				return x
			}
		case 'q':
			return ex.quoteIf('q', x)
		}
	case *Term:
		switch {
		case x.kind == KBool && (verb == 'v' || verb == 't'):
			if ex.decide(x) {
				return mkStr("true")
			}
			return mkStr("false")
		case x.kind == KBV && (verb == 'd' || verb == 'v') && flags == "":
			signed := t == nil || isSigned(t)
			return ex.opaqueNum("int", x, signed)
		case x.kind == KFP && (verb == 'v' || verb == 'f' || verb == 'g'):
			return ex.opaqueNum("float", x, true)
		}
	case Slice:
		if verb == 'v' || verb == 's' {
			parts := []*Term{mkByte('[')}
			for i, e := range x.a {
				if i > 0 {
					parts = append(parts, mkByte(' '))
				}
				var et types.Type
				if t != nil {
					if st, ok := t.Underlying().(*types.Slice); ok {
						et = st.Elem()
					}
				}
				var ev Value = e
				if et != nil {
					if _, isIface := et.Underlying().(*types.Interface); !isIface {
						ev = Iface{t: et, v: e}
					}
				}
				parts = append(parts, ex.formatArg(fr, verb, flags, ev).b...)
			}
			parts = append(parts, mkByte(']'))
			return Str{parts}
		}
	}
	// anything else: content is approximated by a placeholder of symbolic bytes
	ex.stub("fmt: operand of type " + describeType(t, v) + " rendered as 3 unconstrained bytes")
	return ex.freshEnvStr("fmt", 3)
}

func describeType(t types.Type, v Value) string {
	if t != nil {
		return t.String()
	}
	return fmt.Sprintf("%T", v)
}

func (ex *Exec) quoteIf(verb byte, s Str) Str {
	if verb != 'q' {
		return s
	}
	if c, ok := s.concrete(); ok {
		return mkStr(strconv.Quote(c))
	}
	// symbolic content: quotes around the raw bytes (escaping not modelled)
	ex.stub("fmt %q on symbolic string: escaping not modelled")
	nb := make([]*Term, 0, len(s.b)+2)
	nb = append(nb, mkByte('"'))
	nb = append(nb, s.b...)
	nb = append(nb, mkByte('"'))
	return Str{nb}
}

func (ex *Exec) sprintf(fr *frame, format Str, args []Value) Str {
	f, ok := format.concrete()
	if !ok {
		// a symbolic format without any verb is its own rendering (when there
		// are no operands); one that contains '%' is not modelled
		var anyPct []*Term
		for _, b := range format.b {
			anyPct = append(anyPct, mkEq(b, mkByte('%')))
		}
		if len(args) == 0 && !ex.decide(mkOr(anyPct...)) {
			return format
		}
		ex.unsupported("fmt with a symbolic format string that contains a verb")
	}
	var out []*Term
	argi := 0
	for i := 0; i < len(f); i++ {
		c := f[i]
		if c != '%' {
			out = append(out, mkByte(c))
			continue
		}
		i++
		if i >= len(f) {
			out = append(out, mkStr("%!(NOVERB)").b...)
			break
		}
		if f[i] == '%' {
			out = append(out, mkByte('%'))
			continue
		}
		start := i
		for i < len(f) && strings.IndexByte("+-# 0123456789.*", f[i]) >= 0 {
			i++
		}
		if i >= len(f) {
			out = append(out, mkStr("%!(NOVERB)").b...)
			break
		}
		flags := f[start:i]
		verb := f[i]
		if argi >= len(args) {
			out = append(out, mkStr("%!"+string(verb)+"(MISSING)").b...)
			continue
		}
		arg := args[argi]
		argi++
		if verb == 'T' {
			if iv, ok := arg.(Iface); ok && iv.t != nil {
				out = append(out, mkStr(types.TypeString(iv.t, func(p *types.Package) string { return p.Name() })).b...)
			} else {
				out = append(out, mkStr("<nil>").b...)
			}
			continue
		}
		out = append(out, ex.formatArg(fr, verb, flags, arg).b...)
	}
	if argi < len(args) {
		out = append(out, mkStr("%!(EXTRA ...)").b...)
		ex.stub("fmt: extra operands")
	}
	return Str{out}
}

// opaque numeric strings: fresh digit bytes tied back to the source term.
func (ex *Exec) opaqueNum(kind string, src *Term, signed bool) Str {
	if src.isConst() {
		switch kind {
		case "int":
			if signed {
				return mkStr(strconv.FormatInt(src.sval(), 10))
			}
			return mkStr(strconv.FormatUint(src.c, 10))
		case "float":
			return mkStr(strconv.FormatFloat(src.fval(), 'g', -1, 64))
		}
	}
	opaqueCount++
	n := 2
	b := make([]*Term, n)
	for i := range b {
		b[i] = mkVar(fmt.Sprintf("op!%d!%d", opaqueCount, i), KBV, 8)
	}
	k := kind
	if kind == "int" && !signed {
		k = "uint"
	}
	opaques = append(opaques, &opaqueRec{kind: k, src: src, bytes: b})
	ex.stub("strconv/fmt number formatting: opaque digit string with Parse as inverse")
	if ex.x != nil {
		// the text of a number consists of characters that need no escaping
		for _, t := range b {
			isDigit := mkAnd(mkCmp(OpULE, mkByte('0'), t), mkCmp(OpULE, t, mkByte('9')))
			ex.x.assume(isDigit)
		}
	}
	return Str{b}
}

// parseNum is the inverse model. Returns value term and ok term.
func (ex *Exec) parseNum(kind string, s Str, w int) (*Term, *Term) {
	if o := findOpaque(s.b); o != nil {
		if o.kind == kind || (kind == "int" && o.kind == "uint") || (kind == "uint" && o.kind == "int") {
			src := o.src
			switch kind {
			case "int", "uint":
				if src.kind != KBV {
					break
				}
				// the text is the decimal rendering of src as a signed (o.kind
				// "int") or unsigned ("uint") number; Parse{Int,Uint}(.., w)
				// succeeds iff that number is in the range of the target
				var v64 *Term
				if o.kind == "int" {
					v64 = mkSExt(src, 64)
				} else {
					v64 = mkZExt(src, 64)
				}
				if src.w == 64 {
					v64 = src
				}
				var lo *Term
				if w == 64 {
					lo = v64
				} else {
					lo = mkExtract(v64, w-1, 0)
				}
				var ok *Term
				switch {
				case o.kind == "int" && kind == "int":
					if w == 64 {
						ok = tTrue
					} else {
						ok = mkEq(mkSExt(lo, 64), v64)
					}
				case o.kind == "uint" && kind == "uint":
					if w == 64 {
						ok = tTrue
					} else {
						ok = mkEq(mkZExt(lo, 64), v64)
					}
				case o.kind == "int" && kind == "uint":
					// a negative number renders with '-' and is refused
					ok = mkCmp(OpSLE, i64(0), v64)
					if w < 64 {
						ok = mkAnd(ok, mkEq(mkZExt(lo, 64), v64))
					}
				default: // unsigned text parsed as signed
					ok = mkCmp(OpULE, v64, mkBV(64, uint64(1)<<uint(w-1)-1))
				}
				return lo, ok
			case "float":
				if src.kind == KFP {
					return mkF2F(src, w), tTrue
				}
			}
		}
	}
	if c, ok := s.concrete(); ok {
		switch kind {
		case "int":
			v, err := strconv.ParseInt(c, 10, w)
			return mkBV(w, uint64(v)), mkBool(err == nil)
		case "uint":
			v, err := strconv.ParseUint(c, 10, w)
			return mkBV(w, v), mkBool(err == nil)
		case "float":
			v, err := strconv.ParseFloat(c, w)
			return mkFP(w, v), mkBool(err == nil)
		}
	}
	// arbitrary wire text: uninterpreted parse
	ex.stub("strconv.Parse* on symbolic text: uninterpreted (ok,value) pair per text")
	okT := ufOnStr("parse_"+kind+strconv.Itoa(w)+"_ok", KBool, 0, s)
	if kind == "float" {
		bits := ufOnStr("parse_float"+strconv.Itoa(w)+"_bits", KBV, w, s)
		return intern(&Term{op: OpFBits, kind: KFP, w: w, args: []*Term{bits}}), okT
	}
	return ufOnStr("parse_"+kind+strconv.Itoa(w)+"_val", KBV, w, s), okT
}

// plainError builds an *errors.errorString value carrying msg.
func (ex *Exec) plainError(msg string) Value {
	ep := ex.prog.ImportedPackage("errors")
	if ep == nil {
		return Iface{t: types.Typ[types.String], v: mkStr(msg)}
	}
	var v Value = Struct{mkStr(msg)}
	return Iface{t: types.NewPointer(ep.Type("errorString").Type()), v: &v}
}

var numErrorType types.Type

func (ex *Exec) strconvErr(fr *frame, fn *ssa.Function, what string, in Str) Value {
	// build *strconv.NumError{Func, Num, Err}
	pkg := fn.Pkg
	ne := pkg.Type("NumError")
	if ne == nil {
		return Iface{t: types.Typ[types.String], v: mkStr("strconv error")}
	}
	st := make(Struct, 3)
	st[0] = mkStr(what)
	st[1] = in
	errSyntax := ex.load(ex.global(pkg.Var("ErrSyntax")))
	st[2] = errSyntax
	var v Value = st
	p := &v
	return Iface{t: types.NewPointer(ne.Type()), v: p}
}

// ---- regexp ----

type nativeRegexp struct {
	re  *regexp.Regexp
	src string
}

func (ex *Exec) regexpMatch(re *nativeRegexp, s Str) *Term {
	if c, ok := s.concrete(); ok {
		return mkBool(re.re.MatchString(c))
	}
	if p, ok := compileReProg(re.src); ok && len(s.b) <= 64 {
		if p.asciiOnly() {
			ex.stub("regexp match on symbolic text: exact NFA simulation of regexp/syntax program")
			return p.symMatch(s.b)
		}
		if ex.modes["ascii-input"] {
			ex.stub("regexp match on symbolic ASCII text: exact NFA simulation (one rune per byte)")
			return p.symMatch(s.b)
		}
	}
	ex.stub("regexp match on symbolic text: uninterpreted predicate per pattern")
	return ufOnStr("re_match{"+re.src+"}", KBool, 0, s)
}

func init() {
	sprintf := func(ex *Exec, fr *frame, fn *ssa.Function, args []Value) Value {
		return ex.sprintf(fr, args[0].(Str), args[1].(Slice).a)
	}
	reg("fmt.Sprintf", sprintf)
	reg("fmt.Errorf", func(ex *Exec, fr *frame, fn *ssa.Function, args []Value) Value {
		msg := ex.sprintf(fr, args[0].(Str), args[1].(Slice).a)
		f, _ := args[0].(Str).concrete()
		// find %w operand
		var wrapped Value
		if strings.Contains(f, "%w") {
			idx := 0
			for i := 0; i+1 < len(f); i++ {
				if f[i] == '%' {
					if f[i+1] == '%' {
						i++
						continue
					}
					j := i + 1
					for j < len(f) && strings.IndexByte("+-# 0123456789.*", f[j]) >= 0 {
						j++
					}
					if j < len(f) && f[j] == 'w' && idx < len(args[1].(Slice).a) {
						wrapped = args[1].(Slice).a[idx]
					}
					idx++
					i = j
				}
			}
		}
		pkg := fn.Pkg
		if wrapped != nil {
			if wi, ok := wrapped.(Iface); ok && wi.t != nil {
				we := pkg.Type("wrapError")
				var v Value = Struct{msg, wi}
				return Iface{t: types.NewPointer(we.Type()), v: &v}
			}
		}
		// *fmt.wrapError unavailable: use errors.errorString
		ep := ex.prog.ImportedPackage("errors")
		es := ep.Type("errorString")
		var v Value = Struct{msg}
		return Iface{t: types.NewPointer(es.Type()), v: &v}
	})
	reg("fmt.Sprint", func(ex *Exec, fr *frame, fn *ssa.Function, args []Value) Value {
		var out []*Term
		as := args[0].(Slice).a
		for i, a := range as {
			s := ex.formatArg(fr, 'v', "", a)
			if i > 0 {
				// space between operands when neither is a string
				_, s1 := as[i-1].(Iface).v.(Str)
				_, s2 := a.(Iface).v.(Str)
				if !s1 && !s2 {
					out = append(out, mkByte(' '))
				}
			}
			out = append(out, s.b...)
		}
		return Str{out}
	})
	reg("fmt.Sprintln", func(ex *Exec, fr *frame, fn *ssa.Function, args []Value) Value {
		var out []*Term
		for i, a := range args[0].(Slice).a {
			if i > 0 {
				out = append(out, mkByte(' '))
			}
			out = append(out, ex.formatArg(fr, 'v', "", a).b...)
		}
		out = append(out, mkByte('\n'))
		return Str{out}
	})
	fprintf := func(ex *Exec, fr *frame, fn *ssa.Function, args []Value) Value {
		s := ex.sprintf(fr, args[1].(Str), args[2].(Slice).a)
		w := args[0].(Iface)
		res := ex.callMethod(fr, w, "Write", sliceOfBytes(s.b))
		return res
	}
	reg("fmt.Fprintf", fprintf)
	reg("fmt.Fprint", func(ex *Exec, fr *frame, fn *ssa.Function, args []Value) Value {
		var out []*Term
		for _, a := range args[1].(Slice).a {
			out = append(out, ex.formatArg(fr, 'v', "", a).b...)
		}
		return ex.callMethod(fr, args[0].(Iface), "Write", sliceOfBytes(out))
	})
	reg("fmt.Fprintln", func(ex *Exec, fr *frame, fn *ssa.Function, args []Value) Value {
		var out []*Term
		for i, a := range args[1].(Slice).a {
			if i > 0 {
				out = append(out, mkByte(' '))
			}
			out = append(out, ex.formatArg(fr, 'v', "", a).b...)
		}
		out = append(out, mkByte('\n'))
		return ex.callMethod(fr, args[0].(Iface), "Write", sliceOfBytes(out))
	})
	nopPrint := func(ex *Exec, fr *frame, fn *ssa.Function, args []Value) Value {
		return Tuple{i64(0), Iface{}}
	}
	reg("fmt.Printf", nopPrint)
	reg("fmt.Println", nopPrint)
	reg("fmt.Print", nopPrint)

	// strconv formatting
	reg("strconv.Itoa", func(ex *Exec, fr *frame, fn *ssa.Function, args []Value) Value {
		return ex.opaqueNum("int", args[0].(*Term), true)
	})
	reg("strconv.FormatInt", func(ex *Exec, fr *frame, fn *ssa.Function, args []Value) Value {
		base := args[1].(*Term)
		if !base.isConst() || base.c != 10 {
			if v, ok := toNative(args[0], types.Typ[types.Int64]); ok && base.isConst() {
				return mkStr(strconv.FormatInt(v.(int64), int(base.c)))
			}
			ex.unsupported("strconv.FormatInt with base != 10 on symbolic value")
		}
		return ex.opaqueNum("int", args[0].(*Term), true)
	})
	reg("strconv.FormatUint", func(ex *Exec, fr *frame, fn *ssa.Function, args []Value) Value {
		base := args[1].(*Term)
		if !base.isConst() || base.c != 10 {
			if v, ok := toNative(args[0], types.Typ[types.Uint64]); ok && base.isConst() {
				return mkStr(strconv.FormatUint(v.(uint64), int(base.c)))
			}
			ex.unsupported("strconv.FormatUint with base != 10 on symbolic value")
		}
		return ex.opaqueNum("int", args[0].(*Term), false)
	})
	reg("strconv.FormatFloat", func(ex *Exec, fr *frame, fn *ssa.Function, args []Value) Value {
		f := args[0].(*Term)
		if f.isConst() && args[1].(*Term).isConst() && args[2].(*Term).isConst() && args[3].(*Term).isConst() {
			return mkStr(strconv.FormatFloat(f.fval(), byte(args[1].(*Term).c), int(args[2].(*Term).sval()), int(args[3].(*Term).sval())))
		}
		return ex.opaqueNum("float", f, true)
	})
	reg("strconv.FormatBool", func(ex *Exec, fr *frame, fn *ssa.Function, args []Value) Value {
		if ex.decide(args[0].(*Term)) {
			return mkStr("true")
		}
		return mkStr("false")
	})
	reg("strconv.Quote", func(ex *Exec, fr *frame, fn *ssa.Function, args []Value) Value {
		return ex.quoteIf('q', args[0].(Str))
	})
	parseInt := func(kind string) intrinsic {
		return func(ex *Exec, fr *frame, fn *ssa.Function, args []Value) Value {
			s := args[0].(Str)
			base := args[1].(*Term)
			bits := args[2].(*Term)
			if !base.isConst() || !bits.isConst() {
				ex.unsupported("strconv.Parse with symbolic base/bitsize")
			}
			w := int(bits.c)
			if w == 0 {
				w = 64
			}
			if c, ok := s.concrete(); ok {
				if kind == "int" {
					v, err := strconv.ParseInt(c, int(base.c), w)
					if err != nil {
						return Tuple{i64(v), ex.strconvErr(fr, fn, "ParseInt", s)}
					}
					return Tuple{i64(v), Iface{}}
				}
				v, err := strconv.ParseUint(c, int(base.c), w)
				if err != nil {
					return Tuple{mkBV(64, v), ex.strconvErr(fr, fn, "ParseUint", s)}
				}
				return Tuple{mkBV(64, v), Iface{}}
			}
			v, okT := ex.parseNum(kind, s, w)
			if ex.decide(okT) {
				if kind == "int" {
					return Tuple{mkSExt(v, 64), Iface{}}
				}
				return Tuple{mkZExt(v, 64), Iface{}}
			}
			return Tuple{mkBV(64, 0), ex.strconvErr(fr, fn, "Parse", s)}
		}
	}
	reg("strconv.ParseInt", parseInt("int"))
	reg("strconv.ParseUint", parseInt("uint"))
	reg("strconv.Atoi", func(ex *Exec, fr *frame, fn *ssa.Function, args []Value) Value {
		s := args[0].(Str)
		if c, ok := s.concrete(); ok {
			v, err := strconv.Atoi(c)
			if err != nil {
				return Tuple{i64(int64(v)), ex.strconvErr(fr, fn, "Atoi", s)}
			}
			return Tuple{i64(int64(v)), Iface{}}
		}
		v, okT := ex.parseNum("int", s, 64)
		if ex.decide(okT) {
			return Tuple{v, Iface{}}
		}
		return Tuple{i64(0), ex.strconvErr(fr, fn, "Atoi", s)}
	})
	reg("strconv.ParseFloat", func(ex *Exec, fr *frame, fn *ssa.Function, args []Value) Value {
		s := args[0].(Str)
		bits := args[1].(*Term)
		w := int(bits.c)
		if c, ok := s.concrete(); ok {
			v, err := strconv.ParseFloat(c, w)
			if err != nil {
				return Tuple{mkFP(64, v), ex.strconvErr(fr, fn, "ParseFloat", s)}
			}
			return Tuple{mkFP(64, v), Iface{}}
		}
		v, okT := ex.parseNum("float", s, w)
		if ex.decide(okT) {
			return Tuple{mkF2F(v, 64), Iface{}}
		}
		return Tuple{mkFP(64, 0), ex.strconvErr(fr, fn, "ParseFloat", s)}
	})
	reg("strconv.ParseBool", func(ex *Exec, fr *frame, fn *ssa.Function, args []Value) Value {
		s := args[0].(Str)
		for _, lit := range []string{"1", "t", "T", "TRUE", "true", "True"} {
			if ex.decide(strEq(s, mkStr(lit))) {
				return Tuple{tTrue, Iface{}}
			}
		}
		for _, lit := range []string{"0", "f", "F", "FALSE", "false", "False"} {
			if ex.decide(strEq(s, mkStr(lit))) {
				return Tuple{tFalse, Iface{}}
			}
		}
		return Tuple{tFalse, ex.strconvErr(fr, fn, "ParseBool", s)}
	})

	// regexp: native objects
	compile := func(must bool) intrinsic {
		return func(ex *Exec, fr *frame, fn *ssa.Function, args []Value) Value {
			p, ok := args[0].(Str).concrete()
			if !ok {
				ex.stub("regexp.Compile on symbolic pattern: uninterpreted")
				// symbolic pattern: opaque compiled object keyed by the pattern bytes
				okT := ufOnStr("re_compiles", KBool, 0, args[0].(Str))
				if must {
					// MustCompile of a symbolic pattern: the harness restricts the
					// pattern to a shape that always compiles (the native replay
					// panics otherwise and the model is discarded as a mismatch)
					ex.stub("regexp.MustCompile on symbolic pattern: assumed to compile")
					if ex.x != nil {
						ex.x.assume(okT)
					}
					return ex.nativePtr(Native{&symRegexp{pat: args[0].(Str)}})
				}
				if ex.decide(okT) {
					return Tuple{ex.nativePtr(Native{&symRegexp{pat: args[0].(Str)}}), Iface{}}
				}
				return Tuple{(*Value)(nil), ex.plainError("regexp syntax error")}
			}
			re, err := regexp.Compile(p)
			if err != nil {
				if must {
					ex.goPanic("regexp: Compile(" + strconv.Quote(p) + "): " + err.Error())
				}
				return Tuple{(*Value)(nil), ex.plainError(err.Error())}
			}
			v := ex.nativePtr(Native{&nativeRegexp{re: re, src: p}})
			if must {
				return v
			}
			return Tuple{v, Iface{}}
		}
	}
	reg("regexp.MustCompile", compile(true))
	reg("regexp.Compile", compile(false))
	reg("regexp.MatchString", func(ex *Exec, fr *frame, fn *ssa.Function, args []Value) Value {
		p, ok := args[0].(Str).concrete()
		if !ok {
			ex.unsupported("regexp.MatchString with symbolic pattern")
		}
		re, err := regexp.Compile(p)
		if err != nil {
			return Tuple{tFalse, ex.plainError(err.Error())}
		}
		return Tuple{ex.regexpMatch(&nativeRegexp{re, p}, args[1].(Str)), Iface{}}
	})
	reg("(*regexp.Regexp).MatchString", func(ex *Exec, fr *frame, fn *ssa.Function, args []Value) Value {
		switch re := ex.nativeOf(args[0]).(type) {
		case *nativeRegexp:
			return ex.regexpMatch(re, args[1].(Str))
		case *symRegexp:
			ex.stub("regexp match with symbolic pattern: uninterpreted predicate of (pattern,text)")
			all := append(append([]*Term{}, re.pat.b...), args[1].(Str).b...)
			return mkUF(fmt.Sprintf("re_match_sym@%d@%d", len(re.pat.b), len(args[1].(Str).b)), KBool, 0, all...)
		}
		ex.unsupported("MatchString on unknown regexp object")
		return nil
	})
	reg("(*regexp.Regexp).Match", func(ex *Exec, fr *frame, fn *ssa.Function, args []Value) Value {
		re := ex.nativeOf(args[0]).(*nativeRegexp)
		return ex.regexpMatch(re, Str{bytesOf(args[1])})
	})
	reg("(*regexp.Regexp).String", func(ex *Exec, fr *frame, fn *ssa.Function, args []Value) Value {
		switch re := ex.nativeOf(args[0]).(type) {
		case *nativeRegexp:
			return mkStr(re.src)
		case *symRegexp:
			return re.pat
		}
		return mkStr("")
	})
	reg("(*regexp.Regexp).ReplaceAllString", func(ex *Exec, fr *frame, fn *ssa.Function, args []Value) Value {
		re := ex.nativeOf(args[0]).(*nativeRegexp)
		s, ok1 := args[1].(Str).concrete()
		r, ok2 := args[2].(Str).concrete()
		if !ok1 || !ok2 {
			ex.unsupported("regexp.ReplaceAllString on symbolic input")
		}
		return mkStr(re.re.ReplaceAllString(s, r))
	})
	reg("(*regexp.Regexp).FindStringSubmatch", func(ex *Exec, fr *frame, fn *ssa.Function, args []Value) Value {
		re := ex.nativeOf(args[0]).(*nativeRegexp)
		s, ok := args[1].(Str).concrete()
		if !ok {
			ex.unsupported("regexp.FindStringSubmatch on symbolic input")
		}
		m := re.re.FindStringSubmatch(s)
		if m == nil {
			return Slice{}
		}
		a := make([]Value, len(m))
		for i, x := range m {
			a[i] = mkStr(x)
		}
		return Slice{a}
	})
	reg("(*regexp.Regexp).FindAllStringSubmatch", func(ex *Exec, fr *frame, fn *ssa.Function, args []Value) Value {
		re := ex.nativeOf(args[0]).(*nativeRegexp)
		s, ok := args[1].(Str).concrete()
		n := args[2].(*Term)
		if !ok || !n.isConst() {
			ex.unsupported("regexp.FindAllStringSubmatch on symbolic input")
		}
		ms := re.re.FindAllStringSubmatch(s, int(n.sval()))
		if ms == nil {
			return Slice{}
		}
		out := make([]Value, len(ms))
		for i, m := range ms {
			a := make([]Value, len(m))
			for j, x := range m {
				a[j] = mkStr(x)
			}
			out[i] = Slice{a}
		}
		return Slice{out}
	})
	reg("(*regexp.Regexp).FindAllStringSubmatchIndex", func(ex *Exec, fr *frame, fn *ssa.Function, args []Value) Value {
		re := ex.nativeOf(args[0]).(*nativeRegexp)
		s, ok := args[1].(Str).concrete()
		n := args[2].(*Term)
		if !ok || !n.isConst() {
			ex.unsupported("regexp.FindAllStringSubmatchIndex on symbolic input")
		}
		ms := re.re.FindAllStringSubmatchIndex(s, int(n.sval()))
		if ms == nil {
			return Slice{}
		}
		out := make([]Value, len(ms))
		for i, m := range ms {
			a := make([]Value, len(m))
			for j, x := range m {
				a[j] = i64(int64(x))
			}
			out[i] = Slice{a}
		}
		return Slice{out}
	})
	reg("regexp.QuoteMeta", func(ex *Exec, fr *frame, fn *ssa.Function, args []Value) Value {
		s, ok := args[0].(Str).concrete()
		if !ok {
			ex.unsupported("regexp.QuoteMeta on symbolic input")
		}
		return mkStr(regexp.QuoteMeta(s))
	})

	// math
	reg("math.IsNaN", func(ex *Exec, fr *frame, fn *ssa.Function, args []Value) Value {
		return mkFIsNaN(args[0].(*Term))
	})
	reg("math.Float64bits", func(ex *Exec, fr *frame, fn *ssa.Function, args []Value) Value {
		f := args[0].(*Term)
		if f.isConst() {
			return mkBV(64, math.Float64bits(f.fval()))
		}
		if f.op == OpFBits {
			return f.args[0]
		}
		ex.unsupported("math.Float64bits on symbolic float")
		return nil
	})
	reg("math.Float64frombits", func(ex *Exec, fr *frame, fn *ssa.Function, args []Value) Value {
		b := args[0].(*Term)
		if b.isConst() {
			return mkFP(64, math.Float64frombits(b.c))
		}
		return intern(&Term{op: OpFBits, kind: KFP, w: 64, args: []*Term{b}})
	})
}

type symRegexp struct{ pat Str }

// nativePtr wraps a native object so that it can be used where Go code
// expects a pointer (e.g. *regexp.Regexp).
func (ex *Exec) nativePtr(n Native) *Value {
	var v Value = n
	return &v
}

func (ex *Exec) nativeOf(v Value) any {
	switch x := v.(type) {
	case *Value:
		if x == nil {
			ex.goPanic("nil pointer dereference (native object)")
		}
		if n, ok := (*x).(Native); ok {
			return n.v
		}
	case Native:
		return x.v
	}
	ex.unsupported("expected native object, have %T", v)
	return nil
}
