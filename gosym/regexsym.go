package main

// Exact regular-expression matching on symbolic byte strings: the compiled
// program of Go's own regexp/syntax package is simulated position by position
// (Thompson construction), every thread set being a vector of boolean terms.
// The result is a single term, so no uninterpreted function is needed.
//
// Restriction: input bytes are treated as one rune each; this is exact for
// ASCII input. For possibly non-ASCII symbolic input the matcher is used only
// if the caller accepts the stated assumption (all harnesses that rely on
// exactness assume bytes < 0x80).

import (
	"regexp/syntax"
)

type reProg struct {
	prog *syntax.Prog
	src  string
}

var reProgCache = map[string]*reProg{}

func compileReProg(src string) (*reProg, bool) {
	if p, ok := reProgCache[src]; ok {
		return p, p != nil
	}
	re, err := syntax.Parse(src, syntax.Perl)
	if err != nil {
		reProgCache[src] = nil
		return nil, false
	}
	prog, err := syntax.Compile(re.Simplify())
	if err != nil || len(prog.Inst) > 4000 {
		reProgCache[src] = nil
		return nil, false
	}
	p := &reProg{prog: prog, src: src}
	reProgCache[src] = p
	return p, true
}

// runeMatches builds the condition "byte b (as a rune) is accepted by inst".
func runeMatches(inst *syntax.Inst, b *Term) *Term {
	r := mkZExt(b, 32)
	in := func(lo, hi rune) *Term {
		if lo > 0xFF {
			return tFalse
		}
		if hi > 0xFF {
			hi = 0xFF
		}
		if lo == hi {
			return mkEq(r, mkBV(32, uint64(lo)))
		}
		return mkAnd(mkCmp(OpULE, mkBV(32, uint64(lo)), r), mkCmp(OpULE, r, mkBV(32, uint64(hi))))
	}
	switch inst.Op {
	case syntax.InstRuneAny:
		return tTrue
	case syntax.InstRuneAnyNotNL:
		return mkNot(mkEq(r, mkBV(32, '\n')))
	case syntax.InstRune1:
		c := in(inst.Rune[0], inst.Rune[0])
		if syntax.Flags(inst.Arg)&syntax.FoldCase != 0 {
			c = mkOr(c, foldVariants(inst.Rune[0], in))
		}
		return c
	case syntax.InstRune:
		if len(inst.Rune) == 1 {
			c := in(inst.Rune[0], inst.Rune[0])
			if syntax.Flags(inst.Arg)&syntax.FoldCase != 0 {
				c = mkOr(c, foldVariants(inst.Rune[0], in))
			}
			return c
		}
		var cs []*Term
		for i := 0; i+1 < len(inst.Rune); i += 2 {
			cs = append(cs, in(inst.Rune[i], inst.Rune[i+1]))
		}
		return mkOr(cs...)
	}
	return tFalse
}

func foldVariants(r rune, in func(lo, hi rune) *Term) *Term {
	var cs []*Term
	switch {
	case 'a' <= r && r <= 'z':
		cs = append(cs, in(r-32, r-32))
	case 'A' <= r && r <= 'Z':
		cs = append(cs, in(r+32, r+32))
	}
	return mkOr(cs...)
}

func isWordByte(b *Term) *Term {
	r := mkZExt(b, 32)
	rng := func(lo, hi byte) *Term {
		return mkAnd(mkCmp(OpULE, mkBV(32, uint64(lo)), r), mkCmp(OpULE, r, mkBV(32, uint64(hi))))
	}
	return mkOr(rng('a', 'z'), rng('A', 'Z'), rng('0', '9'), mkEq(r, mkBV(32, '_')))
}

// emptyOK: condition for an empty-width assertion at position pos.
func emptyOK(op syntax.EmptyOp, s []*Term, pos int) *Term {
	cs := []*Term{}
	n := len(s)
	if op&syntax.EmptyBeginText != 0 {
		cs = append(cs, mkBool(pos == 0))
	}
	if op&syntax.EmptyEndText != 0 {
		cs = append(cs, mkBool(pos == n))
	}
	if op&syntax.EmptyBeginLine != 0 {
		if pos == 0 {
			cs = append(cs, tTrue)
		} else {
			cs = append(cs, mkEq(s[pos-1], mkByte('\n')))
		}
	}
	if op&syntax.EmptyEndLine != 0 {
		if pos == n {
			cs = append(cs, tTrue)
		} else {
			cs = append(cs, mkEq(s[pos], mkByte('\n')))
		}
	}
	if op&(syntax.EmptyWordBoundary|syntax.EmptyNoWordBoundary) != 0 {
		before, after := tFalse, tFalse
		if pos > 0 {
			before = isWordByte(s[pos-1])
		}
		if pos < n {
			after = isWordByte(s[pos])
		}
		boundary := mkNot(mkEq(before, after))
		if op&syntax.EmptyWordBoundary != 0 {
			cs = append(cs, boundary)
		}
		if op&syntax.EmptyNoWordBoundary != 0 {
			cs = append(cs, mkNot(boundary))
		}
	}
	return mkAnd(cs...)
}

// symMatch returns the term "the regexp matches somewhere in s" (Go's
// unanchored MatchString semantics).
func (p *reProg) symMatch(s []*Term) *Term {
	prog := p.prog
	n := len(s)
	ninst := len(prog.Inst)
	// active[pc] = condition under which a thread is at pc before consuming s[pos]
	matched := tFalse
	var cur []*Term
	// closure: propagate conditions through Alt/Nop/Capture/EmptyWidth at pos
	addThread := func(set []*Term, pc uint32, cond *Term, pos int) {
		type item struct {
			pc   uint32
			cond *Term
		}
		stack := []item{{pc, cond}}
		for len(stack) > 0 {
			it := stack[len(stack)-1]
			stack = stack[:len(stack)-1]
			if it.cond.isFalse() {
				continue
			}
			old := set[it.pc]
			nw := mkOr(old, it.cond)
			if nw == old {
				continue
			}
			set[it.pc] = nw
			inst := &prog.Inst[it.pc]
			switch inst.Op {
			case syntax.InstAlt, syntax.InstAltMatch:
				stack = append(stack, item{inst.Out, it.cond}, item{inst.Arg, it.cond})
			case syntax.InstNop, syntax.InstCapture:
				stack = append(stack, item{inst.Out, it.cond})
			case syntax.InstEmptyWidth:
				stack = append(stack, item{inst.Out, mkAnd(it.cond, emptyOK(syntax.EmptyOp(inst.Arg), s, pos))})
			}
		}
	}
	newSet := func() []*Term {
		st := make([]*Term, ninst)
		for i := range st {
			st[i] = tFalse
		}
		return st
	}
	cur = newSet()
	for pos := 0; pos <= n; pos++ {
		// unanchored search: a new thread may start at every position
		addThread(cur, uint32(prog.Start), tTrue, pos)
		next := newSet()
		for pc := 0; pc < ninst; pc++ {
			c := cur[pc]
			if c.isFalse() {
				continue
			}
			inst := &prog.Inst[pc]
			switch inst.Op {
			case syntax.InstMatch:
				matched = mkOr(matched, c)
			case syntax.InstRune, syntax.InstRune1, syntax.InstRuneAny, syntax.InstRuneAnyNotNL:
				if pos < n {
					addThread(next, inst.Out, mkAnd(c, runeMatches(inst, s[pos])), pos+1)
				}
			}
		}
		cur = next
	}
	return matched
}

// asciiOnly: every rune class of the program lies within ASCII, so matching
// byte-wise is exact for arbitrary (also non-UTF-8) input.
func (p *reProg) asciiOnly() bool {
	for i := range p.prog.Inst {
		inst := &p.prog.Inst[i]
		switch inst.Op {
		case syntax.InstRuneAny, syntax.InstRuneAnyNotNL:
			return false
		case syntax.InstRune, syntax.InstRune1:
			for _, r := range inst.Rune {
				if r > 0x7F {
					return false
				}
			}
		}
	}
	return true
}
