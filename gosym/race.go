package main

// Two-invocation sharing analysis (C17/C20): the harness runs two invocations
// of a per-request entry point, one after the other, from the same
// constructed state. The executor records every load/store of a cell that
// existed before the invocations started, every map read/write of a map that
// existed before, and the mutexes held at that moment. Two accesses of
// different invocations to the same cell, at least one a write, race unless a
// common mutex orders them (held by both, in write mode by at least one) or
// both are atomic operations.

import (
	"fmt"
	"sort"
	"strings"

	"golang.org/x/tools/go/ssa"
)

type accessEv struct {
	inv    int
	cell   string // identity of the cell / map
	write  bool
	atomic bool
	locks  map[string]string // mutex id -> "W" | "R"
	where  string
}

type raceState struct {
	fresh     map[*Value]bool
	freshMaps map[*Map]bool
	inv       int
	held      map[string]string
	events    []accessEv
	ex        *Exec
}

func (rs *raceState) registerFresh(p *Value) {
	if rs.fresh[p] {
		return
	}
	rs.fresh[p] = true
	switch x := (*p).(type) {
	case Struct:
		for i := range x {
			rs.registerFresh(&x[i])
		}
	case Array:
		for i := range x {
			rs.registerFresh(&x[i])
		}
	}
}

func (rs *raceState) locksCopy() map[string]string {
	m := map[string]string{}
	for k, v := range rs.held {
		m[k] = v
	}
	return m
}

func (rs *raceState) where() string {
	st := rs.ex.stack
	for i := len(st) - 1; i >= 0; i-- {
		if strings.Contains(st[i], "goa.design/goa") || strings.Contains(st[i], "vdesign/gen") {
			return st[i]
		}
	}
	if len(st) > 0 {
		return st[len(st)-1]
	}
	return "?"
}

func (ex *Exec) startRaceTracking() *raceState {
	rs := &raceState{fresh: map[*Value]bool{}, freshMaps: map[*Map]bool{}, held: map[string]string{}, ex: ex, inv: -1}
	ex.hooks = &hookState{
		onAlloc:    func(p *Value) { rs.registerFresh(p) },
		onAllocMap: func(m *Map) { rs.freshMaps[m] = true },
		onStore: func(p *Value) {
			if rs.inv >= 0 && !rs.fresh[p] {
				rs.events = append(rs.events, accessEv{inv: rs.inv, cell: fmt.Sprintf("%p", p), write: true, locks: rs.locksCopy(), where: rs.where()})
			}
		},
		onLoad: func(p *Value) {
			if rs.inv >= 0 && !rs.fresh[p] {
				rs.events = append(rs.events, accessEv{inv: rs.inv, cell: fmt.Sprintf("%p", p), locks: rs.locksCopy(), where: rs.where()})
			}
		},
		onMapRead: func(m *Map) {
			if rs.inv >= 0 && !rs.freshMaps[m] {
				rs.events = append(rs.events, accessEv{inv: rs.inv, cell: fmt.Sprintf("map%p", m), locks: rs.locksCopy(), where: rs.where()})
			}
		},
		onMapWrite: func(m *Map) {
			if rs.inv >= 0 && !rs.freshMaps[m] {
				rs.events = append(rs.events, accessEv{inv: rs.inv, cell: fmt.Sprintf("map%p", m), write: true, locks: rs.locksCopy(), where: rs.where()})
			}
		},
		onLock: func(mu *Value, op string) {
			id := fmt.Sprintf("%p", mu)
			switch op {
			case "Lock":
				rs.held[id] = "W"
			case "RLock":
				rs.held[id] = "R"
			default:
				delete(rs.held, id)
			}
		},
	}
	return rs
}

func ordered(a, b accessEv) bool {
	if a.atomic && b.atomic {
		return true
	}
	for m, ma := range a.locks {
		if mb, ok := b.locks[m]; ok && (ma == "W" || mb == "W") {
			return true
		}
	}
	return false
}

// conflicts lists racing pairs (write of one invocation vs access of the other).
func (rs *raceState) conflicts() []string {
	seen := map[string]bool{}
	var out []string
	byCell := map[string][]accessEv{}
	for _, e := range rs.events {
		byCell[e.cell] = append(byCell[e.cell], e)
	}
	for _, evs := range byCell {
		for _, a := range evs {
			if !a.write {
				continue
			}
			for _, b := range evs {
				if b.inv == a.inv || ordered(a, b) {
					continue
				}
				kind := "read"
				if b.write {
					kind = "write"
				}
				k := fmt.Sprintf("write in %s vs %s in %s", a.where, kind, b.where)
				if !seen[k] {
					seen[k] = true
					out = append(out, k)
				}
			}
		}
	}
	sort.Strings(out)
	return out
}

func init() {
	// verifConcurrently(f0, f1): symbolic = f0 then f1 with sharing analysis;
	// native replay = both in goroutines (run under -race).
	harnessExt["verifConcurrently"] = func(ex *Exec, fr *frame, fn *ssa.Function, args []Value) Value {
		rs := ex.startRaceTracking()
		ex.pathState["race"] = rs
		rs.inv = 0
		ex.callValue(fr, args[0], nil, nil)
		rs.held = map[string]string{}
		rs.inv = 1
		ex.callValue(fr, args[1], nil, nil)
		rs.inv = -1
		ex.hooks = nil
		return nil
	}
	// verifRaceFree(id): assertion that the last verifConcurrently had no conflict
	harnessExt["verifRaceFree"] = func(ex *Exec, fr *frame, fn *ssa.Function, args []Value) Value {
		rs, _ := ex.pathState["race"].(*raceState)
		if rs == nil {
			panic(engineError{"verifRaceFree without verifConcurrently"})
		}
		c := rs.conflicts()
		if len(c) > 0 {
			ex.x.notes["conflicts"] = strings.Join(c, " | ")
		}
		ex.x.notes["shared-accesses"] = fmt.Sprintf("%d", len(rs.events))
		ex.x.assert("race:"+argStr(args[0]), mkBool(len(c) == 0))
		return nil
	}
	// verifSharedWrites(): number of writes to pre-existing cells outside any write lock
	harnessExt["verifSharedWrites"] = func(ex *Exec, fr *frame, fn *ssa.Function, args []Value) Value {
		rs, _ := ex.pathState["race"].(*raceState)
		n := 0
		if rs != nil {
			for _, e := range rs.events {
				if !e.write || e.atomic {
					continue
				}
				w := false
				for _, m := range e.locks {
					if m == "W" {
						w = true
					}
				}
				if !w {
					n++
				}
			}
		}
		return i64(int64(n))
	}

	// sync/atomic on plain cells
	atomicEv := func(ex *Exec, p *Value, write bool) {
		if rs, ok := ex.pathState["race"].(*raceState); ok && rs.inv >= 0 && ex.hooks != nil && !rs.fresh[p] {
			rs.events = append(rs.events, accessEv{inv: rs.inv, cell: fmt.Sprintf("%p", p), write: write, atomic: true, locks: rs.locksCopy(), where: rs.where()})
		}
	}
	quiet := func(ex *Exec, f func()) {
		h := ex.hooks
		ex.hooks = nil
		f()
		ex.hooks = h
	}
	for _, t := range []string{"Int32", "Int64", "Uint32", "Uint64", "Uintptr"} {
		reg("sync/atomic.Add"+t, func(ex *Exec, fr *frame, fn *ssa.Function, args []Value) Value {
			p := args[0].(*Value)
			ex.syncPoint()
			atomicEv(ex, p, true)
			var nv Value
			quiet(ex, func() {
				nv = mkBin(OpAdd, ex.load(p).(*Term), args[1].(*Term))
				ex.store(p, nv)
			})
			return nv
		})
		reg("sync/atomic.Load"+t, func(ex *Exec, fr *frame, fn *ssa.Function, args []Value) Value {
			p := args[0].(*Value)
			ex.syncPoint()
			atomicEv(ex, p, false)
			var v Value
			quiet(ex, func() { v = ex.load(p) })
			return v
		})
		reg("sync/atomic.Store"+t, func(ex *Exec, fr *frame, fn *ssa.Function, args []Value) Value {
			p := args[0].(*Value)
			ex.syncPoint()
			atomicEv(ex, p, true)
			quiet(ex, func() { ex.store(p, args[1]) })
			return nil
		})
	}
}

// sync.Map: an executor map in a side table keyed by the address of the
// sync.Map; every operation is atomic (no access recording: the type is
// documented safe for concurrent use), the contents are shared state all the same.
func (ex *Exec) syncMapOf(p *Value) *Map {
	key := fmt.Sprintf("syncmap:%p", p)
	if m, ok := ex.pathState[key].(*Map); ok {
		return m
	}
	m := newMap()
	ex.pathState[key] = m
	return m
}

func init() {
	reg("(*sync.Map).Load", func(ex *Exec, fr *frame, fn *ssa.Function, args []Value) Value {
		ex.syncPoint()
		e := ex.mapFind(ex.syncMapOf(args[0].(*Value)), args[1])
		if e == nil {
			return Tuple{Iface{}, tFalse}
		}
		return Tuple{e.v, tTrue}
	})
	reg("(*sync.Map).Store", func(ex *Exec, fr *frame, fn *ssa.Function, args []Value) Value {
		ex.syncPoint()
		ex.mapSet(ex.syncMapOf(args[0].(*Value)), args[1], args[2])
		return nil
	})
	reg("(*sync.Map).LoadOrStore", func(ex *Exec, fr *frame, fn *ssa.Function, args []Value) Value {
		ex.syncPoint()
		m := ex.syncMapOf(args[0].(*Value))
		if e := ex.mapFind(m, args[1]); e != nil {
			return Tuple{e.v, tTrue}
		}
		ex.mapSet(m, args[1], args[2])
		return Tuple{args[2], tFalse}
	})
	reg("(*sync.Map).LoadAndDelete", func(ex *Exec, fr *frame, fn *ssa.Function, args []Value) Value {
		ex.syncPoint()
		m := ex.syncMapOf(args[0].(*Value))
		e := ex.mapFind(m, args[1])
		if e == nil {
			return Tuple{Iface{}, tFalse}
		}
		v := e.v
		ex.mapDelete(m, args[1])
		return Tuple{v, tTrue}
	})
	reg("(*sync.Map).Delete", func(ex *Exec, fr *frame, fn *ssa.Function, args []Value) Value {
		ex.syncPoint()
		ex.mapDelete(ex.syncMapOf(args[0].(*Value)), args[1])
		return nil
	})
	reg("(*sync.Map).Range", func(ex *Exec, fr *frame, fn *ssa.Function, args []Value) Value {
		for _, e := range ex.syncMapOf(args[0].(*Value)).live() {
			r := ex.callValue(fr, args[1], []Value{e.k, e.v}, nil).(*Term)
			if !ex.decide(r) {
				break
			}
		}
		return nil
	})
}

// ---- verifInterleave: two invocations with ONE preemption ----
//
// verifInterleave(f0, f1) explores, besides "f0 then f1", every schedule in
// which f0 is preempted just before its k-th synchronisation operation (atomic
// load/store/add, atomic.Value, sync.Map, mutex acquisition while holding no
// lock), f1 runs to completion, and f0 resumes. k is a free choice of the path.
// The first invocation runs on its own goroutine of the executor with a strict
// hand-off, so only one of the two ever touches the executor state.

type interleaving struct {
	k, count int
	paused   chan struct{}
	resume   chan bool
	rs       *raceState
}

type abortInterleave struct{}

const maxPreemptionPoints = 8

func (ex *Exec) syncPoint() {
	il := ex.il
	if il == nil || il.k == 0 || len(il.rs.held) > 0 {
		return
	}
	il.count++
	if il.count == il.k {
		il.paused <- struct{}{}
		if ok := <-il.resume; !ok {
			panic(abortInterleave{})
		}
	}
}

func init() {
	harnessExt["verifInterleave"] = func(ex *Exec, fr *frame, fn *ssa.Function, args []Value) Value {
		rs := ex.startRaceTracking()
		ex.pathState["race"] = rs
		k := 0
		if ex.x != nil {
			k = ex.x.choose(maxPreemptionPoints + 1)
			ex.x.notes["preempt-first-invocation-before-sync-op"] = fmt.Sprint(k)
		}
		ex.stub("verifInterleave: schedules with at most one preemption of the first invocation, at its first 8 synchronisation operations")
		il := &interleaving{k: k, paused: make(chan struct{}), resume: make(chan bool), rs: rs}
		done := make(chan any, 1)
		ex.il = il
		rs.inv = 0
		go func() {
			defer func() { done <- recover() }()
			ex.callValue(fr, args[0], nil, nil)
		}()
		finish := func() {
			rs.inv = -1
			ex.hooks = nil
			ex.il = nil
		}
		select {
		case <-il.paused:
			held0 := rs.held
			rs.held = map[string]string{}
			rs.inv = 1
			ex.il = nil
			func() {
				defer func() {
					if p := recover(); p != nil {
						il.resume <- false
						<-done
						finish()
						panic(p)
					}
				}()
				ex.callValue(fr, args[1], nil, nil)
			}()
			rs.held = held0
			rs.inv = 0
			il.resume <- true
			if r := <-done; r != nil {
				finish()
				panic(r)
			}
		case r := <-done:
			if r != nil {
				finish()
				panic(r)
			}
			if k > 0 && il.count < k {
				// fewer synchronisation operations than k: same schedule as k = count+1..; prune duplicates
				finish()
				panic(pathEnd{"no such preemption point"})
			}
			rs.held = map[string]string{}
			rs.inv = 1
			ex.il = nil
			ex.callValue(fr, args[1], nil, nil)
		}
		finish()
		return nil
	}

	// sync/atomic.Value as a cell in a side table
	valueCell := func(ex *Exec, p *Value) *Value {
		key := fmt.Sprintf("atomicvalue:%p", p)
		if c, ok := ex.pathState[key].(*Value); ok {
			return c
		}
		c := new(Value)
		*c = Iface{}
		ex.pathState[key] = c
		return c
	}
	reg("(*sync/atomic.Value).Load", func(ex *Exec, fr *frame, fn *ssa.Function, args []Value) Value {
		ex.syncPoint()
		return *valueCell(ex, args[0].(*Value))
	})
	reg("(*sync/atomic.Value).Store", func(ex *Exec, fr *frame, fn *ssa.Function, args []Value) Value {
		ex.syncPoint()
		if iv, ok := args[1].(Iface); ok && iv.t == nil {
			ex.goPanic("sync/atomic: store of nil value into Value")
		}
		c := valueCell(ex, args[0].(*Value))
		old := *c
		*c = args[1]
		ex.logUndo(func() { *c = old })
		return nil
	})
	reg("(*sync/atomic.Value).Swap", func(ex *Exec, fr *frame, fn *ssa.Function, args []Value) Value {
		ex.syncPoint()
		c := valueCell(ex, args[0].(*Value))
		old := *c
		*c = args[1]
		ex.logUndo(func() { *c = old })
		return old
	})
}
