package main

import (
	"fmt"
	"go/types"
	"regexp"
	"strings"

	"golang.org/x/tools/go/ssa"
)

type intrinsic func(ex *Exec, fr *frame, fn *ssa.Function, args []Value) Value

var intrinsics = map[string]intrinsic{}

type hookState struct {
	onStore    func(addr *Value)
	onLoad     func(addr *Value)
	onAlloc    func(addr *Value)
	onAllocMap func(m *Map)
	onMapRead  func(m *Map)
	onMapWrite func(m *Map)
	onLock     func(mu *Value, op string)
}

func fnKey(fn *ssa.Function) string {
	// generic instantiations: use origin name
	if o := fn.Origin(); o != nil {
		return o.String()
	}
	return fn.String()
}

func lookupIntrinsic(fn *ssa.Function) intrinsic {
	if h, ok := intrinsics[fn.String()]; ok {
		return h
	}
	if o := fn.Origin(); o != nil {
		if h, ok := intrinsics[o.String()]; ok {
			return h
		}
	}
	return nil
}

func reg(name string, h intrinsic) { intrinsics[name] = h }

// deepTier: the run is a thorough-tier run (harnesses widen their bounds)
var deepTier bool

func i64(v int64) *Term { return mkBV(64, uint64(v)) }

func resetPathState(ex *Exec) {
	opaqueReset()
	ex.pathState = map[string]any{}
	ex.modes = map[string]bool{}
}

// ---- harness API ----

func argStr(v Value) string {
	s, ok := v.(Str).concrete()
	if !ok {
		panic(engineError{"harness id must be a concrete string"})
	}
	return s
}

func (ex *Exec) harnessCall(fr *frame, fn *ssa.Function, args []Value) Value {
	x := ex.x
	if x == nil {
		panic(engineError{"harness primitive " + fn.Name() + " used outside a path"})
	}
	name := fn.Name()
	switch name {
	case "nondetInt", "nondetInt64", "nondetUint", "nondetUint64":
		return x.newSym(argStr(args[0]), "int", KBV, 64)
	case "nondetInt32", "nondetUint32", "nondetRune":
		return x.newSym(argStr(args[0]), "int", KBV, 32)
	case "nondetInt16", "nondetUint16":
		return x.newSym(argStr(args[0]), "int", KBV, 16)
	case "nondetByte", "nondetInt8", "nondetUint8":
		return x.newSym(argStr(args[0]), "int", KBV, 8)
	case "nondetBool":
		return x.newSym(argStr(args[0]), "bool", KBool, 0)
	case "nondetFloat64":
		bits := x.newSym(argStr(args[0]), "float", KBV, 64)
		return intern(&Term{op: OpFBits, kind: KFP, w: 64, args: []*Term{bits}})
	case "nondetFloat32":
		bits := x.newSym(argStr(args[0]), "float", KBV, 32)
		return intern(&Term{op: OpFBits, kind: KFP, w: 32, args: []*Term{bits}})
	case "nondetString":
		n := ex.concreteInt(args[1].(*Term), "nondetString length")
		return x.newStr(argStr(args[0]), n)
	case "nondetStringUpTo":
		max := ex.concreteInt(args[1].(*Term), "nondetStringUpTo max")
		id := argStr(args[0])
		n := ex.choose(max + 1)
		return x.newStr(id, n)
	case "nondetBytes":
		n := ex.concreteInt(args[1].(*Term), "nondetBytes length")
		s := x.newStr(argStr(args[0]), n)
		a := make([]Value, n)
		for i := range a {
			a[i] = s.b[i]
		}
		return Slice{a}
	case "nondetChoice":
		n := ex.concreteInt(args[1].(*Term), "nondetChoice n")
		k := ex.choose(n)
		x.recordChoice(argStr(args[0]), k)
		return i64(int64(k))
	case "verifAssume":
		x.assume(args[0].(*Term))
		return nil
	case "verifAssert":
		id := argStr(args[0])
		if (assertInclude != nil && !assertInclude.MatchString(id)) || (assertExclude != nil && assertExclude.MatchString(id)) {
			return nil // assertion of another property sharing this harness
		}
		x.assert(id, args[1].(*Term))
		return nil
	case "verifReach":
		if !x.replaying() {
			x.res.Reached[argStr(args[0])]++
		}
		return nil
	case "verifNote":
		x.notes[argStr(args[0])] = describe(args[1])
		return nil
	case "verifObserve":
		iv := args[1].(Iface)
		x.observed[argStr(args[0])] = iv.v
		return nil
	case "verifMapOrder":
		ex.mapOrder = ex.concreteInt(args[0].(*Term), "map order")
		return nil
	case "verifNativeRepeat":
		return i64(1)
	case "verifDeep":
		return mkBool(deepTier)
	case "verifAdvanceClock":
		// time.Now is already an arbitrary non-decreasing instant at every call
		return nil
	case "verifMode":
		ex.modes[argStr(args[0])] = true
		return nil
	case "verifStub":
		x.stubs[argStr(args[0])] = true
		return nil
	case "verifIsSymbolic":
		switch v := args[0].(Iface).v.(type) {
		case *Term:
			return mkBool(!v.isConst())
		case Str:
			_, ok := v.concrete()
			return mkBool(!ok)
		}
		return tFalse
	case "verifUF":
		// verifUF(name string, arg string) bool : uninterpreted predicate
		return ufOnStr(argStr(args[0]), KBool, 0, args[1].(Str))
	}
	if h, ok := harnessExt[name]; ok {
		return h(ex, fr, fn, args)
	}
	panic(engineError{"unknown harness primitive " + name})
}

var harnessExt = map[string]intrinsic{}

var assertInclude, assertExclude *regexp.Regexp

func ufOnStr(name string, k Kind, w int, s Str) *Term {
	return mkUF(fmt.Sprintf("%s@%d", name, len(s.b)), k, w, s.b...)
}

// ---- string search helpers ----

// indexTerm returns the first index of needle in hay as a 64-bit term (-1 if none).
func indexTerm(hay, needle []*Term) *Term {
	n, m := len(hay), len(needle)
	res := i64(-1)
	for i := n - m; i >= 0; i-- {
		cs := make([]*Term, m)
		for j := 0; j < m; j++ {
			cs[j] = mkEq(hay[i+j], needle[j])
		}
		res = mkIte(mkAnd(cs...), i64(int64(i)), res)
	}
	return res
}

func lastIndexTerm(hay, needle []*Term) *Term {
	n, m := len(hay), len(needle)
	res := i64(-1)
	for i := 0; i <= n-m; i++ {
		cs := make([]*Term, m)
		for j := 0; j < m; j++ {
			cs[j] = mkEq(hay[i+j], needle[j])
		}
		res = mkIte(mkAnd(cs...), i64(int64(i)), res)
	}
	return res
}

func bytesOf(v Value) []*Term {
	switch x := v.(type) {
	case Str:
		return x.b
	case Slice:
		b := make([]*Term, len(x.a))
		for i, e := range x.a {
			b[i] = e.(*Term)
		}
		return b
	}
	panic(engineError{fmt.Sprintf("bytesOf %T", v)})
}

func sliceOfBytes(b []*Term) Slice {
	a := make([]Value, len(b))
	for i, t := range b {
		a[i] = t
	}
	return Slice{a}
}

func asByte(v Value) *Term {
	t := v.(*Term)
	if t.w > 8 {
		return mkExtract(t, 7, 0)
	}
	return t
}

func init() {
	idx := func(ex *Exec, fr *frame, fn *ssa.Function, args []Value) Value {
		return indexTerm(bytesOf(args[0]), bytesOf(args[1]))
	}
	idxByte := func(ex *Exec, fr *frame, fn *ssa.Function, args []Value) Value {
		return indexTerm(bytesOf(args[0]), []*Term{asByte(args[1])})
	}
	lastIdx := func(ex *Exec, fr *frame, fn *ssa.Function, args []Value) Value {
		return lastIndexTerm(bytesOf(args[0]), bytesOf(args[1]))
	}
	lastIdxByte := func(ex *Exec, fr *frame, fn *ssa.Function, args []Value) Value {
		return lastIndexTerm(bytesOf(args[0]), []*Term{asByte(args[1])})
	}
	reg("strings.Index", idx)
	reg("bytes.Index", idx)
	reg("internal/bytealg.IndexString", idx)
	reg("internal/bytealg.Index", idx)
	reg("strings.IndexByte", idxByte)
	reg("bytes.IndexByte", idxByte)
	reg("internal/bytealg.IndexByteString", idxByte)
	reg("internal/bytealg.IndexByte", idxByte)
	reg("strings.LastIndex", lastIdx)
	reg("bytes.LastIndex", lastIdx)
	reg("strings.LastIndexByte", lastIdxByte)
	reg("bytes.LastIndexByte", lastIdxByte)
	reg("internal/bytealg.LastIndexByteString", lastIdxByte)
	reg("internal/bytealg.LastIndexByte", lastIdxByte)
	count := func(ex *Exec, fr *frame, fn *ssa.Function, args []Value) Value {
		hay := bytesOf(args[0])
		c := asByte(args[1])
		res := i64(0)
		for _, h := range hay {
			res = mkBin(OpAdd, res, mkIte(mkEq(h, c), i64(1), i64(0)))
		}
		return res
	}
	reg("internal/bytealg.CountString", count)
	reg("internal/bytealg.Count", count)
	reg("internal/bytealg.Equal", func(ex *Exec, fr *frame, fn *ssa.Function, args []Value) Value {
		return strEq(Str{bytesOf(args[0])}, Str{bytesOf(args[1])})
	})
	reg("bytes.Equal", func(ex *Exec, fr *frame, fn *ssa.Function, args []Value) Value {
		return strEq(Str{bytesOf(args[0])}, Str{bytesOf(args[1])})
	})
	reg("internal/bytealg.MakeNoZero", func(ex *Exec, fr *frame, fn *ssa.Function, args []Value) Value {
		n := ex.concreteInt(args[0].(*Term), "MakeNoZero")
		a := make([]Value, n)
		for i := range a {
			a[i] = mkByte(0)
		}
		return Slice{a}
	})
	reg("internal/bytealg.Compare", func(ex *Exec, fr *frame, fn *ssa.Function, args []Value) Value {
		a, b := Str{bytesOf(args[0])}, Str{bytesOf(args[1])}
		return mkIte(strEq(a, b), i64(0), mkIte(strLess(a, b), i64(-1), i64(1)))
	})
	reg("strings.Compare", func(ex *Exec, fr *frame, fn *ssa.Function, args []Value) Value {
		a, b := args[0].(Str), args[1].(Str)
		return mkIte(strEq(a, b), i64(0), mkIte(strLess(a, b), i64(-1), i64(1)))
	})
	reg("internal/stringslite.Index", idx)
	reg("internal/stringslite.IndexByte", idxByte)

	// IndexRune with ASCII constant rune
	reg("strings.IndexRune", func(ex *Exec, fr *frame, fn *ssa.Function, args []Value) Value {
		r := args[1].(*Term)
		if r.isConst() {
			if r.c < 0x80 {
				return indexTerm(bytesOf(args[0]), []*Term{mkByte(byte(r.c))})
			}
			return indexTerm(bytesOf(args[0]), mkStr(string(rune(r.c))).b)
		}
		// symbolic rune: ASCII fast path, otherwise encode
		hay := bytesOf(args[0])
		if ex.decide(mkCmp(OpULT, r, mkBV(32, 0x80))) {
			return indexTerm(hay, []*Term{mkExtract(r, 7, 0)})
		}
		if _, ok := (Str{hay}).concrete(); ok {
			// concrete ASCII-only haystack cannot contain a non-ASCII rune
			ascii := true
			for _, h := range hay {
				if h.c >= 0x80 {
					ascii = false
				}
			}
			if ascii {
				return i64(-1)
			}
		}
		return indexTerm(hay, ex.encodeRune(r))
	})

	// strings.Builder
	builderBuf := func(ex *Exec, b Value) *Value {
		p := b.(*Value)
		if p == nil {
			ex.goPanic("nil *strings.Builder")
		}
		s := (*p).(Struct)
		return &s[1]
	}
	reg("(*strings.Builder).copyCheck", func(ex *Exec, fr *frame, fn *ssa.Function, args []Value) Value { return nil })
	reg("(*strings.Builder).String", func(ex *Exec, fr *frame, fn *ssa.Function, args []Value) Value {
		buf := ex.load(builderBuf(ex, args[0])).(Slice)
		return Str{bytesOf(buf)}
	})
	reg("(*strings.Builder).grow", func(ex *Exec, fr *frame, fn *ssa.Function, args []Value) Value { return nil })
	reg("(*strings.Builder).Grow", func(ex *Exec, fr *frame, fn *ssa.Function, args []Value) Value { return nil })
	appendBuf := func(ex *Exec, b Value, bs []*Term) {
		slot := builderBuf(ex, b)
		old := ex.load(slot).(Slice)
		na := make([]Value, 0, len(old.a)+len(bs))
		na = append(na, old.a...)
		for _, t := range bs {
			na = append(na, t)
		}
		ex.store(slot, Slice{na})
	}
	reg("(*strings.Builder).WriteString", func(ex *Exec, fr *frame, fn *ssa.Function, args []Value) Value {
		s := args[1].(Str)
		appendBuf(ex, args[0], s.b)
		return Tuple{i64(int64(len(s.b))), Iface{}}
	})
	reg("(*strings.Builder).Write", func(ex *Exec, fr *frame, fn *ssa.Function, args []Value) Value {
		bs := bytesOf(args[1])
		appendBuf(ex, args[0], bs)
		return Tuple{i64(int64(len(bs))), Iface{}}
	})
	reg("(*strings.Builder).WriteByte", func(ex *Exec, fr *frame, fn *ssa.Function, args []Value) Value {
		appendBuf(ex, args[0], []*Term{args[1].(*Term)})
		return Iface{}
	})
	reg("(*strings.Builder).WriteRune", func(ex *Exec, fr *frame, fn *ssa.Function, args []Value) Value {
		bs := ex.encodeRune(args[1].(*Term))
		appendBuf(ex, args[0], bs)
		return Tuple{i64(int64(len(bs))), Iface{}}
	})

	// unicode/utf8
	reg("unicode/utf8.RuneCountInString", func(ex *Exec, fr *frame, fn *ssa.Function, args []Value) Value {
		return ex.runeCount(bytesOf(args[0]))
	})
	reg("unicode/utf8.RuneCount", func(ex *Exec, fr *frame, fn *ssa.Function, args []Value) Value {
		return ex.runeCount(bytesOf(args[0]))
	})
	dec := func(ex *Exec, fr *frame, fn *ssa.Function, args []Value) Value {
		b := bytesOf(args[0])
		if len(b) == 0 {
			return Tuple{mkBV(32, 0xFFFD), i64(0)}
		}
		r, n := ex.decodeRune(b)
		return Tuple{r, i64(int64(n))}
	}
	reg("unicode/utf8.DecodeRuneInString", dec)
	reg("unicode/utf8.DecodeRune", dec)
	valid := func(ex *Exec, fr *frame, fn *ssa.Function, args []Value) Value {
		b := bytesOf(args[0])
		for len(b) > 0 {
			r, n := ex.decodeRune(b)
			if n == 1 && r.isConst() && r.c == 0xFFFD {
				// could be a literal EF BF BD? no: size 1 with RuneError means invalid
				return tFalse
			}
			b = b[n:]
		}
		return tTrue
	}
	reg("unicode/utf8.ValidString", valid)
	reg("unicode/utf8.Valid", valid)
	reg("unicode/utf8.EncodeRune", func(ex *Exec, fr *frame, fn *ssa.Function, args []Value) Value {
		p := args[0].(Slice)
		bs := ex.encodeRune(args[1].(*Term))
		for i, t := range bs {
			if i >= len(p.a) {
				ex.goPanic("runtime error: index out of range (EncodeRune)")
			}
			ex.store(&p.a[i], t)
		}
		return i64(int64(len(bs)))
	})
	reg("unicode/utf8.AppendRune", func(ex *Exec, fr *frame, fn *ssa.Function, args []Value) Value {
		p := args[0].(Slice)
		bs := ex.encodeRune(args[1].(*Term))
		na := make([]Value, 0, len(p.a)+len(bs))
		na = append(na, p.a...)
		for _, t := range bs {
			na = append(na, t)
		}
		return Slice{na}
	})
	reg("unicode/utf8.RuneLen", func(ex *Exec, fr *frame, fn *ssa.Function, args []Value) Value {
		r := args[0].(*Term)
		if r.isConst() {
			n := len(string(rune(r.sval())))
			if r.sval() < 0 || r.sval() > 0x10FFFF || (r.sval() >= 0xD800 && r.sval() <= 0xDFFF) {
				n = -1
			}
			return i64(int64(n))
		}
		if ex.decide(mkCmp(OpSLT, r, mkBV(32, 0))) {
			return i64(-1)
		}
		invalid := mkOr(mkCmp(OpULT, mkBV(32, 0x10FFFF), r), mkAnd(mkCmp(OpULE, mkBV(32, 0xD800), r), mkCmp(OpULE, r, mkBV(32, 0xDFFF))))
		if ex.decide(invalid) {
			return i64(-1)
		}
		return i64(int64(len(ex.encodeRune(r))))
	})
	reg("unicode/utf8.ValidRune", func(ex *Exec, fr *frame, fn *ssa.Function, args []Value) Value {
		r := args[0].(*Term)
		return mkOr(mkCmp(OpULT, r, mkBV(32, 0xD800)), mkAnd(mkCmp(OpULT, mkBV(32, 0xDFFF), r), mkCmp(OpULE, r, mkBV(32, 0x10FFFF))))
	})

	// sync
	nop := func(ex *Exec, fr *frame, fn *ssa.Function, args []Value) Value { return nil }
	lockOp := func(op string) intrinsic {
		return func(ex *Exec, fr *frame, fn *ssa.Function, args []Value) Value {
			if op == "Lock" || op == "RLock" {
				ex.syncPoint()
			}
			if ex.hooks != nil && ex.hooks.onLock != nil {
				ex.hooks.onLock(args[0].(*Value), op)
			}
			return nil
		}
	}
	reg("(*sync.Mutex).Lock", lockOp("Lock"))
	reg("(*sync.Mutex).Unlock", lockOp("Unlock"))
	reg("(*sync.RWMutex).Lock", lockOp("Lock"))
	reg("(*sync.RWMutex).Unlock", lockOp("Unlock"))
	reg("(*sync.RWMutex).RLock", lockOp("RLock"))
	reg("(*sync.RWMutex).RUnlock", lockOp("RUnlock"))
	reg("(*sync.Once).Do", func(ex *Exec, fr *frame, fn *ssa.Function, args []Value) Value {
		p := args[0].(*Value)
		s := (*p).(Struct)
		// field 0: done (atomic.Uint32 in go1.23: struct{_ noCopy; v uint32}) - use a side table
		key := fmt.Sprintf("once:%p", p)
		_ = s
		if ex.onceDone[key] {
			return nil
		}
		ex.onceDone[key] = true
		ex.logUndo(func() { delete(ex.onceDone, key) })
		ex.callValue(fr, args[1], nil, nil)
		return nil
	})
	// sync.Pool: an object that was Put may be handed out again (LIFO), which is
	// what the real pool does on one P; otherwise New. Both are legal behaviours
	// of a pool; reuse is the one that exposes missing copies.
	reg("(*sync.Pool).Get", func(ex *Exec, fr *frame, fn *ssa.Function, args []Value) Value {
		p := args[0].(*Value)
		key := fmt.Sprintf("pool:%p", p)
		if items, _ := ex.pathState[key].([]Value); len(items) > 0 {
			ex.pathState[key] = items[:len(items)-1]
			return items[len(items)-1]
		}
		s := (*p).(Struct)
		// last field is New func() any
		newf := s[len(s)-1]
		if c, ok := newf.(*Closure); ok && c != nil {
			return ex.callValue(fr, c, nil, nil)
		}
		return Iface{}
	})
	reg("(*sync.Pool).Put", func(ex *Exec, fr *frame, fn *ssa.Function, args []Value) Value {
		p := args[0].(*Value)
		if iv, ok := args[1].(Iface); ok && iv.t == nil {
			return nil
		}
		key := fmt.Sprintf("pool:%p", p)
		items, _ := ex.pathState[key].([]Value)
		ex.pathState[key] = append(append([]Value{}, items...), args[1])
		return nil
	})
	reg("(*sync.WaitGroup).Add", nop)
	reg("(*sync.WaitGroup).Done", nop)
	reg("(*sync.WaitGroup).Wait", nop)
	reg("runtime.SetFinalizer", nop)
	reg("runtime.KeepAlive", nop)
	reg("runtime.Gosched", nop)

	// errors
	reg("errors.Is", func(ex *Exec, fr *frame, fn *ssa.Function, args []Value) Value {
		return mkBool(ex.errorsIs(fr, args[0].(Iface), args[1].(Iface), 0))
	})
	reg("errors.As", func(ex *Exec, fr *frame, fn *ssa.Function, args []Value) Value {
		return mkBool(ex.errorsAs(fr, args[0].(Iface), args[1].(Iface), 0))
	})
}

func (ex *Exec) runeCount(b []*Term) *Term {
	n := 0
	for len(b) > 0 {
		_, sz := ex.decodeRune(b)
		b = b[sz:]
		n++
	}
	return i64(int64(n))
}

func (ex *Exec) errorsIs(fr *frame, err, target Iface, depth int) bool {
	if depth > 50 {
		ex.unsupported("errors.Is chain too deep")
	}
	if err.t == nil || target.t == nil {
		return err.t == nil && target.t == nil
	}
	comparable := types.Comparable(target.t)
	if comparable && types.Identical(err.t, target.t) {
		if ex.decide(ex.equalTerm(err.v, target.v)) {
			return true
		}
	}
	if m := ex.lookupMethodByName(err.t, nil, "Is"); m != nil && m.Signature.Params().Len() == 1 {
		if r, ok := ex.callFunction(fr, m, []Value{err.v, target}, nil).(*Term); ok && ex.decide(r) {
			return true
		}
	}
	if m := ex.lookupMethodByName(err.t, nil, "Unwrap"); m != nil {
		res := m.Signature.Results()
		if res.Len() == 1 {
			r := ex.callFunction(fr, m, []Value{err.v}, nil)
			switch x := r.(type) {
			case Iface:
				if x.t == nil {
					return false
				}
				return ex.errorsIs(fr, x, target, depth+1)
			case Slice:
				for _, e := range x.a {
					if ei := e.(Iface); ei.t != nil && ex.errorsIs(fr, ei, target, depth+1) {
						return true
					}
				}
			}
		}
	}
	return false
}

func (ex *Exec) errorsAs(fr *frame, err, target Iface, depth int) bool {
	if depth > 50 {
		ex.unsupported("errors.As chain too deep")
	}
	if target.t == nil {
		ex.goPanic("errors: target cannot be nil")
	}
	pt, ok := target.t.Underlying().(*types.Pointer)
	if !ok {
		ex.goPanic("errors: target must be a non-nil pointer")
	}
	tp := target.v.(*Value)
	if tp == nil {
		ex.goPanic("errors: target must be a non-nil pointer")
	}
	tt := pt.Elem()
	if err.t == nil {
		return false
	}
	if it, isI := tt.Underlying().(*types.Interface); isI {
		if types.Implements(err.t, it) {
			ex.store(tp, err)
			return true
		}
	} else if types.Identical(err.t, tt) {
		ex.store(tp, err.v)
		return true
	}
	if m := ex.lookupMethodByName(err.t, nil, "As"); m != nil && m.Signature.Params().Len() == 1 {
		if r, ok := ex.callFunction(fr, m, []Value{err.v, target}, nil).(*Term); ok && ex.decide(r) {
			return true
		}
	}
	if m := ex.lookupMethodByName(err.t, nil, "Unwrap"); m != nil {
		if m.Signature.Results().Len() == 1 {
			r := ex.callFunction(fr, m, []Value{err.v}, nil)
			switch x := r.(type) {
			case Iface:
				if x.t == nil {
					return false
				}
				return ex.errorsAs(fr, x, target, depth+1)
			case Slice:
				for _, e := range x.a {
					if ei := e.(Iface); ei.t != nil && ex.errorsAs(fr, ei, target, depth+1) {
						return true
					}
				}
			}
		}
	}
	return false
}

// opaque strings produced by number formatting ------------------------------

type opaqueRec struct {
	kind  string // "int", "uint", "float", "bool"
	src   *Term
	bytes []*Term
}

var opaques []*opaqueRec
var opaqueCount int

func opaqueReset() { opaques = nil; opaqueCount = 0 }

func findOpaque(b []*Term) *opaqueRec {
	if len(b) == 0 || b[0].op != OpVar || !strings.HasPrefix(b[0].name, "op!") {
		return nil
	}
	for _, o := range opaques {
		if len(o.bytes) == len(b) {
			same := true
			for i := range b {
				if b[i] != o.bytes[i] {
					same = false
					break
				}
			}
			if same {
				return o
			}
		}
	}
	return nil
}
