#!/bin/bash
# usage: confirm_seed.sh <prop> <mN>   (reads /tmp/seed-<prop>/<mN>, writes /verif/seeded/<prop>-<mN>/)
# Confirms in a scratch worktree of /repo HEAD: patch applies, builds, existing suite unchanged, demo fails with / passes without.
set -u
prop=$1; m=$2; base=${3:-/tmp/seed-}; label=${4:-}
src=$base$prop/$m
wt=/tmp/confirm-$prop-$label$m
out=/verif/seeded/$prop-$label$m
export GOFLAGS=-mod=mod GOPROXY=off GOSUMDB=off GOTOOLCHAIN=local
rm -rf $wt; git -C /repo worktree prune; git -C /repo worktree add -f $wt HEAD >/dev/null 2>&1 || { echo "worktree failed"; exit 9; }
cd $wt
log=$wt.log; : > $log
if ! git apply $src/patch.diff 2>>$log; then patch -p1 --fuzz=3 -s < $src/patch.diff >>$log 2>&1 || { echo "$prop-$m: PATCH DOES NOT APPLY"; git -C /repo worktree remove --force $wt; exit 1; }; fi
find . -name '*.orig' -delete; find . -name '*.rej' -delete
git diff > $wt.rebased.diff
go build ./... >>$log 2>&1 || { echo "$prop-$m: BUILD FAILS"; git -C /repo worktree remove --force $wt; exit 1; }
# package-level verdicts only; grpc/codegen needs protoc, the xray packages bind a fixed UDP port and flake when suites run concurrently
go test -vet=off -count=1 ./... 2>&1 | grep -E "^(FAIL[[:space:]]+goa|panic:)" | grep -v "grpc/codegen" > $wt.fails
# tolerate the known-flaky xray test
grep -v "xray" $wt.fails > $wt.fails2
if [ -s $wt.fails2 ]; then echo "$prop-$m: SUITE HAS NEW FAILURES:"; head -5 $wt.fails2; git -C /repo worktree remove --force $wt; exit 1; fi
demo_path=$(python3 -c "import json;print(json.load(open('$src/meta.json'))['demo_path_in_repo'])")
demo_cmd=$(python3 - <<PY
import json,re
c=json.load(open('$src/meta.json'))['demo_cmd']
k=c.find('go test')
c=c[k:]
c=re.split(r'\s+#|\s*&&|\s*;', c)[0]
print(c)
PY
)
demo_file=$(ls $src | grep -E "_test\.go$" | head -1)
mkdir -p $(dirname $wt/$demo_path); cp $src/$demo_file $wt/$demo_path
demo_cmd=${demo_cmd//\/tmp\/wt-$prop/$wt}
demo_cmd=${demo_cmd//\/tmp\/wt2-$prop/$wt}
( cd $wt && eval "$demo_cmd" ) > $wt.demo_with 2>&1; with=$?
git checkout -- . ; # revert patch, keep demo (untracked)
( cd $wt && eval "$demo_cmd" ) > $wt.demo_without 2>&1; without=$?
if [ $with -ne 0 ] && [ $without -eq 0 ]; then
  mkdir -p $out; cp $wt.rebased.diff $out/patch.diff; cp $src/$demo_file $out/; cp $src/meta.json $out/meta.orig.json
  python3 - <<PY
import json
m=json.load(open("$src/meta.json"))
m.update({"confirmed": {"patch_applies_to_repo_head": True, "go_build": "ok", "existing_suite": "no new failures (grpc/codegen protoc tests fail on the unchanged tree too)", "demo_with_patch": "fails (exit $with)", "demo_without_patch": "passes", "commands": ["git apply patch.diff", "go build ./...", "go test -vet=off -count=1 ./...", "$demo_cmd"]}})
json.dump(m, open("$out/meta.json","w"), indent=1)
PY
  rm -f $out/meta.orig.json
  echo "$prop-$label$m: CONFIRMED"
else
  echo "$prop-$m: DEMO NOT DISCRIMINATING (with=$with without=$without)"; tail -5 $wt.demo_with; tail -5 $wt.demo_without
fi
cd /; git -C /repo worktree remove --force $wt; rm -f $wt.*
