#!/bin/bash
# usage: benigntest.sh <patch.diff> <prop> [<prop> ...]
# applies a behaviour-preserving patch to /repo, runs the given checks (quick), reverts; prints one line per check
patch=$1; shift
cd /repo || exit 9
if [ -n "$(git status --porcelain)" ]; then echo "repo dirty"; exit 9; fi
git apply "$patch" 2>/dev/null || { echo "PATCH-FAILED $patch"; git checkout -- .; git clean -fdq; exit 9; }
cd /verif
for p in "$@"; do
  out=$(timeout 2400 ./check $p 2>&1); rc=$?
  echo "$(basename $(dirname $patch)) $p rc=$rc | $(echo "$out" | grep -E '^VIOLATION|^INFRA' | head -2 | cut -c1-260 | tr '\n' ' ') $(echo "$out" | tail -1 | cut -c1-100)"
done
cd /repo && git checkout -- . && git clean -fdq
