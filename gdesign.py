"""Generated-code (family G) support: run the real goa generator on a catalogue design in a scratch module."""
import os, shutil, subprocess, json, sys

VERIF = os.path.dirname(os.path.abspath(__file__))
GOENV = dict(os.environ, GOFLAGS="-mod=mod", GOPROXY="off", GOSUMDB="off", GOTOOLCHAIN="local")

GEN_MAIN = '''package main

import (
	"fmt"
	"os"
	"path/filepath"

	"goa.design/goa/v3/codegen/generator"
	"goa.design/goa/v3/eval"
	_ "vdesign/design"
)

func main() {
	cmd := "gen"
	if len(os.Args) > 1 {
		cmd = os.Args[1]
	}
	if err := eval.RunDSL(); err != nil {
		fmt.Fprintln(os.Stderr, "DSL-ERROR:", err)
		os.Exit(3)
	}
	if cmd == "gen" {
		// what the goa tool does before regenerating: drop the sub-directories of gen/
		if entries, err := os.ReadDir("gen"); err == nil {
			for _, e := range entries {
				if e.IsDir() {
					os.RemoveAll(filepath.Join("gen", e.Name()))
				}
			}
		}
	}
	out := "."
	if len(os.Args) > 2 {
		out = os.Args[2]
	}
	if _, err := generator.Generate(out, cmd); err != nil {
		fmt.Fprintln(os.Stderr, "GEN-ERROR:", err)
		os.Exit(4)
	}
}
'''


def tree_hash(root, sub):
    import hashlib
    out = {}
    base = os.path.join(root, sub)
    for dp, dn, fn in os.walk(base):
        for f in fn:
            p = os.path.join(dp, f)
            out[os.path.relpath(p, root)] = hashlib.sha256(open(p, "rb").read()).hexdigest()
    return out


def run_cmd(d, cmd, out=None):
    args = ["go", "run", "./cmd/gen", cmd] + ([out] if out else [])
    r = subprocess.run(args, cwd=d, env=GOENV, capture_output=True, text=True)
    return r.returncode, r.stderr[-2000:]



def history_alt(d, problems):
    # example with an output directory that is not the working directory
    os.makedirs(os.path.join(d, "alt"), exist_ok=True)
    rc, e = run_cmd(d, "example", "alt")
    if rc != 0:
        problems.append("example -o alt failed: " + e[-400:])
    else:
        alt = [p for p in tree_hash(d, "alt") if p.endswith(".go") and "/gen/" not in p]
        for p in alt:
            open(os.path.join(d, p), "a").write("\n// edited by the user\n")
        before = {p: open(os.path.join(d, p), "rb").read() for p in alt}
        rc, e = run_cmd(d, "example", "alt")
        if rc != 0:
            problems.append("second example -o alt failed: " + e[-400:])
        for p in alt:
            if open(os.path.join(d, p), "rb").read() != before[p]:
                problems.append("example -o alt clobbered existing file " + p)


def history(design, repo, tmp, processes=4):
    """Concrete generator-history experiment for C09. Returns a list of problems (empty = all held)."""
    problems = []
    d, err = generate(design, repo, tmp)
    if err:
        return ["generator failed: " + err[-500:]]
    h1 = tree_hash(d, "gen")
    # gen again over its own output, fresh process
    rc, e = run_cmd(d, "gen")
    if rc != 0:
        problems.append("second gen failed: " + e)
    h2 = tree_hash(d, "gen")
    if h2 != h1:
        diff = sorted(k for k in set(h1) | set(h2) if h1.get(k) != h2.get(k))
        problems.append("gen;gen differs in " + ", ".join(diff[:5]))
    # fresh processes / directories
    for i in range(processes):
        di, err = generate(design, repo, os.path.join(tmp, "p%d" % i))
        if err:
            problems.append("repeat %d failed" % i)
            continue
        if i == 0:
            # example into an output directory that is not the working directory (no example file in the cwd)
            h0 = tree_hash(di, "gen")
            history_alt(di, problems)
            if tree_hash(di, "gen") != h0:
                problems.append("example -o alt modified gen/")
        hi = tree_hash(di, "gen")
        if hi != h1:
            diff = sorted(k for k in set(h1) | set(hi) if h1.get(k) != hi.get(k))
            problems.append("fresh process %d differs in %s" % (i, ", ".join(diff[:5])))
            break
    # example; edit; example
    rc, e = run_cmd(d, "example")
    if rc != 0:
        problems.append("example failed: " + e)
        return problems
    ex_files = [p for p in tree_hash(d, ".") if not p.startswith(("gen/", "cmd/gen/", "design/", "vh/")) and p.endswith(".go")]
    for p in ex_files:
        open(os.path.join(d, p), "a").write("\n// edited by the user\n")
    before = {p: open(os.path.join(d, p), "rb").read() for p in ex_files}
    rc, e = run_cmd(d, "example")
    if rc != 0:
        problems.append("second example failed: " + e[-400:])
    for p in ex_files:
        if open(os.path.join(d, p), "rb").read() != before[p]:
            problems.append("example clobbered existing file " + p)
    # example must not disturb gen
    rc, e = run_cmd(d, "gen")
    h3 = tree_hash(d, "gen")
    if rc != 0 or h3 != h1:
        problems.append("gen after example differs")
    return problems


def generate(design, repo, tmp, protoc_dir=None):
    """Creates tmp/<design> as module vdesign with gen/ produced by the real generator. Returns (dir, error)."""
    src = os.path.join(VERIF, "designs", design)
    d = os.path.join(tmp, "g_" + design)
    os.makedirs(tmp, exist_ok=True)
    os.makedirs(os.path.join(d, "design"))
    os.makedirs(os.path.join(d, "cmd", "gen"))
    os.makedirs(os.path.join(d, "vh"))
    open(os.path.join(d, "go.mod"), "w").write(
        "module vdesign\n\ngo 1.22.0\n\nrequire goa.design/goa/v3 v3.0.0\n\nreplace goa.design/goa/v3 => %s\n" % repo)
    shutil.copy(os.path.join(repo, "go.sum"), os.path.join(d, "go.sum"))
    shutil.copy(os.path.join(src, "design.go"), os.path.join(d, "design", "design.go"))
    open(os.path.join(d, "cmd", "gen", "main.go"), "w").write(GEN_MAIN)
    open(os.path.join(d, "vh", "doc.go"), "w").write("package vh\n")
    env = dict(GOENV)
    if protoc_dir:
        env["PATH"] = protoc_dir + ":" + env["PATH"]
    r = subprocess.run(["go", "run", "./cmd/gen", "gen"], cwd=d, env=env, capture_output=True, text=True)
    if r.returncode != 0:
        return d, (r.stderr[-3000:] or "generator failed")
    return d, None


if __name__ == "__main__":
    import tempfile
    tmp = tempfile.mkdtemp(prefix="gdesign_")
    d, err = generate(sys.argv[1], os.environ.get("VERIF_REPO", "/repo"), tmp)
    print(d, err)
