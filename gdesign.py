"""Generated-code (family G) support: run the real goa generator on a catalogue design in a scratch module."""
import os, shutil, subprocess, json, sys

VERIF = os.path.dirname(os.path.abspath(__file__))
GOENV = dict(os.environ, GOFLAGS="-mod=mod", GOPROXY="off", GOSUMDB="off", GOTOOLCHAIN="local")

GEN_MAIN = '''package main

import (
	"fmt"
	"os"

	"goa.design/goa/v3/codegen/generator"
	"goa.design/goa/v3/eval"
	_ "vdesign/design"
)

func main() {
	if err := eval.RunDSL(); err != nil {
		fmt.Fprintln(os.Stderr, "DSL-ERROR:", err)
		os.Exit(3)
	}
	if _, err := generator.Generate(".", "gen"); err != nil {
		fmt.Fprintln(os.Stderr, "GEN-ERROR:", err)
		os.Exit(4)
	}
}
'''


def generate(design, repo, tmp, protoc_dir=None):
    """Creates tmp/<design> as module vdesign with gen/ produced by the real generator. Returns (dir, error)."""
    src = os.path.join(VERIF, "designs", design)
    d = os.path.join(tmp, "g_" + design)
    os.makedirs(os.path.join(d, "design"))
    os.makedirs(os.path.join(d, "cmd", "gen"))
    os.makedirs(os.path.join(d, "vh"))
    open(os.path.join(d, "go.mod"), "w").write(
        "module vdesign\n\ngo 1.22.0\n\nrequire goa.design/goa/v3 v3.0.0\n\nreplace goa.design/goa/v3 => %s\n" % repo)
    shutil.copy(os.path.join(repo, "go.sum"), os.path.join(d, "go.sum"))
    shutil.copy(os.path.join(src, "design.go"), os.path.join(d, "design", "design.go"))
    open(os.path.join(d, "cmd", "gen", "main.go"), "w").write(GEN_MAIN)
    open(os.path.join(d, "vh", "doc.go"), "w").write("package vh\n")
    env = dict(GOENV)
    if protoc_dir:
        env["PATH"] = protoc_dir + ":" + env["PATH"]
    r = subprocess.run(["go", "run", "./cmd/gen"], cwd=d, env=env, capture_output=True, text=True)
    if r.returncode != 0:
        return d, (r.stderr[-3000:] or "generator failed")
    return d, None


if __name__ == "__main__":
    import tempfile
    tmp = tempfile.mkdtemp(prefix="gdesign_")
    d, err = generate(sys.argv[1], os.environ.get("VERIF_REPO", "/repo"), tmp)
    print(d, err)
