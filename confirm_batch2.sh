#!/bin/bash
# usage: confirm_batch2.sh C18-m1 ...   (round 2: /tmp/seed2-<prop>/<m> -> /verif/seeded/<prop>-r2<m>)
for x in "$@"; do p=${x%-*}; m=${x#*-}; /verif/confirm_seed.sh $p $m /tmp/seed2- r2; done
