#!/bin/bash
# usage: confirm_batch4.sh C04-m1 ...   (round 4: /tmp/seed4-<prop>/<m> -> /verif/seeded/<prop>-r4<m>)
for x in "$@"; do p=${x%-*}; m=${x#*-}; /verif/confirm_seed.sh $p $m /tmp/seed4- r4; done
