#!/usr/bin/env python3
"""Regenerates MANIFEST.json from props.py (claimed checks) and NA (not claimed)."""
import json, sys
sys.path.insert(0, "/verif")
import props

ALL = ["C%02d" % i for i in range(1, 21)]
NA_REASONS = {
    "C07": "relation between two concrete generator outputs (operation lists, JSON vs YAML, validity w.r.t. the OpenAPI meta-schema); there is no input, environment or schedule to make symbolic and the generator itself cannot be encoded (DESIGN.md C07)",
    "C12": "quantifies over DSL programs assembled from ~150 reflective closure-taking functions; the only thing that could be symbolic is the program itself, and the dsl/expr validation code (reflection, runtime.Caller, regexp, deep type graphs) is beyond the executor's reach (DESIGN.md C12)",
}
DEFAULT_NA = "not reached in this round: no harness runs clean on the unchanged tree yet (DESIGN.md section 8 drop rule)"

checks = []
for pid in ALL:
    P = props.PROPS.get(pid)
    if not P or not P.get("claimed", True):
        continue
    m = P["manifest"]
    checks.append({
        "property_id": pid,
        "quick_cmd": f"./check {pid} --tier quick",
        "thorough_cmd": f"./check {pid} --tier thorough",
        "evidence_file": f"/verif/evidence/{pid}.json",
        "replay_cmd_template": f"./check {pid} --tier quick  # the model stored in {{path}} is replayed natively by the check itself (go test -overlay)",
        "engine": "gosym",
        "level_claimed": {"category": P["level"], "text": m["text"], "design_ref": m.get("design_ref", "DESIGN.md section 5 " + pid)},
        "level_note": m["note"],
        "technique": m.get("technique", "bounded symbolic execution of the real Go code from go/ssa; SMT (z3) decides every assertion on every path; counterexamples replayed natively"),
    })
claimed = {c["property_id"] for c in checks}
na = []
for pid in ALL:
    if pid not in claimed:
        reason = NA_REASONS.get(pid) or (props.PROPS.get(pid, {}).get("na_reason")) or DEFAULT_NA
        na.append({"property_id": pid, "reason": reason})
man = {
    "version": 1,
    "setup_cmd": "cd /verif/gosym && GOFLAGS=-mod=mod GOPROXY=off GOSUMDB=off GOTOOLCHAIN=local go build -o /verif/bin/gosym . && cd /verif && python3 selftest.py",
    "hooks": {"guard": "verif", "enable": "harness files carry //go:build verif and are injected into the package under test through a go/packages overlay (and go test -overlay for native replay) with -tags=verif; no hook is compiled into /repo", "baseline_off_cmd": "cd /repo && GOFLAGS=-mod=mod go test -vet=off -count=1 ./...", "source_commits": [], "add_only": True},
    "engines": [{"name": "gosym", "path": "/verif/gosym", "serves_properties": sorted(claimed), "kind_free_text": "forking symbolic executor for Go built on go/ssa (x/tools v0.29.0): integers as bit-vectors, strings as concrete-length vectors of symbolic bytes, concrete heap, if-conversion of pure diamonds; one persistent z3 -in per harness; DFS by re-execution; native replay of every counterexample and of sampled witnesses"}],
    "checks": checks,
    "notes": "Every check rebuilds SSA from /repo's working tree on each run. exit 2 (never on the unchanged tree) means the run was inconclusive (engine could not complete a harness); it is not a violation report. fix: commits in /repo are listed in known_findings.json under 'fixed'.",
    "not_applicable": na,
}
json.dump(man, open("/verif/MANIFEST.json", "w"), indent=1)
print("claimed:", sorted(claimed))
