#!/usr/bin/env python3
"""Orchestrator: ./check <property-id> [--tier quick|thorough]

Runs the gosym harnesses of a property against the current working tree of
the repository, replays every counterexample natively, matches confirmed
violations against known_findings.json, validates a sample of witnesses
against the real build and writes evidence/<id>.json.

exit 0: property held on everything explored (known findings printed)
exit 1: confirmed violation not listed  (VIOLATION property=<id> replay=<path>)
exit 2: infrastructure problem / inconclusive run (never on a clean tree)
"""
import argparse, concurrent.futures as cf, hashlib, json, os, re, shutil, subprocess, sys, tempfile, time

VERIF = os.path.dirname(os.path.abspath(__file__))
REPO = os.environ.get("VERIF_REPO", "/repo")
GOSYM = os.path.join(VERIF, "bin", "gosym")
GOENV = dict(os.environ, GOFLAGS="-mod=mod", GOPROXY="off", GOSUMDB="off", GOTOOLCHAIN="local")
sys.path.insert(0, VERIF)


def log(*a):
    print(*a, file=sys.stderr, flush=True)


def ensure_built():
    src = os.path.join(VERIF, "gosym")
    newest = max(os.path.getmtime(os.path.join(src, f)) for f in os.listdir(src))
    if not os.path.exists(GOSYM) or os.path.getmtime(GOSYM) < newest:
        os.makedirs(os.path.dirname(GOSYM), exist_ok=True)
        r = subprocess.run(["go", "build", "-o", GOSYM, "."], cwd=src, env=GOENV, capture_output=True, text=True)
        if r.returncode != 0:
            log(r.stderr)
            sys.exit(2)


def hpath(job, f):
    return f if os.path.isabs(f) else os.path.join(VERIF, "harness", job["harness_dir"], f)


def harness_names(job):
    names = []
    for f in job["files"]:
        txt = open(hpath(job, f)).read()
        names += re.findall(r"^func (Verif\w+)\(\)", txt, re.M)
    return names


def prepare_overlay(job, tmp, replay=False):
    d = os.path.join(tmp, "ov_" + job["name"] + ("_replay" if replay else ""))
    os.makedirs(d, exist_ok=True)
    common = os.path.join(VERIF, "harness", "common")
    pre = "prelude_replay.go.tmpl" if replay else "prelude_decl.go.tmpl"
    txt = open(os.path.join(common, pre)).read().replace("PKGNAME", job["pkgname"])
    open(os.path.join(d, "zz_verif_decl.go"), "w").write(txt)
    if replay:
        txt = open(os.path.join(common, "prelude_float.go.tmpl")).read().replace("PKGNAME", job["pkgname"])
        open(os.path.join(d, "zz_verif_float.go"), "w").write(txt)
    for f in job["files"] + job.get("support", []):
        shutil.copy(hpath(job, f), os.path.join(d, os.path.basename(f)))
    for f in job.get("extra_decl", []):
        if not replay:
            shutil.copy(hpath(job, f), os.path.join(d, os.path.basename(f)))
    for f in job.get("extra_replay", []):
        if replay:
            shutil.copy(hpath(job, f), os.path.join(d, os.path.basename(f)))
    return d


def shards_of(job, harness):
    for rx, n in job.get("shards", {}).items():
        if re.search(rx, harness):
            return n
    return 1


def merge_shards(parts):
    """Merge the HarnessResult of several shards of one harness."""
    base = parts[0]
    if len(parts) == 1:
        return base
    for res in parts[1:]:
        if res.get("error") and not base.get("error"):
            base["error"] = res["error"]
        if not res.get("harnesses"):
            continue
        if not base.get("harnesses"):
            base["harnesses"] = res["harnesses"]
            continue
        a, b = base["harnesses"][0], res["harnesses"][0]
        for k in ("paths", "paths_ok", "pruned", "panics", "unknown", "q_sat", "q_unsat", "solver_s", "decisions", "steps", "decided_by_domain_enumeration"):
            a[k] = a.get(k, 0) + b.get(k, 0)
        a["wall_s"] = max(a["wall_s"], b["wall_s"])
        for k in ("asserts", "asserts_const", "reached", "unsupported"):
            d = a.get(k) or {}
            for kk, vv in (b.get(k) or {}).items():
                d[kk] = d.get(kk, 0) + vv
            a[k] = d
        a["violations"] = (a.get("violations") or []) + (b.get("violations") or [])
        a["engine_bugs"] = (a.get("engine_bugs") or []) + (b.get("engine_bugs") or [])
        a["samples"] = ((a.get("samples") or []) + (b.get("samples") or []))[:4]
        a["witnesses"] = (a.get("witnesses") or []) + (b.get("witnesses") or [])
        a["fallback"] = ((a.get("fallback") or []) + (b.get("fallback") or []))[:96]
        a["functions"] = sorted(set((a.get("functions") or []) + (b.get("functions") or [])))
        a["stubs"] = sorted(set((a.get("stubs") or []) + (b.get("stubs") or [])))
        if not b["complete"]:
            a["complete"] = False
            a["incomplete_reason"] = (a.get("incomplete_reason") or "") + " | " + (b.get("incomplete_reason") or "")
        base.setdefault("function_hashes", {}).update(res.get("function_hashes") or {})
    return base


CURRENT_TIER = "quick"


def run_gosym(job, harness, tier, tmp, ovdir, solver="z3-new", shard=None, nodom=False):
    out = os.path.join(tmp, f"res_{job['name']}_{harness}_{solver}_{shard[0] if shard else 0}_{int(nodom)}.json")
    moddir = job.get("moddir", REPO)
    pkgdir = os.path.join(moddir, job["pkgdir"])
    lim = job.get("limits", {}).get(tier, {})
    cmd = [GOSYM, "-dir", moddir, "-pkg", job["pkg"], "-pkgdir", pkgdir, "-overlay", ovdir,
           "-harness", "^" + harness + "$", "-solver", solver, "-out", out,
           "-max-paths", str(lim.get("max_paths", 200000)), "-timeout", str(lim.get("timeout", 900 if tier == "quick" else 3600)),
           "-query-timeout", str(60000 if tier == "quick" else 300000), "-witness", str(job.get("witness", 4))]
    if tier == "thorough":
        cmd += ["-deep"]
    if shard:
        cmd += ["-shard", f"{shard[0]}/{shard[1]}"]
    if nodom:
        cmd += ["-no-dom"]
    if job.get("assert_include"):
        cmd += ["-assert-include", job["assert_include"]]
    if job.get("assert_exclude"):
        cmd += ["-assert-exclude", job["assert_exclude"]]
    t0 = time.time()
    budget = lim.get("timeout", 900 if tier == "quick" else 3600)
    try:
        r = subprocess.run(cmd, env=GOENV, capture_output=True, text=True, timeout=budget + 600)
    except subprocess.TimeoutExpired as e:
        class _R: pass
        r = _R(); r.stderr = f"gosym killed after {budget + 600}s (hard limit)"
    try:
        res = json.load(open(out))
    except Exception as e:
        res = {"error": f"gosym produced no result ({e}): {r.stderr[-2000:]}", "harnesses": []}
    res["_stderr"] = r.stderr[-4000:]
    res["_wall"] = time.time() - t0
    res["_harness"] = harness
    res["_job"] = job["name"]
    return res


def native_replay(job, cases, tmp, tag, race=False):
    """cases: list of {harness, tag, model}. Returns dict tag -> list of output lines."""
    if not cases:
        return {}
    ovdir = prepare_overlay(job, tmp, replay=True)
    names = harness_names(job)
    test = "//go:build verif\n\npackage %s\n\nimport \"testing\"\n\nfunc TestVerifReplay(t *testing.T) {\n\tverifReplayAll(map[string]func(){\n" % job["pkgname"]
    for n in names:
        test += f"\t\t\"{n}\": {n},\n"
    test += "\t})\n}\n"
    open(os.path.join(ovdir, "zz_verif_replay_test.go"), "w").write(test)
    moddir = job.get("moddir", REPO)
    pkgdir = os.path.join(moddir, job["pkgdir"])
    overlay = {"Replace": {os.path.join(pkgdir, f): os.path.join(ovdir, f) for f in os.listdir(ovdir)}}
    ovjson = os.path.join(tmp, f"overlay_{job['name']}_{tag}.json")
    json.dump(overlay, open(ovjson, "w"))
    model = os.path.join(tmp, f"cases_{job['name']}_{tag}.json")
    json.dump(cases, open(model, "w"))
    cmd = ["go", "test", "-tags", "verif", "-vet=off", "-count=1", "-overlay", ovjson, "-run", "^TestVerifReplay$", "-v"]
    if race:
        cmd.append("-race")
    cmd.append("./" + job["pkgdir"] + "/")
    env = dict(GOENV, VERIF_REPLAY_MODEL=model, VERIF_DEEP="1" if CURRENT_TIER == "thorough" else "0")
    r = subprocess.run(cmd, cwd=moddir, env=env, capture_output=True, text=True, timeout=1200)
    outs, cur = {}, None
    for line in r.stdout.splitlines():
        line = line.strip()
        if line.startswith("REPLAY-BEGIN "):
            cur = line.split(" ", 2)[2]
            outs[cur] = []
        elif line.startswith("REPLAY-END"):
            cur = None
        elif cur is not None:
            outs[cur].append(line)
        elif line.startswith("REPLAY-ERROR"):
            outs.setdefault("_error", []).append(line)
    if cur is not None and ("stack overflow" in r.stdout or "stack overflow" in r.stderr or "goroutine stack exceeds" in r.stdout + r.stderr):
        # the Go runtime killed the test binary in the middle of this case
        outs[cur].append("REPLAY-PANIC fatal error: stack overflow")
    if not outs:
        outs["_error"] = ["no replay output: " + (r.stdout[-1500:] + r.stderr[-1500:])]
    if race and "WARNING: DATA RACE" in (r.stdout + r.stderr):
        outs["_race"] = [l for l in (r.stdout + r.stderr).splitlines() if "DATA RACE" in l or l.strip().startswith("goa.design")][:20]
    return outs


def load_known():
    p = os.path.join(VERIF, "known_findings.json")
    if not os.path.exists(p):
        return {"findings": [], "fixed": []}
    return json.load(open(p))


def match_known(known, prop, harness, assert_id):
    for f in known["findings"]:
        if f["property"] == prop and re.search(f["harness"], harness) and re.search(f["assert"], assert_id):
            return f
    return None


def main():
    ap = argparse.ArgumentParser()
    ap.add_argument("prop")
    ap.add_argument("--tier", default=os.environ.get("VERIF_TIER", "quick"))
    ap.add_argument("--only", default="", help="regexp restricting harness names (debugging)")
    ap.add_argument("--keep", action="store_true")
    ap.add_argument("--jobs", type=int, default=int(os.environ.get("VERIF_JOBS", "14")))
    args = ap.parse_args()
    prop, tier = args.prop, args.tier
    global CURRENT_TIER
    CURRENT_TIER = tier
    seed = int(os.environ.get("VERIF_SEED", "0"))
    import props
    if prop not in props.PROPS:
        log("unknown property", prop)
        sys.exit(2)
    P = props.PROPS[prop]
    ensure_built()
    t0 = time.time()
    tmp = tempfile.mkdtemp(prefix=f"verif_{prop}_")
    infra = []
    try:
        jobs = list(P["jobs"])
        if "prepare" in P:
            jobs = jobs + P["prepare"](P, tier, tmp, seed, infra)
        compile_results = []
        if "compile_designs" in P:
            import gdesign
            def build_one(d):
                moddir, err = gdesign.generate(d, REPO, tmp + "/c", os.path.join(VERIF, "tools", "fakeprotoc"))
                if err:
                    return d, "generator", err
                r = subprocess.run(["go", "build", "./gen/..."], cwd=moddir, env=GOENV, capture_output=True, text=True)
                if r.returncode != 0:
                    return d, "compile", (r.stdout + r.stderr)[-2500:]
                return d, None, ""
            os.makedirs(tmp + "/c", exist_ok=True)
            with cf.ThreadPoolExecutor(max_workers=8) as ex:
                compile_results = list(ex.map(build_one, P["compile_designs"]))
        history_results = []
        if "history_designs" in P:
            import gdesign
            os.makedirs(tmp + "/h", exist_ok=True)
            with cf.ThreadPoolExecutor(max_workers=4) as ex:
                futs = {d: ex.submit(gdesign.history, d, REPO, tmp + "/h/" + d, 6 if tier == "quick" else 12) for d in P["history_designs"]}
                history_results = [(d, f.result()) for d, f in futs.items()]
        tasks = []
        for job in jobs:
            rx = job["thorough"] if tier == "thorough" else job["quick"]
            ov = prepare_overlay(job, tmp)
            for h in harness_names(job):
                if re.search(rx, h) and (not args.only or re.search(args.only, h)):
                    tasks.append((job, h, ov))
        if not tasks:
            log("no harness selected")
            sys.exit(2)
        results = []
        jobs_by_name = {j["name"]: j for j in jobs}
        with cf.ThreadPoolExecutor(max_workers=args.jobs) as ex:
            futs = []
            for job, h, ov in tasks:
                n = shards_of(job, h)
                if n > 1:
                    futs.append([ex.submit(run_gosym, job, h, tier, tmp, ov, "z3-new", (i, n)) for i in range(n)])
                else:
                    futs.append([ex.submit(run_gosym, job, h, tier, tmp, ov)])
            # thorough tier: re-discharge selected harnesses with the other solvers and without the byte-domain shortcut
            xfuts = []
            if tier == "thorough" and P.get("xcheck"):
                for job, h, ov in tasks:
                    if re.search(P["xcheck"], h) and shards_of(job, h) == 1:
                        xfuts.append((h, "z3-4.8.12", ex.submit(run_gosym, job, h, tier, tmp, ov, "z3")))
                        xfuts.append((h, "z3-5.1.0 without byte domains", ex.submit(run_gosym, job, h, tier, tmp, ov, "z3-new", None, True)))
            for group in futs:
                results.append(merge_shards([f.result() for f in group]))
            cross = []
            by_h = {r["_harness"]: r for r in results}
            for h, label, f in xfuts:
                r2 = f.result()
                r1 = by_h.get(h)
                def summ(r):
                    if not r or r.get("error") or not r.get("harnesses"):
                        return None
                    hh = r["harnesses"][0]
                    return (hh["paths"], hh["paths_ok"], sorted({v["assert"] for v in hh["violations"] or []}), hh["complete"])
                a, b = summ(r1), summ(r2)
                cross.append({"harness": h, "against": label, "agree": a == b and a is not None, "paths": a[0] if a else None})
                if a != b or a is None:
                    infra.append(f"cross-check disagreement for {h} against {label}: {a} vs {b}")
            P["_cross"] = cross
        # --- collect
        harness_res = []
        api_mismatch = []
        for res in results:
            if res.get("error"):
                job = jobs_by_name[res["_job"]]
                st = res.get("_stderr", "")
                # harness written against the API the design implies no longer type-checks against the generated code
                if "moddir" in job and "package load/type errors" in res["error"] and "/vh/zz_h_" in st and "/gen/" not in st.split("gosym:")[0].replace("vdesign/gen/", ""):
                    if not any(a["job"] == job["name"] for a in api_mismatch):
                        outs = native_replay(job, [{"harness": res["_harness"], "tag": "build", "model": {}}], tmp, "build")
                        err = " ".join(outs.get("_error", []))
                        if "_error" in outs and ("vh/zz_h_" in err or "zz_h_" in err):
                            api_mismatch.append({"job": job["name"], "harness": res["_harness"], "errors": [l for l in st.splitlines() if "load error" in l][:8], "native_build": err[-1500:]})
                            continue
                    else:
                        continue
                # the generated packages themselves do not type-check: confirm with the Go compiler
                if "moddir" in job and "package load/type errors" in res["error"] and "/gen/" in st:
                    if not any(a["job"] == job["name"] for a in api_mismatch):
                        r = subprocess.run(["go", "build", "./gen/..."], cwd=job["moddir"], env=GOENV, capture_output=True, text=True)
                        if r.returncode != 0:
                            api_mismatch.append({"job": job["name"], "harness": res["_harness"], "kind": "generated-code-compiles", "errors": [l for l in st.splitlines() if "load error" in l][:8], "native_build": (r.stdout + r.stderr)[-1500:]})
                            continue
                    else:
                        continue
                infra.append(f"{res['_job']}/{res['_harness']}: {res['error']} :: {res.get('_stderr','')[-1200:]}")
                continue
            for h in res["harnesses"]:
                h["_job"] = res["_job"]
                h["_funchash"] = res.get("function_hashes", {})
                h["_load_s"] = res.get("load_s", 0)
                harness_res.append(h)
        for h in harness_res:
            if not h["complete"]:
                infra.append(f"{h['harness']}: incomplete: {h.get('incomplete_reason')} {json.dumps(h.get('unsupported') or {})[:600]} {(h.get('engine_bugs') or [''])[0][:1500]}")
            if h["paths_ok"] == 0 and not h["violations"]:
                infra.append(f"{h['harness']}: vacuous (no completed path)")
            if not h["asserts"] and not h["violations"]:
                infra.append(f"{h['harness']}: vacuous (no assertion reached)")
        for job in jobs:
            for hn, ids in job.get("expect_reach", {}).items():
                for h in harness_res:
                    if h["harness"] == hn:
                        for i in ids:
                            if not h["reached"].get(i):
                                infra.append(f"{hn}: reachability witness {i} not reached")
        # --- replay counterexamples (one per harness+assert class)
        known = load_known()
        confirmed, mismatches, known_seen = [], [], {}
        by_job = {}
        inc, exc = P.get("assert_include"), P.get("assert_exclude")
        for h in harness_res:
            seen = {}
            for v in h["violations"] or []:
                if (inc and not re.search(inc, v["assert"])) or (exc and re.search(exc, v["assert"])):
                    continue
                key = (h["harness"], v["assert"])
                # up to 4 models per violated assertion: one that reproduces natively is enough
                # (a schedule-dependent model may need a window the native run does not meet)
                if seen.get(key, 0) >= 4:
                    continue
                seen[key] = seen.get(key, 0) + 1
                tag = f"{h['harness']}|{v['assert']}|{len(by_job.get(h['_job'], []))}"
                by_job.setdefault(h["_job"], []).append({"harness": h["harness"], "tag": tag, "model": v["model"], "_v": v})
        replay_dir = os.path.join(VERIF, "replays", prop)
        for jn, cases in by_job.items():
            job = jobs_by_name[jn]
            outs = native_replay(job, [{k: c[k] for k in ("harness", "tag", "model")} for c in cases], tmp, "cex", race=job.get("race", False))
            if "_error" in outs:
                infra.append(f"replay of {jn} failed: {outs['_error'][:3]}")
            for c in cases:
                v = c["_v"]
                lines = outs.get(c["tag"], [])
                ok = False
                if v["kind"] == "assert":
                    ok = f"REPLAY-ASSERT-FAIL {v['assert']}" in lines
                elif v["kind"] == "panic":
                    ok = any(l.startswith("REPLAY-PANIC") for l in lines)
                if v["assert"].startswith("race:"):
                    ok = "_race" in outs
                rec = {"harness": c["harness"], "assert": v["assert"], "kind": v["kind"], "detail": v.get("detail"), "model": v["model"], "replay_output": lines[:40], "job": jn}
                if ok:
                    confirmed.append(rec)
                else:
                    mismatches.append(rec)
        # one reproducing model per (harness, assertion) is enough: drop its other models
        ckeys = {(r["harness"], r["assert"]) for r in confirmed}
        mismatches = [m for m in mismatches if (m["harness"], m["assert"]) not in ckeys]
        uniq, seen_c = [], set()
        for r in confirmed:
            if (r["harness"], r["assert"]) not in seen_c:
                seen_c.add((r["harness"], r["assert"]))
                uniq.append(r)
        confirmed = uniq
        # --- native fallback: inputs that reach constructs the executor cannot
        # interpret are run against the real code (sampling; the harness stays
        # incomplete, but an assertion that fails natively is a confirmed violation)
        fb_by_job, fb_total = {}, 0
        for h in harness_res:
            for fi, f in enumerate(h.get("fallback") or []):
                tag = f"{h['harness']}|fb{fi}"
                fb_by_job.setdefault(h["_job"], []).append({"harness": h["harness"], "tag": tag, "model": f["model"]})
        for jn, cases in fb_by_job.items():
            job = jobs_by_name[jn]
            outs = native_replay(job, cases, tmp, "fb", race=False)
            if "_error" in outs:
                infra.append(f"native fallback of {jn} failed: {outs['_error'][:3]}")
                continue
            seen_fb = set()
            for c in cases:
                fb_total += 1
                lines = outs.get(c["tag"], [])
                for l in lines:
                    aid, kind = None, "assert"
                    if l.startswith("REPLAY-ASSERT-FAIL "):
                        aid = l[len("REPLAY-ASSERT-FAIL "):].strip()
                    elif l.startswith("REPLAY-PANIC"):
                        aid, kind = "no-panic", "panic"
                    if aid is None or (c["harness"], aid) in seen_fb:
                        continue
                    if (inc and not re.search(inc, aid)) or (exc and re.search(exc, aid)):
                        continue
                    seen_fb.add((c["harness"], aid))
                    confirmed.append({"harness": c["harness"], "assert": aid, "kind": kind, "detail": "found by native run of an input whose path the executor could not finish", "model": c["model"], "replay_output": lines[:40], "job": jn})
        # --- witness validation
        wit_total, wit_ok = 0, 0
        wcases_by_job = {}
        for h in harness_res:
            for wi, w in enumerate(h.get("witnesses") or []):
                tag = f"{h['harness']}|wit{wi}"
                wcases_by_job.setdefault(h["_job"], []).append({"harness": h["harness"], "tag": tag, "model": w["model"], "_obs": w["observed"]})
        for jn, cases in wcases_by_job.items():
            job = jobs_by_name[jn]
            if job.get("no_witness_replay"):
                continue
            outs = native_replay(job, [{k: c[k] for k in ("harness", "tag", "model")} for c in cases], tmp, "wit")
            if "_error" in outs:
                infra.append(f"witness replay of {jn} failed: {outs['_error'][:3]}")
                continue
            for c in cases:
                wit_total += 1
                lines = outs.get(c["tag"], [])
                native = {}
                bad = [l for l in lines if l.startswith(("REPLAY-ASSERT-FAIL", "REPLAY-PANIC", "REPLAY-MISSING", "REPLAY-MISMATCH", "REPLAY-ABORT"))]
                # assertions the engine was told to leave to another property are not compared
                inc, exc = job.get("assert_include"), job.get("assert_exclude")
                def _filtered(l):
                    if not l.startswith("REPLAY-ASSERT-FAIL "):
                        return False
                    aid = l[len("REPLAY-ASSERT-FAIL "):].strip()
                    return bool((inc and not re.search(inc, aid)) or (exc and re.search(exc, aid)))
                bad = [l for l in bad if not _filtered(l)]
                for l in lines:
                    if l.startswith("REPLAY-OBSERVE "):
                        k, _, val = l[len("REPLAY-OBSERVE "):].partition("=")
                        native[k] = val
                diffs = [k for k, val in c["_obs"].items() if native.get(k) != val]
                if bad or diffs or "REPLAY-RETURNED" not in lines:
                    mismatches.append({"harness": c["harness"], "assert": "witness", "kind": "witness", "model": c["model"], "replay_output": lines[:40], "diffs": {k: [c["_obs"].get(k), native.get(k)] for k in diffs}})
                else:
                    wit_ok += 1
        # --- verdict
        violations_out = []
        for rec in confirmed:
            kf = match_known(known, prop, rec["harness"], rec["assert"])
            if kf:
                known_seen.setdefault(kf["id"], kf)
            else:
                os.makedirs(replay_dir, exist_ok=True)
                hsh = hashlib.sha256(json.dumps([rec["harness"], rec["assert"], rec["model"]], sort_keys=True).encode()).hexdigest()[:12]
                path = os.path.join(replay_dir, f"{rec['harness']}_{hsh}.json")
                job = jobs_by_name[rec["job"]]
                rec["how_to_replay"] = f"cd {VERIF} && ./check {prop} --tier {tier} --only '^{rec['harness']}$'  (the native replay of this model is run automatically; overlay files: harness/{job['harness_dir']}/*.go + harness/common/prelude_replay.go.tmpl)"
                json.dump(rec, open(path, "w"), indent=1)
                violations_out.append((rec, path))
        known = load_known() if "known" not in dir() else known
        for d, stage, msg in compile_results:
            if stage is None:
                continue
            kf = match_known(known, prop, "design:" + d, "generated-code-compiles")
            if kf:
                known_seen.setdefault(kf["id"], kf)
                continue
            os.makedirs(replay_dir, exist_ok=True)
            path = os.path.join(replay_dir, f"design_{d}_{stage}_failure.json")
            json.dump({"design": d, "stage": stage, "output": msg, "how_to_replay": f"python3 /verif/gdesign.py {d}  && (cd <dir> && go build ./gen/...)"}, open(path, "w"), indent=1)
            violations_out.append(({"harness": "design:" + d, "assert": "generated-code-compiles", "model": {}, "detail": msg[-300:]}, path))
        P["_compiled"] = [d for d, st, _ in compile_results if st is None]
        for d, err in (P.get("_design_errors") or {}).items():
            if P.get("proto_errors_are_violations") and "stand-in protoc:" in err:
                os.makedirs(replay_dir, exist_ok=True)
                path = os.path.join(replay_dir, f"design_{d}_proto.json")
                json.dump({"design": d, "protoc_stand_in_output": err[-1500:], "how_to_replay": f"PATH=/verif/tools/fakeprotoc:$PATH python3 /verif/gdesign.py {d}"}, open(path, "w"), indent=1)
                violations_out.append(({"harness": "design:" + d, "assert": "proto-file-well-formed", "model": {}, "detail": err[-300:]}, path))
                infra[:] = [i for i in infra if not i.startswith(f"design {d}:")]
        for d, problems in history_results:
            if not problems:
                continue
            os.makedirs(replay_dir, exist_ok=True)
            path = os.path.join(replay_dir, f"history_{d}.json")
            json.dump({"design": d, "problems": problems, "how_to_replay": f"python3 -c \"import sys; sys.path.insert(0,'/verif'); import gdesign, tempfile; print(gdesign.history('{d}', '/repo', tempfile.mkdtemp()))\""}, open(path, "w"), indent=1)
            violations_out.append(({"harness": "history:" + d, "assert": "generation-repeatable-and-examples-preserved", "model": {}, "detail": "; ".join(problems)[:400]}, path))
        P["_histories"] = len(history_results)
        for am in api_mismatch:
            os.makedirs(replay_dir, exist_ok=True)
            path = os.path.join(replay_dir, f"{am['harness']}_generated_api_mismatch.json")
            am["explanation"] = "the harness is written against the Go API and JSON shape that the catalogue design implies (and type-checks on the unchanged tree); against the code generated by this tree it no longer compiles, natively either (go test -overlay build output included)"
            json.dump(am, open(path, "w"), indent=1)
            violations_out.append(({"harness": am["harness"], "assert": am.get("kind", "generated-api-matches-design"), "model": {}, "detail": "; ".join(am["errors"])[:400]}, path))
        for kid, kf in known_seen.items():
            print(f"KNOWN-FINDING: property={prop} {kid}: {kf['description']}")
        for rec, path in violations_out:
            print(f"VIOLATION property={prop} replay={path}")
            log(f"  {rec['harness']} assert={rec['assert']} detail={rec.get('detail')} model={json.dumps({k: (v.get('text') or v.get('v')) for k, v in rec['model'].items()})[:600]}")
        for m in mismatches:
            infra.append(f"model mismatch (engine/stub defect, not reported as violation): {m['harness']} {m['assert']} {json.dumps(m.get('diffs', {}))[:300]} out={m['replay_output'][:6]} model={json.dumps({k: (v.get('text') or v.get('v')) for k, v in m.get('model', {}).items()})[:400]}")
        # --- evidence
        write_evidence(prop, tier, seed, P, harness_res, confirmed, mismatches, known_seen, violations_out, wit_total, wit_ok, infra, time.time() - t0)
        for i in infra:
            log("INFRA:", i)
        if violations_out:
            sys.exit(1)
        if infra:
            sys.exit(2)
        log(f"{prop} {tier}: ok — {sum(h['paths'] for h in harness_res)} paths, {sum(h['q_sat']+h['q_unsat'] for h in harness_res)} queries, {len(known_seen)} known finding(s), {wit_ok}/{wit_total} witnesses agree, {time.time()-t0:.0f}s")
        sys.exit(0)
    finally:
        if not args.keep:
            shutil.rmtree(tmp, ignore_errors=True)
        else:
            log("kept", tmp)


def write_evidence(prop, tier, seed, P, harness_res, confirmed, mismatches, known_seen, violations_out, wit_total, wit_ok, infra, wall):
    level = P["level"]
    funcs = {}
    stubs = set()
    for h in harness_res:
        for f in h.get("functions") or []:
            if "zz_verif" in f or ".Verif" in f or ".verif" in f:
                continue
            funcs[f] = h["_funchash"].get(f, "")
        stubs.update(h.get("stubs") or [])
    goa_funcs = {f: s for f, s in funcs.items() if "goa.design/goa" in f or f.startswith("(") and "goa.design/goa" in f or "/gen/" in f}
    samples = []
    for h in harness_res:
        s = {"harness": h["harness"], "paths": h["paths"], "paths_completed": h["paths_ok"], "pruned_by_assumption": h["pruned"], "queries_unsat": h["q_unsat"], "queries_sat": h["q_sat"],
             "assertions_checked": sum((h["asserts"] or {}).values()), "solver_s": round(h["solver_s"], 2), "wall_s": round(h["wall_s"], 2)}
        if h.get("samples"):
            m = h["samples"][0].get("model") or {}
            s["example_path_input"] = {k: (v.get("text") if v.get("kind") == "string" else v.get("v")) for k, v in list(m.items())[:12]}
        samples.append(s)
    paths = sum(h["paths"] for h in harness_res)
    queries = sum(h["q_sat"] + h["q_unsat"] for h in harness_res)
    cov = {
        "samples": samples[:60],
        "harnesses": len(harness_res),
        "functions_encoded": [{"name": f, "sha256_16": s} for f, s in sorted(goa_funcs.items())][:400],
        "functions_encoded_total": len(funcs),
        "stubs": sorted(stubs),
        "bounds": P.get("bounds", {}).get(tier, P.get("bounds", {})),
        "queries": {"unsat": sum(h["q_unsat"] for h in harness_res), "sat": sum(h["q_sat"] for h in harness_res), "unknown": sum(h["unknown"] for h in harness_res)},
        "solver_s": {"z3-5.1.0": round(sum(h["solver_s"] for h in harness_res), 2)},
        "branch_decisions_by_exact_byte_domains": sum(h.get("decided_by_domain_enumeration", 0) for h in harness_res),
        "paths": paths,
        "assertion_sites": sorted({a for h in harness_res for a in (h["asserts"] or {})})[:300],
        "counterexamples_replayed": len(confirmed) + len([m for m in mismatches if m["kind"] != "witness"]),
        "counterexamples_confirmed": len(confirmed),
        "known_findings_seen": sorted(known_seen),
        "witness_replays": {"run": wit_total, "agree": wit_ok},
        "native_fallback_runs": sum(len(h.get("fallback") or []) for h in harness_res),
        "incomplete": infra,
        "outside": P.get("outside", []),
        "cross_checks": P.get("_cross", []),
        "catalogue_designs_generated": P.get("_programs"),
        "designs_compiled": P.get("_compiled"),
        "generator_histories_compared": P.get("_histories"),
    }
    if level == "model_checking":
        cov.update({"states": max(paths, 0), "transitions": max(queries, 0), "traces_validated_against_impl": wit_ok + len(confirmed)})
    elif level == "translation_validation":
        cov.update({"programs": P.get("_programs", 0), "disagreements_checked": queries})
    else:
        cov.update({"explanation": P.get("explanation", "") + f" This run: {paths} paths, {queries} solver queries over {len(harness_res)} harnesses."})
    ev = {"property_id": prop, "tier": tier, "seed": seed, "level": level, "coverage": cov,
          "assumptions": P.get("assumptions", []), "wall_s": round(wall, 1), "violations": len(violations_out)}
    os.makedirs(os.path.join(VERIF, "evidence"), exist_ok=True)
    json.dump(ev, open(os.path.join(VERIF, "evidence", prop + ".json"), "w"), indent=1)


if __name__ == "__main__":
    main()
