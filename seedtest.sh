#!/bin/sh
# usage: seedtest.sh <prop> <patch.diff> [check args...]
# applies the patch to /repo, runs the check, and undoes the patch.
prop=$1; patch=$2; shift 2
cd /repo || exit 9
if [ -n "$(git status --porcelain)" ]; then echo "repo dirty"; exit 9; fi
git apply "$patch" 2>/dev/null || patch -p1 --fuzz=3 -s < "$patch" || { echo "PATCH-FAILED"; git checkout -- .; git clean -fdq; exit 9; }
find . -name '*.orig' -delete
cd /verif && ./check "$prop" "$@"; rc=$?
cd /repo && git checkout -- . && git clean -fdq
echo "seedtest exit=$rc"
exit $rc
