#!/usr/bin/env python3
"""Re-runs the recorded check of every stored seed and reports which are still detected."""
import json, glob, os, re, subprocess, sys, time
out = []
for d in sorted(glob.glob('/verif/seeded/*')):
    name = os.path.basename(d)
    m = json.load(open(d + '/meta.json'))
    cr = m.get('check_run') or ''
    mm = re.match(r'\S*seedtest\.sh (\S+) (\S+)\s*(.*?)\s*(\(|$)', cr)
    if not mm:
        prop = name.split('-')[0]
        args = []
    else:
        prop = mm.group(1)
        args = mm.group(3).split()
    t0 = time.time()
    try:
        r = subprocess.run(['/verif/seedtest.sh', prop, d + '/patch.diff'] + args, stdout=subprocess.PIPE, stderr=subprocess.STDOUT, text=True, timeout=2400)
        o = r.stdout
    except subprocess.TimeoutExpired:
        o = 'TIMEOUT'
        subprocess.run(['git', '-C', '/repo', 'checkout', '--', '.'])
    rc = re.search(r'seedtest exit=(\d+)', o)
    rc = int(rc.group(1)) if rc else -1
    det = rc == 1 and 'VIOLATION property=' in o
    line = f"{name} {prop} {' '.join(args)} -> {'DETECTED' if det else 'NOT-DETECTED rc=%d' % rc} {time.time()-t0:.0f}s"
    print(line, flush=True)
    out.append(line)
open('/tmp/reverify.log', 'w').write('\n'.join(out) + '\n')
